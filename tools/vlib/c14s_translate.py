"""C14S: fail-closed translator for vyper/venom/stack_model.py (pure list code) to Gallina.

Every method `m(self, args)` becomes  sm_m : list Z -> args -> res (list Z * R)   (state-passing over
`self._stack`; operands are abstract ids: `x.value` is x, `a in phis` is id membership).  Python list operations
map to coq/C14S/PyList.v (py_get / py_set / py_del_from / py_append / py_for_enum), which models negative
indices, IndexError and slice clamping.  Anything outside the recognised shapes raises Unsupported."""
import ast

from .common import REPO
from .py2coq import Unsupported

STK = "stk"
OZ, Z, LZ, B, U = "option Z", "Z", "list Z", "bool", "unit"

SIGS = {  # method -> ([(arg, type)], return type)
    "push": ([("op", Z)], U),
    "pop": ([("num", Z)], U),
    "get_depth": ([("op", Z)], OZ),
    "get_phi_depth": ([("phis", LZ)], OZ),
    "peek": ([("depth", Z)], Z),
    "poke": ([("depth", Z), ("op", Z)], U),
    "dup": ([("depth", Z)], U),
    "swap": ([("depth", Z)], U),
}
ORDER = ["push", "pop", "get_depth", "get_phi_depth", "peek", "poke", "dup", "swap"]


def _is_self_stack(n):
    return isinstance(n, ast.Attribute) and n.attr == "_stack" and isinstance(n.value, ast.Name) and n.value.id == "self"


def _is_sentinel(n):
    return (isinstance(n, ast.Attribute) and n.attr == "NOT_IN_STACK" and isinstance(n.value, ast.Name)
            and n.value.id == "StackModel")


class Tr:
    def __init__(self):
        self.n = 0

    def fresh(self, b="v"):
        self.n += 1
        return f"{b}{self.n}"

    # expressions: returns (prefix bindings [(name, monadic term)], text, type)
    def expr(self, n, env):
        if isinstance(n, ast.Constant) and isinstance(n.value, int) and not isinstance(n.value, bool):
            return [], (f"({n.value})" if n.value < 0 else str(n.value)), Z
        if isinstance(n, ast.Name):
            if n.id not in env:
                raise Unsupported(f"unknown name {n.id}")
            return [], n.id, env[n.id]
        if _is_sentinel(n):
            return [], "None", OZ
        if isinstance(n, ast.Attribute) and n.attr == "value":     # operand identity
            return self.expr(n.value, env)
        if isinstance(n, ast.UnaryOp) and isinstance(n.op, ast.USub):
            p, t, ty = self.expr(n.operand, env)
            self.need(ty, Z, n)
            return p, f"(- {t})", Z
        if isinstance(n, ast.BinOp) and isinstance(n.op, (ast.Add, ast.Sub)):
            p1, a, t1 = self.expr(n.left, env)
            p2, b, t2 = self.expr(n.right, env)
            self.need(t1, Z, n)
            self.need(t2, Z, n)
            return p1 + p2, f"({a} {'+' if isinstance(n.op, ast.Add) else '-'} {b})", Z
        if isinstance(n, ast.Call) and isinstance(n.func, ast.Name) and n.func.id == "len" and len(n.args) == 1 \
                and _is_self_stack(n.args[0]):
            return [], f"(zlen {STK})", Z
        if isinstance(n, ast.Subscript) and _is_self_stack(n.value):
            p, i, ty = self.expr(n.slice, env)
            self.need(ty, Z, n)
            v = self.fresh()
            return p + [(v, f"py_get {STK} {i}")], v, Z
        if isinstance(n, ast.Call) and isinstance(n.func, ast.Attribute) and isinstance(n.func.value, ast.Name) \
                and n.func.value.id == "self" and n.func.attr == "peek" and len(n.args) == 1:
            p, a, ty = self.expr(n.args[0], env)
            self.need(ty, Z, n)
            v = self.fresh()
            return p + [("'(_, " + v + ")", f"sm_peek {STK} {a}")], v, Z
        if isinstance(n, ast.Compare) and len(n.ops) == 1:
            op, l, r = n.ops[0], n.left, n.comparators[0]
            if isinstance(op, (ast.Is, ast.IsNot)) and _is_sentinel(r):
                p, a, ty = self.expr(l, env)
                if ty == Z:      # an int can never be the sentinel object
                    return p, ("false" if isinstance(op, ast.Is) else "true"), B
                self.need(ty, OZ, n)
                t = f"(opt_is_none {a})"
                return p, (t if isinstance(op, ast.Is) else f"(negb {t})"), B
            if isinstance(op, ast.In):
                p1, a, t1 = self.expr(l, env)
                p2, b, t2 = self.expr(r, env)
                self.need(t1, Z, n)
                self.need(t2, LZ, n)
                return p1 + p2, f"(py_in {a} {b})", B
            sym = {ast.Eq: "=?", ast.Lt: "<?", ast.LtE: "<=?"}.get(type(op))
            if sym:
                p1, a, t1 = self.expr(l, env)
                p2, b, t2 = self.expr(r, env)
                self.need(t1, Z, n)
                self.need(t2, Z, n)
                return p1 + p2, f"({a} {sym} {b})", B
        raise Unsupported(f"expression {ast.unparse(n)}")

    def need(self, got, want, n):
        if got != want:
            raise Unsupported(f"type {got} where {want} expected in {ast.unparse(n)}")

    def wrap(self, pre, body):
        for name, term in reversed(pre):
            body = f"{name} <- {term} ;;\n  {body}"
        return body

    def coerce_ret(self, text, ty, rty, n):
        if ty == rty:
            return text
        if rty == OZ and ty == Z:
            return f"(Some {text})"
        raise Unsupported(f"return type {ty} vs {rty} in {ast.unparse(n)}")

    # statements (continuation style).  k(env) -> text of the rest.  `loop` = (state var, state type) when inside a for body
    def block(self, stmts, env, rty, loop, k):
        if not stmts:
            return k(env)
        s, rest = stmts[0], stmts[1:]
        nxt = lambda e: self.block(rest, e, rty, loop, k)  # noqa
        if isinstance(s, ast.Expr) and isinstance(s.value, ast.Constant) and isinstance(s.value.value, str):
            return nxt(env)                                              # docstring
        if isinstance(s, ast.Assert):
            t = s.test
            if isinstance(t, ast.Call) and isinstance(t.func, ast.Name) and t.func.id == "isinstance":
                return nxt(env)                                          # dynamic type check: no counterpart on ids
            p, c, ty = self.expr(t, env)
            self.need(ty, B, s)
            return self.wrap(p, f"if {c} then\n  {nxt(env)}\n  else Err AssertFail")
        if isinstance(s, ast.Expr) and isinstance(s.value, ast.Call) and isinstance(s.value.func, ast.Attribute) \
                and s.value.func.attr == "append" and _is_self_stack(s.value.func.value) and len(s.value.args) == 1:
            p, a, ty = self.expr(s.value.args[0], env)
            self.need(ty, Z, s)
            return self.wrap(p, f"let {STK} := py_append {STK} {a} in\n  {nxt(env)}")
        if isinstance(s, ast.Delete) and len(s.targets) == 1 and isinstance(s.targets[0], ast.Subscript) \
                and _is_self_stack(s.targets[0].value) and isinstance(s.targets[0].slice, ast.Slice) \
                and s.targets[0].slice.upper is None and s.targets[0].slice.step is None and s.targets[0].slice.lower is not None:
            p, a, ty = self.expr(s.targets[0].slice.lower, env)
            self.need(ty, Z, s)
            return self.wrap(p, f"let {STK} := py_del_from {STK} {a} in\n  {nxt(env)}")
        if isinstance(s, ast.Assign) and len(s.targets) == 1:
            tg = s.targets[0]
            if isinstance(tg, ast.Subscript) and _is_self_stack(tg.value):
                p1, i, t1 = self.expr(tg.slice, env)
                p2, v, t2 = self.expr(s.value, env)
                self.need(t1, Z, s)
                self.need(t2, Z, s)
                return self.wrap(p2 + p1, f"{STK} <- py_set {STK} {i} {v} ;;\n  {nxt(env)}")
            if isinstance(tg, ast.Name):
                p, v, ty = self.expr(s.value, env)
                if tg.id in env and env[tg.id] != ty:
                    v = self.coerce_ret(v, ty, env[tg.id], s)
                    ty = env[tg.id]
                env2 = dict(env)
                env2[tg.id] = ty
                return self.wrap(p, f"let {tg.id} := {v} in\n  {nxt(env2)}")
        if isinstance(s, ast.Return):
            if s.value is None:
                raise Unsupported("bare return")
            p, v, ty = self.expr(s.value, env)
            v = self.coerce_ret(v, ty, rty, s)
            if loop is not None:
                return self.wrap(p, f"Ok (inr {v})")
            return self.wrap(p, f"Ok ({STK}, {v})")
        if isinstance(s, ast.If) and not s.orelse:
            p, c, ty = self.expr(s.test, env)
            self.need(ty, B, s)
            assigned = sorted({t.id for x in ast.walk(ast.Module(body=s.body, type_ignores=[])) if isinstance(x, ast.Assign)
                               for t in x.targets if isinstance(t, ast.Name)})
            if loop is None:
                raise Unsupported("if outside a loop body")
            # inside a loop body the only mutable local is the loop state
            if any(a != loop[0] for a in assigned):
                raise Unsupported(f"assignment to {assigned} in loop body")
            cont = lambda e: f"Ok (inl {loop[0]})"  # noqa
            then = self.block(s.body, env, rty, loop, cont)
            return self.wrap(p, f"if {c} then\n  {then}\n  else {nxt(env)}")
        if isinstance(s, ast.For):
            it = s.iter
            ok = (isinstance(it, ast.Call) and isinstance(it.func, ast.Name) and it.func.id == "enumerate" and len(it.args) == 1
                  and isinstance(it.args[0], ast.Call) and isinstance(it.args[0].func, ast.Name) and it.args[0].func.id == "reversed"
                  and len(it.args[0].args) == 1 and _is_self_stack(it.args[0].args[0])
                  and isinstance(s.target, ast.Tuple) and len(s.target.elts) == 2
                  and all(isinstance(e, ast.Name) for e in s.target.elts) and not s.orelse)
            if not ok:
                raise Unsupported(f"loop {ast.unparse(s.iter)}")
            iv, xv = s.target.elts[0].id, s.target.elts[1].id
            assigned = sorted({t.id for x in ast.walk(s) if isinstance(x, ast.Assign) for t in x.targets if isinstance(t, ast.Name)})
            if len(assigned) > 1 or any(a not in env for a in assigned):
                raise Unsupported(f"loop-carried variables {assigned}")
            if assigned:
                st, sty, init = assigned[0], env[assigned[0]], assigned[0]
            else:
                st, sty, init = "st_", U, "tt"
            env_b = dict(env)
            env_b[iv] = Z
            env_b[xv] = Z
            env_b[st] = sty
            body = self.block(s.body, env_b, rty, (st, sty), lambda e: f"Ok (inl {st})")
            r = self.fresh("r")
            after = nxt(env)
            return (f"{r} <- py_for_enum (A := {sty}) (R := {rty}) (rev {STK}) 0 (fun {iv} {xv} {st} =>\n  {body}) {init} ;;\n"
                    f"  match {r} with\n  | inr v_ => Ok ({STK}, v_)\n  | inl {st} =>\n  {after}\n  end")
        raise Unsupported(f"statement {ast.unparse(s)[:80]}")

    def method(self, fdef):
        name = fdef.name
        args, rty = SIGS[name]
        got = [a.arg for a in fdef.args.args[1:]]
        if got != [a for a, _ in args]:
            raise Unsupported(f"signature of {name}: {got}")
        env = {a: t for a, t in args}
        end = (lambda e: f"Ok ({STK}, tt)") if rty == U else (lambda e: "Err Raised")
        body = self.block(fdef.body, env, rty, None, end)
        params = " ".join(f"({a} : {t})" for a, t in args)
        return f"Definition sm_{name} ({STK} : list Z) {params} : res (list Z * {rty}) :=\n  {body}.\n"


def py_for_enum_fix(text):
    # PyList.py_for_enum has implicit {S R}; name them explicitly
    return text.replace("py_for_enum (A := ", "py_for_enum (S := ")


def translate():
    src = (REPO / "vyper" / "venom" / "stack_model.py").read_text()
    tree = ast.parse(src)
    cls = [n for n in tree.body if isinstance(n, ast.ClassDef) and n.name == "StackModel"]
    if len(cls) != 1:
        raise Unsupported("class StackModel not found")
    methods = {m.name: m for m in cls[0].body if isinstance(m, ast.FunctionDef)}
    known = set(ORDER) | {"__init__", "copy", "height", "__repr__"}
    extra = set(methods) - known
    if extra:
        raise Unsupported(f"StackModel has methods outside the model: {sorted(extra)}")
    tr = Tr()
    out = ["(* GENERATED by tools/vlib/c14s_translate.py from vyper/venom/stack_model.py *)",
           "From Coq Require Import ZArith List Bool.", "From Verif Require Import Base.PyInt C14S.PyList.",
           "Import ListNotations.", "Open Scope Z_scope.", ""]
    for name in ["peek"] + [m for m in ORDER if m != "peek"]:
        if name not in methods:
            raise Unsupported(f"StackModel.{name} not found")
        out.append(py_for_enum_fix(tr.method(methods[name])))
    return "\n".join(out)
