"""C14, pass-level part: `part_passes(ctx) -> int` (number of evaluations), called from tools/checks/c14.py.

Stage 1: pass-localising behavioural differential on the real back end + pyrevm, per-pass well-formedness and
         print/parse round trip (c14_pass_run / c14_pass_harness / c14_pass_corpus).
Stage 2: Coq semantics of core Venom (coq/C14/Venom*.v): effect-table tie, per-pass translation validation with `vrun`,
         and the tie of `vrun` to the real back end (c14_pass_sem / c14_pass_export).
"""
import multiprocessing as mp
import os
import time

from vlib import c14_pass_corpus as CORP
from vlib.common import COQ

WORKERS = 4


def _worker(job):
    from vlib.common import pin_env
    pin_env()
    import warnings
    warnings.filterwarnings("ignore")
    from vlib import c14_pass_run as RUN
    try:
        return RUN.run_program(job)
    except (KeyboardInterrupt, SystemExit):
        raise
    except BaseException as e:  # noqa  (e.g. a stray alarm): the worker must survive and the job must produce a result
        return {"name": job["entry"]["name"], "findings": [], "stats": {"worker_exception": f"{type(e).__name__}: {str(e)[:200]}"},
                "snaps": [], "errors": [], "inputs": [], "ref_runtime": None, "live": [], "texts": {}, "lost": True}


def _run_pool(ctx, jobs, n_workers):
    """-> (results, names of lost jobs).  A worker killed from outside (OOM ...) loses its task in multiprocessing.Pool and
    the result never arrives: results are collected by polling, and when nothing has arrived for `stall` seconds the
    missing jobs are given up (statistics, not violations)."""
    from vlib import c14_pass_harness as H
    stall = (240 if ctx.tier == "quick" else 900) * H.load_scale()
    pool = mp.get_context("fork").Pool(n_workers)
    try:
        pend = [(j, pool.apply_async(_worker, (j,))) for j in jobs]
        pool.close()
        results, last = [], time.time()
        while pend:
            still = []
            for j, a in pend:
                if a.ready():
                    try:
                        results.append(a.get(timeout=1))
                    except BaseException as e:  # noqa  (result could not be transferred)
                        if isinstance(e, (KeyboardInterrupt, SystemExit)):
                            raise
                        results.append({"name": j["entry"]["name"], "findings": [], "stats": {"worker_exception": type(e).__name__},
                                        "snaps": [], "errors": [], "inputs": [], "ref_runtime": None, "live": [], "texts": {}, "lost": True})
                    last = time.time()
                else:
                    still.append((j, a))
            pend = still
            if pend and time.time() - last > stall:
                break
            if pend:
                time.sleep(0.2)
        lost = [j["entry"]["name"] for j, _ in pend]
    finally:
        pool.terminate()
        pool.join()
    return results, lost


def _jobs(ctx, entries):
    from vlib import c14_pass_harness as H
    from vlib import c14_pass_run as RUN
    rnd = ctx.rng("c14p-skip")
    names = {lvl: H.pipeline_pass_names(lvl) for lvl in RUN.LEVELS}
    jobs = []
    for k, e in enumerate(entries):
        if ctx.tier == "thorough":
            # every pass class is skipped on every program, at one level per program (rotating); all levels are compared
            lvl = RUN.LEVELS[(k + ctx.seed) % len(RUN.LEVELS)]
            sample = {lvl: list(names[lvl])}
            levels = list(RUN.LEVELS)
        else:
            # every pass class of every level is skipped on some program: rotate through the (level, pass) list
            lvl = RUN.LEVELS[k % len(RUN.LEVELS)]
            ps = names[lvl]
            start = (k * 3 + rnd.randrange(len(ps))) % len(ps)
            sample = {lvl: [ps[(start + j) % len(ps)] for j in range(2)]}
            # priority programs at every level; the others at O3 (superset pipeline) and one of O2/Os
            levels = list(RUN.LEVELS) if e["prio"] == 0 else sorted({"O3", lvl, ["gas", "codesize"][k % 2]}, key=RUN.LEVELS.index)[:2] \
                if lvl == "O3" else ["O3", lvl]
        jobs.append({"entry": e, "tier": ctx.tier, "seed": ctx.seed, "levels": levels, "skip_sample": sample,
                     "want_snaps": True, "roundtrip_budget": 60 if ctx.tier == "quick" else 10 ** 9,
                     "n_inputs": 10 if ctx.tier == "quick" else 14, "want_live": True, "live_cap": 1 if ctx.tier == "quick" else 8})
    return jobs


def stage1(ctx):
    """-> (evaluations, snapshots for stage 2)"""
    import vyper.venom as V
    entries = CORP.select(ctx.tier, ctx.rng("c14p-corpus"))
    jobs = _jobs(ctx, entries)
    t0 = time.time()
    # biggest first for load balance
    jobs.sort(key=lambda j: -len(j["entry"]["src"]))
    results, lost = _run_pool(ctx, jobs, WORKERS if ctx.tier == "quick" else 2 * WORKERS)
    lost += [r["name"] for r in results if r.get("lost")]
    results = [r for r in results if not r.get("lost")]
    results.sort(key=lambda r: r["name"])
    by_name = {e["name"]: e for e in entries}
    flagged = {c.__name__: f for c, f in V.PASS_FLAG_MAP.items()}
    tot = {"programs": len(results), "lost_jobs": len(lost), "compile_timeout": 0, "compile_gave_up": 0, "calls": 0, "compiles": 0, "skip_compiles": 0, "skip_failed": 0, "skip_equal_ref": 0,
           "invocations": 0, "changed": 0, "wf_checks": 0, "roundtrip_ok": 0, "roundtrip_unsupported": 0, "ref_ok_calls": 0}
    snaps = {}
    latent = []
    for r in results:
        e = by_name[r["name"]]
        suspects = set()
        for f in r["findings"]:
            if f["kind"] == "behaviour":
                suspects |= set(f.get("localised_to") or []) or {"RemoveUnusedVariablesPass", "AssignElimination", "SingleUseExpansion", "DFTPass"}
        snaps[r["name"]] = {"entry": e, "snaps": r["snaps"], "inputs": r.get("inputs", []), "ref_runtime": r.get("ref_runtime"),
                            "live": r.get("live", []), "suspects": suspects, "texts": r.get("texts", {})}
        s = r["stats"]
        for k in ("compile_timeout", "compile_gave_up", "calls", "compiles", "skip_compiles", "skip_failed", "skip_equal_ref", "invocations", "changed", "wf_checks", "ref_ok_calls"):
            tot[k] += s.get(k, 0)
        tot["roundtrip_ok"] += s.get("roundtrip", {}).get("ok", 0)
        tot["roundtrip_unsupported"] += s.get("roundtrip", {}).get("unsupported", 0)
        for err in r["errors"]:
            ctx.violation("correspondence-broken", f"pass harness failed on corpus program {r['name']}", {"error": err[-2500:]})
        seen_kinds = set()
        for f in r["findings"]:
            kind = f["kind"]
            base = {"program": r["name"], "source": e["src"], "helper": e.get("helper"), "config": f.get("config"),
                    "reference": "legacy pipeline, -O none, cancun"}
            if kind == "behaviour":
                loc = f["localised_to"]
                key = e.get("key") or f"C14:pass-behaviour:{r['name']}"
                ctx.violation(
                    "failing-input",
                    f"Venom pipeline {f['config']} changes observable behaviour of {r['name']}; "
                    + ("(localisation done for the first failing level only)" if not f.get("localisation_run") else
                       f"localised to pass(es) {', '.join(loc)} (turning any one of them into a no-op restores the reference behaviour)"
                       if loc else "not localised to a single pass (no single pass whose removal restores the reference behaviour)"),
                    dict(base, call=f["call"], calls_before=f["plan_prefix"], difference=f["diff"], expected=f["diff"].get("a"),
                         observed=f["diff"].get("b"), localised_to=loc, skip_does_not_help=f["skip_does_not_help"],
                         skip_does_not_compile=f["skip_does_not_compile"]), key=key)
            elif kind == "compile-failure":
                ctx.violation("failing-input", f"Venom pipeline {f['config']} fails to compile {r['name']} (the reference pipeline compiles it)",
                              dict(base, error=f["error"]), key=f"C14:pass-compile:{r['name']}")
            elif kind == "ill-formed":
                if (kind, f["pass"], f["check"]) in seen_kinds:
                    continue
                seen_kinds.add((kind, f["pass"], f["check"]))
                ctx.violation("failing-input", f"pass {f['pass']} leaves ill-formed IR ({f['check']}) in function {f['fn']} of {r['name']}",
                              dict(base, pass_name=f["pass"], pass_invocation_index=f["idx"], check=f["check"], error=f["error"],
                                   expected="well-formed Venom IR after every pass (check_venom + structural SSA/CFG checks)"),
                              key=f"C14:pass-wf:{f['pass']}:{f['check']}:{r['name']}")
            elif kind == "bool-literal":
                ctx.violation("failing-input", f"{f['pass']} creates IRLiteral(True/False): the printed IR (`{f['line']}`) is rejected by "
                              "vyper.venom.parser, so print -> parse is not a fixpoint",
                              dict(base, pass_name=f["pass"], function=f["fn"], line=f["line"], parser=f["detail"], ir_text=f["text"],
                                   call="vyper.venom.parser.parse_venom(ir_text)", expected="printed IR re-parses to the same IR"),
                              key="C14:sccp-bool-literal-not-reparsable")
            elif kind == "roundtrip":
                if (kind, f["pass"]) in seen_kinds:
                    continue
                seen_kinds.add((kind, f["pass"]))
                ctx.violation("failing-input", f"printed IR after {f['pass']} is not a print/parse fixpoint ({f['status']}) in {r['name']}",
                              dict(base, pass_name=f["pass"], status=f["status"], first_difference=f["detail"], ir_text=f["text"],
                                   call="str(vyper.venom.parser.parse_venom(ir_text)) vs ir_text"),
                              key=f"C14:pass-roundtrip:{f['pass']}:{r['name']}")
            elif kind == "skip-behaviour":
                flag = flagged.get(f["skipped"])
                if flag:
                    ctx.violation("failing-input",
                                  f"Venom pipeline {f['config']} without {f['skipped']} (= --venom {flag}) changes behaviour of {r['name']}",
                                  dict(base, flag=flag, skipped=f["skipped"], call=f["call"], difference=f["diff"],
                                       expected=f["diff"].get("a"), observed=f["diff"].get("b")),
                                  key=f"C14:pass-skip:{f['skipped']}:{r['name']}")
                else:
                    latent.append({"program": r["name"], "config": f["config"], "skipped": f["skipped"], "diff": f["diff"]})
    ctx.corr["pass_stage1"] = tot
    ctx.extra["pass_latent_skip_disagreements"] = latent[:20]
    ctx.extra["pass_corpus"] = [r["name"] for r in results]
    ctx.extra["pass_lost_jobs"] = sorted(lost)      # programs whose worker died or whose compile hit the wall-clock limit twice
    ctx.samples.append({"pass_differential": results[0]["name"] if results else None,
                        "stats": results[0]["stats"] if results else None})
    ctx.log(f"pass stage1: {tot} in {time.time() - t0:.0f}s")
    n = tot["calls"] * max(1, tot["compiles"] + tot["skip_compiles"] - tot["skip_failed"]) // max(1, tot["programs"]) + tot["wf_checks"] \
        + tot["roundtrip_ok"]
    return n, snaps


def stage_hand(ctx, snaps):
    """hand-written IR through the real passes (c14_pass_handir); its snapshots join the stage-2 programs"""
    from vlib import c14_pass_handir as HI
    t0 = time.time()
    progs, findings, stats = HI.run_all(ctx)
    for f in findings:
        name = f["program"].split(":", 1)[1]
        base = {"program": f["program"], "ir_text": f["source"], "pipeline": f["pipeline"],
                "call": "parse_venom(ir_text); run the named passes (pipeline 'full-O2' = python -m vyper.cli.venom_main)"}
        if f["kind"] == "pass-exception":
            ctx.violation("failing-input", f"the Venom passes ({f['pipeline']}) crash on valid hand-written IR {f['program']}: {f['error'][:160]}",
                          dict(base, error=f["error"], trace=f["trace"], expected="the IR is compiled (it is valid SSA Venom)"),
                          key=HI.KEYS.get(name) or f"C14:hand-exception:{name}")
        else:
            ctx.violation("failing-input", f"pass {f['pass']} leaves ill-formed IR ({f['check']}) on hand-written IR {f['program']}",
                          dict(base, pass_name=f["pass"], check=f["check"], error=f["error"],
                               expected="well-formed Venom IR after every pass"), key=f"C14:hand-wf:{f['pass']}:{f['check']}:{name}")
    snaps.update(progs)
    ctx.corr["pass_hand_ir"] = stats
    ctx.log(f"pass hand IR: {stats} in {time.time() - t0:.0f}s")
    return stats["wf_checks"]


def part_passes(ctx):
    os.environ.setdefault("PYTHONWARNINGS", "ignore")
    n1, snaps = stage1(ctx)
    n1 += stage_hand(ctx, snaps)
    from vlib import c14_pass_sem as SEM
    from vlib import c14_pass_val as VAL
    t0 = time.time()
    built = SEM.build_proofs(ctx)
    n3, rejected = 0, []
    vstats = {}
    if built[1] and all((COQ / f[:-2]).with_suffix(".vo").exists() for f in SEM.VAL_STATIC):
        # proved validators on the real pass invocations and on the real liveness tables
        n3, rejected = VAL.validators_part(ctx, snaps, vstats)
        n3 += VAL.liveness_part(ctx, [o for pr in snaps.values() for o in pr.get("live", [])], vstats)
    ctx.corr["pass_validators"] = vstats
    ctx.log(f"pass validators: {vstats} in {time.time() - t0:.0f}s")
    # rejected pairs always go to the vrun differential; pairs outside a validator's domain only in the thorough tier (in the
    # quick tier they are sampled like every other pass invocation)
    n2 = SEM.stage2(ctx, snaps, built=built, forced=[r for r in rejected if r["verdict"] == "rejected" or ctx.tier == "thorough"])
    # a pair a proved validator rejected (inside its domain) for which the differential found no failing input
    for r in rejected:
        if r["verdict"] == "rejected" and (r["prog"], r["idx"], r["pass"]) not in SEM.TV_MISMATCHES:
            ctx.violation("correspondence-broken",
                          f"proved validator for {r['pass']} ({VAL.THEOREM[r['validator']]}) rejects the pass output in function {r['fn']} of "
                          f"{r['prog']}; the vrun differential found no failing input",
                          {"program": r["prog"], "config": f"venom-{r['level']}-cancun", "pass": r["pass"], "function": r["fn"],
                           "pass_invocation_index": r["idx"], "ir_before": r["before"][:6000], "ir_after": r["after"][:6000]},
                          key=f"C14:validator-reject:{r['pass']}:{r['prog']}")
    n2 += n3
    ctx.trusted += ["pyrevm (EVM used to observe compiled programs)",
                    "legacy pipeline at -O none as behavioural reference for the Venom pipelines (differential, not proof)"]
    return n1 + n2


def prebuild(ctx):
    """for setup_cmd: compile the static Venom files and the generated effect table once (content-keyed reuse later)"""
    from vlib import c14_pass_sem as SEM
    SEM.build_proofs(ctx)
