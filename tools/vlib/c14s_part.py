"""C14S (helper part of C14): stack scheduling kernels of the venom back end.
part_stack(ctx) -> number of evaluations.  See notes/C14-stack.md."""
import random

from vlib import c14s_frames as FR
from vlib import coqrun
from vlib.common import COQ

STATIC = ["C14S/PyList.v", "C14S/StackSpec.v", "C14S/StackSpecProofs.v", "C14S/Spill.v", "C14S/SpillProofs.v", "C14S/SpillInv.v",
          "C14S/ReorderProofs.v", "C14S/ReorderFull.v", "C14S/PopProofs.v", "C14S/CleanProofs.v", "C14S/EmitProofs.v",
          "C14S/JoinProofs.v", "C14S/CallProofs.v", "C14S/FrameProofs.v", "C14S/FmpProofs.v", "C14S/Script.v"]
PER_RUN = ["C14S/GenStackModel.v", "C14S/TieStackModel.v", "C14S/PropsStack.v"]
IMPORTS = "From Verif Require Import Base.PyInt C14S.PyList C14S.StackSpec C14S.Spill C14S.Script.\n"
NEXT0 = 4096


# ------------------------------------------------------------------ operand ids
class Ids:
    """operand <-> id; id mod 4 = 1 for IRVariable, 0 literal, 2 label"""

    def __init__(self):
        from vyper.venom.basicblock import IRLabel, IRLiteral, IRVariable
        self.V, self.L, self.B = IRVariable, IRLiteral, IRLabel
        self.by_id = {}

    def var(self, k):
        o = self.V(f"%v{k}")
        self.by_id[4 * k + 1] = o
        return 4 * k + 1

    def lit(self, k):
        o = self.L(4 * k)      # literal value = its id (so the pushed word is the id)
        self.by_id[4 * k] = o
        return 4 * k

    def lab(self, k):
        o = self.B(f"lab{k}")
        self.by_id[4 * k + 2] = o
        return 4 * k + 2

    def op(self, i):
        if i == 3:
            from vyper.venom.venom_to_assembly import _DeadStackItem
            return _DeadStackItem()
        return self.by_id[i]

    def id_of(self, o):
        if type(o).__name__ == "_DeadStackItem":
            return 3
        for i, x in self.by_id.items():
            if type(x) is type(o) and x.value == o.value:
                return i
        raise KeyError(o)


def norm_asm(asm):
    """real assembly list -> model encoding (flat ints, Spill.enc_instr)"""
    out = []
    i = 0
    while i < len(asm):
        t = asm[i]
        if isinstance(t, str) and t.startswith("PUSH") and t[4:].isdigit():
            n = int(t[4:])
            v = 0
            for b in asm[i + 1:i + 1 + n]:
                v = v * 256 + int(b)
            out += [1, v]
            i += 1 + n
        elif t == "MSTORE":
            out += [2]
            i += 1
        elif t == "MLOAD":
            out += [3]
            i += 1
        elif isinstance(t, str) and t.startswith("SWAP"):
            out += [4, int(t[4:])]
            i += 1
        elif isinstance(t, str) and t.startswith("DUP"):
            out += [5, int(t[3:])]
            i += 1
        elif t == "POP":
            out += [6]
            i += 1
        elif type(t).__name__ == "PUSHLABEL":
            out += [7, LABEL_IDS.get(t.label.label, 0)]
            i += 1
        elif type(t).__name__ == "Label":
            out += [8]
            i += 1
        elif t == "JUMP":
            out += [9]
            i += 1
        elif isinstance(t, str) and t.lower() in PLAIN_OPS:
            out += [10, PLAIN_OPS.index(t.lower())]
            i += 1
        else:
            raise ValueError(f"unexpected assembly item {t!r}")
    return out


LABEL_IDS = {f"lab{k}": 4 * k + 2 for k in range(64)}
# non-commutative one-to-one opcodes used for the instruction-codegen differential: (name, #operands, #outputs)
PLAIN = [("sub", 2, 1), ("sstore", 2, 0), ("addmod", 3, 1), ("iszero", 1, 1), ("call", 7, 1), ("calldatasize", 0, 1), ("sload", 1, 1)]
PLAIN_OPS = [p[0] for p in PLAIN]


ERR = {AssertionError: 1, IndexError: 2, KeyError: 3, TypeError: 4}
try:
    from vyper.exceptions import CompilerPanic as _CP
    ERR[_CP] = 6
except Exception:  # noqa
    _CP = AssertionError


class StubDFG:
    def __init__(self, ids, classes):
        self.ids, self.rep = ids, classes

    def are_equivalent(self, a, b):
        if a == b:
            return True
        V = self.ids.V
        if isinstance(a, V) and isinstance(b, V):
            ia, ib = self.ids.id_of(a), self.ids.id_of(b)
            return self.rep.get(ia, ia) == self.rep.get(ib, ib)
        return False


def make_inst(ids, kind, code, ops, outs, next_term):
    """a real IRInstruction (invoke / ret / plain) inside a scratch basic block, followed by a terminator or a nop"""
    from vyper.venom.basicblock import IRInstruction, IRLabel
    from vyper.venom.context import IRContext
    ctx = IRContext()
    fn = ctx.create_function("scratch")
    bb = fn.entry
    o = [ids.op(i) for i in ops]
    outv = [ids.op(i) for i in outs]
    if kind == 0:
        inst = IRInstruction("invoke", [IRLabel("callee")] + o, outv)
    elif kind == 1:
        inst = IRInstruction("ret", o)
    else:
        inst = IRInstruction(PLAIN[code][0], o, outv)
    bb.insert_instruction(inst)
    if kind != 1:
        if not next_term:
            bb.insert_instruction(IRInstruction("nop", []))
        bb.insert_instruction(IRInstruction("stop", []))
    return inst


class Real:
    """the real StackModel / StackSpiller / VenomCompiler._stack_reorder driven command by command"""

    def __init__(self, ids, classes, m0):
        from vyper.venom.context import IRContext
        from vyper.venom.stack_model import StackModel
        from vyper.venom.venom_to_assembly import VenomCompiler

        self.ids = ids
        self.vc = VenomCompiler(IRContext())
        self.sp = self.vc.spiller
        self.sp._next_spill_offset = NEXT0
        self.vc.dfg = StubDFG(ids, classes)
        self.stack = StackModel()
        for i in m0:
            self.stack.push(ids.op(i))
        self.asm, self.spilled, self.costs = [], {}, []
        self.failed = None
        self.n = 0
        self.classes = classes
        self.oracle_bad = []     # requested stack effect not achieved / valid command raised

    def _rep(self, x):
        return self.classes.get(x, x)

    def apply(self, c):
        """apply + the property's own oracle: swap(d) exchanges top and depth d, dup(d) copies depth d to the top,
        reorder(ops) leaves ops as the top |ops| items (up to DFG equivalence) and keeps the multiset of everything
        else; a command with valid arguments does not raise."""
        before = self.stack_ids()
        sp_before = [self.ids.id_of(o) for o in self.spilled]
        h = len(before)
        ok = self._apply(c)
        k = c[0]
        valid = None
        want = None
        if k == "swap":
            valid = -h < c[1] <= 0 and h >= 1
            if valid:
                want = list(before)
                want[-1], want[c[1] - 1] = want[c[1] - 1], want[-1]
        elif k == "dup":
            valid = -h < c[1] <= 0
            if valid:
                want = before + [before[c[1] - 1]]
        elif k == "reorder" and not c[1]:
            ops = c[2]
            valid = len(set(ops)) == len(ops) and all(o in before or o in sp_before for o in ops) and len(ops) > 0
        elif k == "popmany":
            present = [x for x in dict.fromkeys(c[1]) if x in before]
            valid = len(present) == len(c[1]) and len(c[1]) > 0
            if valid:
                rest = list(before)
                for x in present:
                    rest.remove(x)
                want_multiset = sorted(rest)
        elif k == "clean":
            valid = bool(getattr(self, "valid_clean", False))
        elif k == "emit" and not c[1]:
            ops = c[2]
            vars_ = [o for o in ops if o % 4 == 1]
            valid = len(set(vars_)) == len(vars_) and all(o in before or o in sp_before for o in vars_)
        if valid and not ok:
            self.oracle_bad.append({"command": [str(x) for x in c], "stack_before": before, "problem": f"valid command raised (error class {self.failed[2]})"})
        elif valid and ok:
            after = self.stack_ids()
            if want is not None and after != want:
                self.oracle_bad.append({"command": [str(x) for x in c], "stack_before": before, "stack_after": after, "expected": want})
            if k == "popmany" and sorted(after) != want_multiset:
                self.oracle_bad.append({"command": [str(x) for x in c], "stack_before": before, "stack_after": after,
                                        "problem": "popmany did not remove exactly the requested operands"})
            if k == "clean":
                layout, inputs = c[1], c[2]
                live_seen, bad_prefix = False, False
                for x in after:
                    if x == 3:
                        bad_prefix = bad_prefix or live_seen
                    else:
                        live_seen = True
                junk = [x for x in after if x != 3 and x not in inputs]
                lost = [x for x in inputs if x in before and x not in after]
                if bad_prefix or junk or lost:
                    self.oracle_bad.append({"command": [str(x) for x in c], "stack_before": before, "stack_after": after,
                                            "problem": "block-entry cleanup does not establish the successor's layout: "
                                                       f"dead slot above a live item={bad_prefix}, items that are not live-in={junk}, live-in items lost={lost}"})
            if k == "emit":
                ops, live = c[2], c[3]
                restored = [o for o in ops if o % 4 == 1 and o in sp_before]
                delta = sum(1 for o in ops if o % 4 != 1) + len(restored) + sum(1 for o in ops if o % 4 == 1 and o in live)
                if len(after) != len(before) + delta:
                    self.oracle_bad.append({"command": [str(x) for x in c], "stack_before": before, "stack_after": after,
                                            "problem": f"_emit_input_operands changed the height by {len(after) - len(before)}, expected {delta} "
                                                       "(one slot per literal/label/restored operand and per operand that stays live)"})
            if k == "reorder":
                ops = c[2]
                top = after[-len(ops):]
                sp_after = [self.ids.id_of(o) for o in self.spilled]
                avail = {self._rep(x) for x in after + sp_after}
                # (an operand may be spilled while another copy of it is already spilled, so only availability --
                #  not multiplicity -- of the untouched operands is required)
                if [self._rep(x) for x in top] != [self._rep(x) for x in ops] or \
                        any(self._rep(x) not in avail for x in before + sp_before):
                    self.oracle_bad.append({"command": [str(x) for x in c], "stack_before": before, "stack_after": after,
                                            "problem": "top items are not the target list / other items not preserved"})
        return ok

    def _apply(self, c):
        from vyper.utils import OrderedSet
        ids, sp, vc, stack, asm, spilled = self.ids, self.sp, self.vc, self.stack, self.asm, self.spilled
        try:
            k = c[0]
            if k == "swap":
                self.costs.append(sp.swap(asm, stack, c[1]))
            elif k == "dup":
                self.costs.append(sp.dup(asm, stack, c[1]))
            elif k == "spill":
                sp.spill_operand(asm, stack, spilled, c[1])
            elif k == "restore":
                sp.restore_spilled_operand(asm, stack, spilled, ids.op(c[1]))
            elif k == "release":
                sp.release_dead_spills(spilled, OrderedSet(ids.op(i) for i in c[1]))
            elif k == "startfn":
                # what generate_evm_assembly does before every function (the spilled dict of a function starts empty)
                self.n_fn = getattr(self, "n_fn", 0) + 1
                fns = [sp.ctx.create_function(f"sf{self.n_fn}_{i}") for i in range(len(c[1]))]
                sp.ctx.mem_allocator.fn_eom = dict(zip(fns, c[1]))
                sp.set_current_function(fns[c[2]])
                sp.reset_spill_slots()
                spilled.clear()
            elif k == "reorder":
                scratch = [] if c[1] else asm
                self.costs.append(vc._stack_reorder(scratch, stack, [ids.op(i) for i in c[2]], spilled, dry_run=c[1]))
            elif k == "pop":
                if not (0 <= c[1] <= stack.height):
                    raise IndexError("pop")
                vc.pop(asm, stack, c[1])
            elif k == "push":
                from vyper.evm.assembler.instructions import PUSH
                asm.extend(PUSH(c[1]))
                stack.push(ids.op(c[1]))
            elif k == "emit":
                import types
                inst = types.SimpleNamespace(opcode="invoke" if c[1] else "add")
                vc._emit_input_operands(asm, inst, [ids.op(i) for i in c[2]], stack, OrderedSet(ids.op(i) for i in c[3]), spilled)
            elif k == "popmany":
                vc.popmany(asm, [ids.op(i) for i in c[1]], stack)
            elif k == "clean":
                _, layout, inputs, bound, promise = c
                import types
                class _BB:       # hashable stand-ins for basic blocks
                    def __init__(self, label):
                        self.label = label
                in_bb, bb, other = _BB("in"), _BB("bb"), _BB("other")
                vc.cfg = types.SimpleNamespace(cfg_in=lambda b: OrderedSet([in_bb]), cfg_out=lambda b: OrderedSet([bb, other]))
                vc.liveness = types.SimpleNamespace(input_vars_from=lambda a_, b_: OrderedSet(ids.op(i) for i in inputs),
                                                    out_vars=lambda b_: OrderedSet(ids.op(i) for i in layout))
                vc._stack_cleanup_safety = types.SimpleNamespace(stack_height_bound=lambda b_, h_: promise)
                nb = vc.clean_stack_from_cfg_in(asm, bb, stack, bound)
                self.costs.append(-1 if nb is None else nb)
            elif k == "inst":
                _, kind, code, ops, outs, live, next_term, skip_pops = c
                from vlib import c14s_tv as TV
                inst = make_inst(ids, kind, code, ops, outs, next_term)
                rec = {"inst": inst, "before": list(stack._stack), "sp_before": dict(spilled),
                       "slots": set(sp._spill_free_slots) | set(spilled.values())}
                nxt0 = sp._next_spill_offset
                out_asm = vc._generate_evm_for_instruction(inst, stack, OrderedSet(ids.op(i) for i in live), spilled, skip_pops)
                asm.extend(out_asm)
                rec["slots"] |= set(sp._spill_free_slots) | set(spilled.values()) | set(range(nxt0, sp._next_spill_offset, 32))
                rec.update(asm=list(out_asm), after=list(stack._stack), sp_after=dict(spilled))
                v = TV.validate(vc, rec)
                if v not in (None, "skip"):
                    self.oracle_bad.append({"command": [str(x) for x in c], "stack_before": [ids.id_of(o) for o in rec["before"]],
                                            "assembly": [str(x) for x in out_asm], "problem": "instruction codegen: " + v})
            elif k == "pushvar":
                from vyper.evm.assembler.instructions import PUSH
                asm.extend(PUSH(c[1]))
                stack.push(ids.op(c[1]))
            elif k == "swap_op":
                self.costs.append(vc.swap_op(asm, stack, ids.op(c[1])))
            elif k == "dup_op":
                vc.dup_op(asm, stack, ids.op(c[1]))
            self.n += 1
            return True
        except (AssertionError, IndexError, KeyError, TypeError, _CP) as e:
            self.failed = [0, self.n, ERR[type(e)]]
            return False

    def stack_ids(self):
        return [self.ids.id_of(o) for o in self.stack._stack]

    def observation(self):
        if self.failed:
            return self.failed
        sect = lambda l: [len(l)] + list(l)  # noqa
        sp = self.sp
        return [1] + sect(norm_asm(self.asm)) + sect(self.stack_ids()) + sect(list(reversed(sp._spill_free_slots))) + \
            [sp._next_spill_offset, sp.peak_spill_end] + \
            sect([x for o, off in self.spilled.items() for x in (self.ids.id_of(o), off)]) + sect(self.costs)


def coq_cmd(c):
    zl = lambda l: "[" + "; ".join(str(x) if x >= 0 else f"({x})" for x in l) + "]"  # noqa
    z = lambda x: str(x) if x >= 0 else f"({x})"  # noqa
    k = c[0]
    return {"swap": lambda: f"CSwap {z(c[1])}", "dup": lambda: f"CDup {z(c[1])}", "spill": lambda: f"CSpill {z(c[1])}",
            "restore": lambda: f"CRestore {c[1]}", "release": lambda: f"CRelease {zl(c[1])}", "startfn": lambda: f"CStartFn {zl(c[1])}",
            "reorder": lambda: f"CReorder {'true' if c[1] else 'false'} {zl(c[2])}", "pop": lambda: f"CPop {z(c[1])}",
            "push": lambda: f"CPush {c[1]}", "pushvar": lambda: f"CPush {c[1]}", "emit": lambda: f"CEmit {'true' if c[1] else 'false'} {zl(c[2])} {zl(c[3])}",
            "popmany": lambda: f"CPopMany {zl(c[1])}",
            "clean": lambda: f"CClean {zl(c[1])} {zl(c[2])} {'(Some ' + str(c[3]) + ')' if c[3] is not None else 'None'} {'(Some ' + str(c[4]) + ')' if c[4] is not None else 'None'}",
            "inst": lambda: f"CInst {c[1]} {c[2]} {zl(c[3])} {zl(c[4])} {zl(c[5])} {'true' if c[6] else 'false'} {'true' if c[7] else 'false'}",
            "swap_op": lambda: f"CSwapOp {c[1]}", "dup_op": lambda: f"CDupOp {c[1]}"}[k]()


def gen_scenario(rnd, ids, big):
    """state-aware generation: commands are chosen looking at the REAL stack so that most of them are valid
    (some deliberately are not: both sides must then fail at the same command with the same error class)."""
    nvars = rnd.randrange(4, 36 if big else 12)
    pool = [ids.var(k) for k in range(nvars)] + [ids.lit(k) for k in range(3)] + [ids.lab(k) for k in range(2)]
    h = rnd.randrange(2, 41 if big else 20)
    m0 = [rnd.choice(pool) for _ in range(h)] if rnd.random() < 0.35 else rnd.sample(pool, min(h, len(pool)))
    classes = {}
    if rnd.random() < 0.5:
        vs = [p for p in pool if p % 4 == 1]
        for _ in range(rnd.randrange(1, 4)):
            a, b = rnd.sample(vs, 2)
            classes[a] = classes.get(b, b)
    real = Real(ids, classes, m0)
    cmds = []
    for _ in range(rnd.randrange(1, 10)):
        cur = real.stack_ids()
        height = len(cur)
        sp_keys = [ids.id_of(o) for o in real.spilled]
        r = rnd.random()
        wild = rnd.random() < 0.06
        if rnd.random() < 0.05:
            # next function of the context: set_current_function + reset_spill_slots (static frame ends below / above the peak)
            eoms = [rnd.choice([0, 32, 64, 640, NEXT0 - 32, NEXT0, NEXT0 + 64, NEXT0 + 320, 2 * NEXT0]) for _ in range(rnd.randrange(1, 5))]
            c = ("startfn", eoms, rnd.randrange(len(eoms)))
        elif r < 0.18 and (height >= 2 or wild):
            c = ("swap", -rnd.randrange(0, height + (3 if wild else 0)))
        elif r < 0.34 and (height >= 1 or wild):
            c = ("dup", -rnd.randrange(0, height + (3 if wild else 0)) if height or wild else 0)
        elif r < 0.46 and height >= 1:
            cands = [i for i in range(min(height, 17)) if cur[height - 1 - i] % 4 == 1 or wild]
            if not cands:
                continue
            c = ("spill", -rnd.choice(cands))
        elif r < 0.54:
            if sp_keys and not wild:
                c = ("restore", rnd.choice(sp_keys))
            else:
                c = ("restore", rnd.choice(pool))
        elif r < 0.58:
            c = ("release", rnd.sample(pool, rnd.randrange(0, len(pool))))
        elif r < 0.86 and height >= 1:
            present = list(dict.fromkeys(cur + sp_keys))
            if wild:
                present = list(dict.fromkeys(present + pool))
            k = rnd.randrange(1, min(9, len(present)) + 1)
            ops = rnd.sample(present, k)
            if wild and rnd.random() < 0.3:
                ops = ops + ops[:1]
            c = ("reorder", rnd.random() < 0.2, ops)
        elif r < 0.88 and height >= 1:
            c = ("pop", rnd.randrange(0, min(3, height) + 1))
        elif r < 0.91:
            cand = list(dict.fromkeys(cur + sp_keys)) + [p for p in pool if p % 4 != 1]
            ops = rnd.sample(cand, min(len(cand), rnd.randrange(1, 5)))
            if wild and ops:
                ops = ops + ops[:1]
            live = [o for o in ops if o % 4 == 1 and rnd.random() < 0.5]
            c = ("emit", rnd.random() < 0.2, ops, live)
        elif r < 0.93 and height >= 1:
            k = rnd.randrange(1, min(5, height) + 1)
            mode = rnd.random()
            if mode < 0.4:      # contiguous below the top
                xs = [cur[height - 1 - i] for i in range(1, min(height, k + 1))]
            elif mode < 0.7 and height >= 4:   # as many items as the deepest depth, but NOT contiguous (top included)
                dd = rnd.randrange(2, min(height - 1, 8) + 1)
                depths = [0, dd] + rnd.sample(range(1, dd), max(0, dd - 2))
                xs = [cur[height - 1 - i] for i in depths]
            else:
                xs = rnd.sample(cur, min(k, len(cur)))
            c = ("popmany", list(dict.fromkeys(xs)) + ([rnd.choice(pool)] if wild else []))
        elif r < 0.945 and height >= 1:
            kind = rnd.choice([0, 0, 2])    # (`ret` needs an exact frame: see gen_call_scenario)
            cand = list(dict.fromkeys([x for x in cur if x % 4 != 2] + sp_keys)) + [p for p in pool if p % 4 == 0]
            if kind == 0:
                nops, nouts, code = rnd.choice([0, 1, 2, 3, 5, 8, 12, 18]), rnd.randrange(0, 4), 0
            elif kind == 1:
                nops, nouts, code = rnd.randrange(1, 5), 0, 0
            else:
                code = rnd.randrange(len(PLAIN))
                nops, nouts = PLAIN[code][1], PLAIN[code][2]
            ops = rnd.sample(cand, min(len(cand), nops))
            if kind == 2 and len(ops) != nops:
                continue
            fresh = [ids.var(200 + 8 * len(cmds) + j) for j in range(nouts)]
            live_pool = [x for x in cur if x % 4 == 1 and (x not in ops or rnd.random() < 0.3)]
            live = rnd.sample(live_pool, min(len(live_pool), rnd.randrange(0, 4))) + [f for f in fresh if rnd.random() < 0.7]
            rnd.shuffle(live)
            live = list(dict.fromkeys(live))      # next_liveness is an OrderedSet
            c = ("inst", kind, code, ops, fresh, live, rnd.random() < 0.4, rnd.random() < 0.2)
        elif r < 0.955:
            c = ("push", rnd.choice([p for p in pool if p % 4 == 0]))
        elif r < 0.97 and cur:
            c = ("swap_op", rnd.choice(cur if not wild else pool))
        elif cur:
            c = ("dup_op", rnd.choice(cur if not wild else pool))
        else:
            continue
        cmds.append(c)
        if not real.apply(c):
            break
    return m0, classes, cmds, real


def gen_clean_scenario(rnd, ids):
    """block-entry cleanup (clean_stack_from_cfg_in): a stack of distinct variables above an optional retained dead
    prefix; layout = the predecessor's out_vars (the variables on the stack, some spilled/absent ones), inputs = the
    subset this successor needs.  ~12% of the scenarios break the scheduler's invariant on purpose (a dead slot above a
    live item, or a junk variable that is not in the layout -- the shape of the dead-phi bug)."""
    nvars = rnd.randrange(2, 30)
    pool = [ids.var(k) for k in range(nvars + 4)]
    vars_ = rnd.sample(pool[:nvars], rnd.randrange(1, nvars + 1))
    ndead = rnd.choice([0, 0, 1, 2, 4])
    m0 = [3] * ndead + vars_
    broken = rnd.random() < 0.12
    layout = list(vars_)
    if broken:
        if rnd.random() < 0.5 and len(m0) >= 2:
            m0.insert(rnd.randrange(1, len(m0) + 1), 3)          # dead slot above a live item
        else:
            layout.remove(rnd.choice(layout))                   # a junk variable unknown to liveness
    rnd.shuffle(layout)
    layout += [p for p in pool[nvars:] if rnd.random() < 0.3]   # live-out variables that are not on the stack
    keep = rnd.choice([0.0, 0.3, 0.6, 0.9, 1.0])
    inputs = [v for v in layout if rnd.random() < keep]
    bound = rnd.choice([None, None, len(m0) + rnd.randrange(0, 5)])
    promise = rnd.choice([None, len(m0) + rnd.randrange(0, 8)])
    real = Real(ids, {}, m0)
    cmds = [("clean", layout, inputs, bound, promise)]
    real.valid_clean = not broken
    if real.apply(cmds[0]):
        cur = real.stack_ids()
        tgt = [x for x in dict.fromkeys(cur) if x != 3]
        if tgt:
            c = ("reorder", False, rnd.sample(tgt, rnd.randrange(1, min(6, len(tgt)) + 1)))
            cmds.append(c)
            real.apply(c)
    return m0, {}, cmds, real


def gen_call_scenario(rnd, ids):
    """instruction-codegen scenarios for the internal-call convention: a stack of distinct variables (some spilled),
    then `invoke` with 0..20 arguments (variables + literals) and 0..6 outputs, plain instructions, and a final `ret`
    whose operands are everything that is still live (as the liveness analysis guarantees at a ret)."""
    nvars = rnd.randrange(3, 34)
    pool = [ids.var(k) for k in range(nvars)]
    lits = [ids.lit(k) for k in range(4)]
    m0 = rnd.sample(pool, rnd.randrange(1, nvars + 1))
    real = Real(ids, {}, m0)
    cmds = []
    fresh_k = [400]

    def fresh(n):
        out = [ids.var(fresh_k[0] + j) for j in range(n)]
        fresh_k[0] += n
        return out

    def do(c):
        cmds.append(c)
        return real.apply(c)

    for _ in range(rnd.randrange(0, 3)):
        cur = real.stack_ids()
        if len(cur) > 2 and not do(("spill", -rnd.randrange(0, min(len(cur), 17)))):
            return m0, {}, cmds, real
    for _ in range(rnd.randrange(1, 4)):
        cur = real.stack_ids()
        sp_keys = [ids.id_of(o) for o in real.spilled]
        avail = list(dict.fromkeys(cur + sp_keys))
        nargs = rnd.choice([0, 1, 2, 3, 4, 6, 7, 9, 12, 16, 17, 20])
        args = rnd.sample(avail, min(len(avail), nargs))
        for _j in range(rnd.randrange(0, 3)):
            if len(args) < nargs:
                args.insert(rnd.randrange(len(args) + 1), rnd.choice(lits + [ids.lit(10 + len(cmds) * 4 + _j)]))
        args = list(dict.fromkeys(args))
        outs = fresh(rnd.randrange(0, 7))
        # variables that stay live: some non-arguments, some arguments (these must be dup'ed), some outputs
        stay = [x for x in avail if x not in args and rnd.random() < 0.7] + [x for x in args if x % 4 == 1 and rnd.random() < 0.25]
        live = stay + [o for o in outs if rnd.random() < 0.75]
        rnd.shuffle(live)
        kind = 0 if rnd.random() < 0.8 else 2
        if kind == 2:
            code = rnd.randrange(len(PLAIN))
            if len(avail) < PLAIN[code][1]:
                continue
            args = rnd.sample(avail, PLAIN[code][1])
            outs = fresh(PLAIN[code][2])
            live = [x for x in avail if x not in args and rnd.random() < 0.7] + outs
        else:
            code = 0
        if not do(("inst", kind, code, args, outs, live, rnd.random() < 0.3, False)):
            return m0, {}, cmds, real
        # what is not live is dead: the scheduler is entitled to leave it anywhere; pop it like the real pipeline would
        cur = real.stack_ids()
        dead = [x for x in dict.fromkeys(cur) if x not in live]
        if dead and not do(("popmany", dead)):
            return m0, {}, cmds, real
    cur = real.stack_ids()
    sp_keys = [ids.id_of(o) for o in real.spilled]
    vals = list(dict.fromkeys(cur + sp_keys))
    rnd.shuffle(vals)
    vals = vals[:rnd.randrange(0, 7)]
    pc = fresh(1)
    do(("pushvar", pc[0]))                        # the return-pc slot (retpc_param)
    rest = [x for x in real.stack_ids() if x not in vals and x != pc[0]]
    if rest:
        do(("popmany", list(dict.fromkeys(rest))))
    do(("inst", 1, 0, vals + pc, [], [], True, False))
    return m0, {}, cmds, real


def spill_differential(ctx, n_scen):
    """exact-output differential: real classes vs Spill.v (assembly, stack map, free slots, next/peak, spilled dict,
    costs, failing command + error class), plus in Coq: executing the emitted assembly from the initial stack yields
    the final stack map, and every SWAP/DUP index is within 1..16."""
    rnd = ctx.rng("spill")
    scen = []
    for k in range(n_scen):
        ids = Ids()
        if k % 4 == 3:
            m0, classes, cmds, real = gen_call_scenario(rnd, ids)
        elif k % 4 == 1:
            m0, classes, cmds, real = gen_clean_scenario(rnd, ids)
        else:
            m0, classes, cmds, real = gen_scenario(rnd, ids, big=(k % 2 == 0))
        scen.append((ids, m0, classes, cmds, real))
    zl = lambda l: "[" + "; ".join(str(x) for x in l) + "]"  # noqa
    exprs = []
    for ids, m0, classes, cmds, real in scen:
        cl = "[" + "; ".join(f"({a}, {b})" for a, b in classes.items()) + "]"
        exprs.append(f"observe {cl} [{'; '.join(coq_cmd(c) for c in cmds)}] {zl(m0)} {NEXT0}")
    outs = coqrun.eval_zlists(IMPORTS, exprs, "c14s_spill", shard=60)
    stats = {"ok": 0, "err": 0, "deep": 0, "cmds": 0}
    bad = []
    for (ids, m0, classes, cmds, real), o in zip(scen, outs):
        want = real.observation()
        stats["cmds"] += len(cmds)
        if want[0] == 1:
            stats["ok"] += 1
            if any(x > 16 for x in [len(m0)]) or 1 in [1 for c in cmds if c[0] in ("swap", "dup") and -c[1] > 16]:
                stats["deep"] += 1
            model, extra = o[:len(want)], o[len(want):]
            machine_ok = not any((c[0] == "emit" and c[1]) or c[0] == "inst" for c in cmds)   # invoke: the label is pushed by the instruction itself
            if model != want or (extra != [1, 1] if machine_ok else extra[1:] != [1]):
                bad.append({"initial_stack": m0, "classes": classes, "commands": [list(map(str, c)) for c in cmds],
                            "real": want, "model": o,
                            "note": "trailing [1,1] = (emitted assembly executed on the model EVM gives the final stack, all SWAP/DUP in 1..16)"})
        else:
            stats["err"] += 1
            if o != want:
                bad.append({"initial_stack": m0, "classes": classes, "commands": [list(map(str, c)) for c in cmds],
                            "real": want, "model": o})
    return scen, stats, bad


def asm_to_bytecode(m0, asm, final_height):
    """initial pushes (bottom first) ++ emitted assembly ++ dump of the whole stack to memory ++ RETURN"""
    code = bytearray()
    for v in m0:
        code += bytes([0x61]) + v.to_bytes(2, "big")
    i = 0
    while i < len(asm):
        t = asm[i]
        if type(t).__name__ == "PUSHLABEL":
            code += bytes([0x61]) + LABEL_IDS[t.label.label].to_bytes(2, "big")
            i += 1
            continue
        if t.startswith("PUSH") and t[4:].isdigit():
            n = int(t[4:])
            code += bytes([0x5F + n]) + bytes(int(b) for b in asm[i + 1:i + 1 + n])
            i += 1 + n
            continue
        code += bytes([{"MSTORE": 0x52, "MLOAD": 0x51, "POP": 0x50}.get(t) or
                       (0x8F + int(t[4:]) if t.startswith("SWAP") else 0x7F + int(t[3:]))])
        i += 1
    for k in range(final_height):
        code += bytes([0x61]) + (0x4000 + 32 * k).to_bytes(2, "big") + bytes([0x52])
    code += bytes([0x61]) + (32 * final_height).to_bytes(2, "big") + bytes([0x61, 0x40, 0x00, 0xF3])
    return bytes(code)


def evm_execution(ctx, scen):
    """run the REAL emitted assembly on pyrevm from the initial stack; the machine stack must be the final stack map
    (top first), up to the DFG equivalence classes used by virtual swaps"""
    from vlib.evm import Chain
    ch = Chain("cancun")
    n = 0
    bad = []
    for ids, m0, classes, cmds, real in scen:
        if real.failed or any((c[0] == "emit" and c[1]) or c[0] == "inst" for c in cmds):
            continue
        final = real.stack_ids()
        try:
            code = asm_to_bytecode(m0, real.asm, len(final))
        except (ValueError, KeyError) as e:     # e.g. SWAP17: not an opcode
            bad.append({"initial_stack": m0, "commands": [list(map(str, c)) for c in cmds], "error": f"not encodable: {e}"})
            continue
        addr = ch.set_code(None, code)
        r = ch.call(addr, b"")
        n += 1
        rep = lambda x: classes.get(x, x)  # noqa
        got = [int.from_bytes(r.out[32 * k:32 * k + 32], "big") for k in range(len(final))] if r.ok else None
        want = list(reversed(final))
        if got is None or any(w != 3 and rep(g) != rep(w) for g, w in zip(got, want)):
            bad.append({"initial_stack": m0, "commands": [list(map(str, c)) for c in cmds], "assembly": [str(x) for x in real.asm],
                        "evm_stack_top_first": got, "stack_model_top_first": want})
    return n, bad


def stackmodel_differential(ctx, n):
    """translation validation + PyList.v validation: every StackModel method, real (CPython) vs the functions
    translated from its source (GenStackModel.v), incl. out-of-range depths (same error class)."""
    from vyper.venom.stack_model import StackModel
    rnd = ctx.rng("stackmodel")
    ids = Ids()
    pool = [ids.var(k) for k in range(12)] + [ids.lit(k) for k in range(3)]
    zl = lambda l: "[" + "; ".join(str(x) for x in l) + "]"  # noqa
    z = lambda x: str(x) if x >= 0 else f"({x})"  # noqa
    cases, exprs = [], []
    E = "(fun r => match r with Ok (m', _) => 1 :: m' | Err e => [0; err_code e] end)"
    EO = "(fun r => match r with Ok (m', Some d) => 1 :: d :: m' | Ok (m', None) => 2 :: m' | Err e => [0; err_code e] end)"
    EP = "(fun r => match r with Ok (m', v) => 1 :: v :: m' | Err e => [0; err_code e] end)"
    for _ in range(n):
        h = rnd.randrange(0, 41) if rnd.random() < 0.8 else rnd.randrange(0, 4)
        m = [rnd.choice(pool) for _ in range(h)]
        meth = rnd.choice(["push", "pop", "get_depth", "get_phi_depth", "peek", "poke", "dup", "swap"])
        d = rnd.randrange(-h - 3, 4) if rnd.random() < 0.5 else -rnd.randrange(0, max(h, 1))
        x = rnd.choice(pool)
        phis = rnd.sample([p for p in pool if p % 4 == 1], rnd.randrange(0, 4))
        num = rnd.randrange(0, h + 3)
        s = StackModel()
        for i in m:
            s.push(ids.op(i))
        try:
            if meth == "push":
                s.push(ids.op(x)); want = [1] + [ids.id_of(o) for o in s._stack]; e = f"{E} (sm_push {zl(m)} {x})"
            elif meth == "pop":
                e = f"{E} (sm_pop {zl(m)} {num})"; s.pop(num); want = [1] + [ids.id_of(o) for o in s._stack]
            elif meth == "get_depth":
                e = f"{EO} (sm_get_depth {zl(m)} {x})"; r = s.get_depth(ids.op(x))
                want = ([2] if r is StackModel.NOT_IN_STACK else [1, r]) + m
            elif meth == "get_phi_depth":
                e = f"{EO} (sm_get_phi_depth {zl(m)} {zl(phis)})"; r = s.get_phi_depth([ids.op(p) for p in phis])
                want = ([2] if r is StackModel.NOT_IN_STACK else [1, r]) + m
            elif meth == "peek":
                e = f"{EP} (sm_peek {zl(m)} {z(d)})"; r = s.peek(d); want = [1, ids.id_of(r)] + m
            elif meth == "poke":
                e = f"{E} (sm_poke {zl(m)} {z(d)} {x})"; s.poke(d, ids.op(x)); want = [1] + [ids.id_of(o) for o in s._stack]
            elif meth == "dup":
                e = f"{E} (sm_dup {zl(m)} {z(d)})"; s.dup(d); want = [1] + [ids.id_of(o) for o in s._stack]
            else:
                e = f"{E} (sm_swap {zl(m)} {z(d)})"; s.swap(d); want = [1] + [ids.id_of(o) for o in s._stack]
        except (AssertionError, IndexError) as ex:
            want = [0, ERR[type(ex)]]
        cases.append((meth, m, d, x, phis, num, want))
        exprs.append(e)
    outs = coqrun.eval_zlists("From Verif Require Import Base.PyInt C14S.PyList C14S.Spill C14S.GenStackModel.\n", exprs, "c14s_sm", shard=400)
    bad = [{"method": c[0], "stack": c[1], "depth": c[2], "operand": c[3], "phis": c[4], "num": c[5], "python": c[6], "model": o}
           for c, o in zip(cases, outs) if c[6] != o]
    return len(cases), bad


# ------------------------------------------------------------------ corpus checks
def _frame_fails(fr, cfg, src, stats, fails):
    """cross-function disjointness of spill regions on this compile (c14s_frames.FrameRecorder)"""
    stats["spill_slots_checked"] = stats.get("spill_slots_checked", 0) + fr.n_slots
    if fr.bad:
        b = fr.bad[0]
        fails.insert(0, ("failing-input", f"a function's spill slot aliases memory of a function active on the call chain under {cfg.name}: "
                         f"slot {b.get('spill_slot')} of {str(b.get('function'))[:40]} aliases {b.get('aliases', b.get('problem'))}",
                         {"config": cfg.name, "source": src, "aliasing": fr.bad[:4], "_key": FR.KEY}))


def corpus_checks(ctx, tier):
    """deep-stack contracts under every venom configuration: compiles (no crash), every SWAPn/DUPn token has n <= 16,
    the scheduler's stack maps agree on all incoming edges of every join block, and the contract computes the same
    results as under the legacy pipeline."""
    import re
    from vyper.compiler.phases import CompilerData
    from vyper.compiler.settings import anchor_settings
    from vlib import c14s_corpus as C
    from vlib import c14s_tv as TV
    from vlib import configs
    from vlib.evm import Chain

    rnd = ctx.rng("corpus")
    ncontracts = 2 if tier == "quick" else 12
    cfgs = [c for c in configs.configs(tier) if c.venom]
    if tier != "quick":
        cfgs = cfgs[::6]
    stats = {"compiles": 0, "swap_dup_tokens": 0, "max_index": 0, "join_blocks": 0, "spill_stores": 0, "calls": 0,
             "instructions_validated": 0, "instructions_skipped": 0}
    fails = []
    for k in range(ncontracts):
        src = C.gen_contract(rnd)
        ref = None
        try:
            rcfg = configs.Config(False, "gas", "cancun")
            rout = configs.compile_src(src, rcfg, formats=("bytecode", "method_identifiers"))
            ch = Chain("cancun")
            raddr = ch.deploy(bytes.fromhex(rout["bytecode"][2:]))
            sel = int(rout["method_identifiers"]["g(uint256,uint256)"], 16).to_bytes(4, "big")
            inputs = [(rnd.randrange(2**256), rnd.randrange(2**256)) for _ in range(2)] + [(3, 5), (0, 0)]
            ref = [ch.call(raddr, sel + a.to_bytes(32, "big") + b.to_bytes(32, "big")) for a, b in inputs]
        except Exception as e:  # legacy reference unavailable: only structural checks
            ctx.log(f"legacy reference failed: {type(e).__name__}: {e}")
        for cfg in cfgs:
            try:
                with C.EdgeRecorder() as rec, TV.InstRecorder() as tv, FR.FrameRecorder() as fr:
                    cd = CompilerData(src, settings=cfg.settings())
                    with anchor_settings(cd.settings):
                        asm = cd.assembly_runtime
                        code = cd.bytecode
            except Exception as e:
                import traceback
                fails.append(("failing-input", f"venom back end crashes on a deep-stack contract under {cfg.name}: {type(e).__name__}: {e}"[:300],
                              {"config": cfg.name, "source": src, "error": f"{type(e).__name__}: {e}", "trace": traceback.format_exc()[-1500:]}))
                continue
            stats["compiles"] += 1
            _frame_fails(fr, cfg, src, stats, fails)
            stats["instructions_validated"] += tv.n_ok
            stats["instructions_skipped"] += tv.n_skip
            if tv.fail:
                fails.append(("failing-input", f"emitted stack manipulation does not match the instruction's operands / the stack map under {cfg.name}: "
                              + tv.fail[0]["instruction"][:80], {"config": cfg.name, "source": src, "failures": tv.fail[:3]}))
            toks = [t for t in asm if isinstance(t, str) and re.match(r"^(SWAP|DUP)\d+$", t)]
            stats["swap_dup_tokens"] += len(toks)
            idx = [int(re.sub(r"\D", "", t)) for t in toks]
            stats["max_index"] = max([stats["max_index"]] + idx)
            stats["spill_stores"] += sum(1 for t in asm if t == "MSTORE")
            if any(not (1 <= i <= 16) for i in idx):
                fails.append(("failing-input", f"assembly contains SWAP/DUP with index > 16 under {cfg.name}",
                              {"config": cfg.name, "source": src, "tokens": sorted({t for t, i in zip(toks, idx) if i > 16})}))
            n, bad = C.join_disagreements(rec.records)
            stats["join_blocks"] += n
            if bad:
                fails.append(("failing-input", f"stack layouts of the predecessors of a join block disagree under {cfg.name}: {bad[0]['what']}",
                              {"config": cfg.name, "source": src, "disagreements": bad[:3]}))
            if ref is not None and cfg.evm in ("cancun", "prague", "shanghai", "paris", "london"):
                try:
                    ch2 = Chain(cfg.evm)
                    addr = ch2.deploy(code)
                    for (a, b), r0 in zip(inputs, ref):
                        r = ch2.call(addr, sel + a.to_bytes(32, "big") + b.to_bytes(32, "big"))
                        stats["calls"] += 1
                        if (r.ok, r.out) != (r0.ok, r0.out):
                            fails.append(("failing-input", f"deep-stack contract computes a different result under {cfg.name} than under legacy-gas-cancun",
                                          {"config": cfg.name, "source": src, "call": f"g({a}, {b})", "legacy": [r0.ok, r0.out.hex()],
                                           "venom": [r.ok, r.out.hex()]}))
                            break
                except Exception as e:  # noqa
                    fails.append(("correspondence-broken", f"cannot execute corpus contract under {cfg.name}: {e}", {"config": cfg.name}))
    import time as _t
    stats.setdefault("seconds", {})["deep_stack"] = round(_t.time() - ctx.t0, 1)
    # other program shapes (external calls, ABI decoding, storage): instruction-level validation + join agreement only
    try:
        from vlib import c12_lib
        extra = [("c12 caller", c12_lib.caller_source()[0])]
    except Exception:  # noqa
        extra = []
    for name, src in extra:
        for cfg in [cfgs[ctx.rng('c14s-c12cfg').randrange(len(cfgs))]] if tier == "quick" else cfgs[:6]:
            try:
                with C.EdgeRecorder() as rec, TV.InstRecorder() as tv, FR.FrameRecorder() as fr:
                    cd = CompilerData(src, settings=cfg.settings())
                    with anchor_settings(cd.settings):
                        cd.assembly_runtime
            except Exception as e:
                fails.append(("failing-input", f"venom back end crashes on {name} under {cfg.name}: {type(e).__name__}: {e}"[:300],
                              {"config": cfg.name, "source": src}))
                continue
            stats["compiles"] += 1
            _frame_fails(fr, cfg, src, stats, fails)
            stats["instructions_validated"] += tv.n_ok
            stats["instructions_skipped"] += tv.n_skip
            n, bad = C.join_disagreements(rec.records)
            stats["join_blocks"] += n
            if tv.fail:
                fails.append(("failing-input", f"emitted stack manipulation does not match the instruction's operands / the stack map ({name}, {cfg.name}): "
                              + tv.fail[0]["instruction"][:80], {"config": cfg.name, "source": src, "failures": tv.fail[:3]}))
            if bad:
                fails.append(("failing-input", f"stack layouts of the predecessors of a join block disagree ({name}, {cfg.name}): {bad[0]['what']}",
                              {"config": cfg.name, "source": src, "disagreements": bad[:3]}))
    stats["seconds"]["c12_caller"] = round(_t.time() - ctx.t0, 1)
    # fixed programs with historically problematic shapes: all checks + results equal the legacy pipeline
    for entry in C.FIXED:
        src, calls = entry[:2]
        fkey = entry[2] if len(entry) > 2 else None
        rout = configs.compile_src(src, configs.Config(False, "gas", "cancun"), formats=("bytecode", "method_identifiers"))
        chr_ = Chain("cancun")
        raddr = chr_.deploy(bytes.fromhex(rout["bytecode"][2:]))
        mk = lambda sig, args: int(rout["method_identifiers"][sig], 16).to_bytes(4, "big") + b"".join(a.to_bytes(32, "big") for a in args)  # noqa
        ref = [chr_.call(raddr, mk(sig, args)) for sig, args in calls]
        for cfg in cfgs:
            try:
                with C.EdgeRecorder() as rec, TV.InstRecorder() as tv, FR.FrameRecorder() as fr:
                    cd = CompilerData(src, settings=cfg.settings())
                    with anchor_settings(cd.settings):
                        cd.assembly_runtime
                        code = cd.bytecode
            except Exception as e:
                fails.append(("failing-input", f"venom back end crashes under {cfg.name}: {type(e).__name__}: {e}"[:300], {"config": cfg.name, "source": src}))
                continue
            stats["compiles"] += 1
            _frame_fails(fr, cfg, src, stats, fails)
            stats["instructions_validated"] += tv.n_ok
            n, bad = C.join_disagreements(rec.records)
            stats["join_blocks"] += n
            if tv.fail:
                fails.append(("failing-input", f"emitted stack manipulation does not match the stack map under {cfg.name}: " + tv.fail[0]["instruction"][:80],
                              {"config": cfg.name, "source": src, "failures": tv.fail[:3]}))
            if bad:
                fails.append(("failing-input", f"stack layouts of the predecessors of a join block disagree under {cfg.name}: {bad[0]['what']}",
                              {"config": cfg.name, "source": src, "disagreements": bad[:3]}))
            ch2 = Chain(cfg.evm)
            addr = ch2.deploy(code)
            for (sig, args), r0 in zip(calls, ref):
                r = ch2.call(addr, mk(sig, args))
                stats["calls"] += 1
                if (r.ok, r.out) != (r0.ok, r0.out):
                    fails.append(("failing-input", f"{sig}{args} returns a different result under {cfg.name} than under legacy-gas-cancun",
                                  {"config": cfg.name, "source": src, "call": f"{sig} {args}", "legacy": [r0.ok, r0.out.hex()], "venom": [r.ok, r.out.hex()],
                                   "_key": fkey}))
                    break
    stats["seconds"]["fixed"] = round(_t.time() - ctx.t0, 1)
    call_family_checks(ctx, tier, stats, fails)
    fmp_family_checks(ctx, tier, stats, fails)
    stats["seconds"]["call_family"] = round(_t.time() - ctx.t0, 1)
    pass_corpus_checks(ctx, tier, stats, fails)
    stats["seconds"]["pass_corpus"] = round(_t.time() - ctx.t0, 1)
    return stats, fails


def pass_corpus_checks(ctx, tier, stats, fails):
    """join-block stack agreement (+ instruction validation, spill-region disjointness) over ALL functions of the C14
    pass corpus (tools/vlib/c14_pass_corpus.py, which includes the C02 corpus) at O2 / O3 / Os / none and under every
    usable disable flag; runtime and deploy code.  quick: a seeded sample of (program, configuration) pairs;
    thorough: every program under all 19 configurations."""
    from vyper.compiler.phases import CompilerData
    from vyper.compiler.settings import anchor_settings
    from vlib import c14_pass_corpus as PC
    from vlib import c14s_corpus as C
    from vlib import c14s_tv as TV
    from vlib import configs
    rnd = ctx.rng("c14s-passcorpus")
    cfgs = [configs.Config(True, lvl, "cancun") for lvl in ("O2", "O3", "Os", "none")]
    cfgs += [configs.Config(True, "O2", "cancun", flags=[f]) for f in configs.USABLE_FLAGS]
    cfgs += [configs.Config(True, "O3", "cancun", flags=[f]) for f in configs.USABLE_FLAGS[::2]]
    pairs = [(e, c) for e in PC.CORPUS for c in cfgs]
    if tier == "quick":
        pairs = rnd.sample(pairs, 6)
    st = {"compiles": 0, "join_blocks": 0, "instructions_validated": 0, "programs": len({e["name"] for e, _ in pairs})}
    for e, cfg in pairs:
        src = e["src"]
        try:
            with C.EdgeRecorder() as rec, TV.InstRecorder() as tv, FR.FrameRecorder() as fr:
                cd = CompilerData(src, settings=cfg.settings())
                with anchor_settings(cd.settings):
                    cd.assembly_runtime
                    cd.assembly
        except Exception as ex:
            # (front-end / pass-level failures on this corpus are C14's business; a crash inside the back end is ours)
            import traceback
            tb = traceback.format_exc()
            if "venom_to_assembly" in tb or "stack_spiller" in tb or "stack_model" in tb:
                fails.append(("failing-input", f"venom back end crashes on pass-corpus program {e['name']} under {cfg.name}: {type(ex).__name__}: {ex}"[:300],
                              {"config": cfg.name, "source": src, "trace": tb[-1500:]}))
            continue
        st["compiles"] += 1
        st["instructions_validated"] += tv.n_ok
        _frame_fails(fr, cfg, src, stats, fails)
        n, bad = C.join_disagreements(rec.records)
        st["join_blocks"] += n
        if bad:
            fails.append(("failing-input", f"stack layouts of the predecessors of a join block disagree ({e['name']}, {cfg.name}): {bad[0]['what']}",
                          {"config": cfg.name, "source": src, "disagreements": bad[:3]}))
        if tv.fail:
            fails.append(("failing-input", f"emitted stack manipulation does not match the instruction's operands / the stack map ({e['name']}, {cfg.name}): "
                          + tv.fail[0]["instruction"][:80], {"config": cfg.name, "source": src, "failures": tv.fail[:3]}))
    stats["pass_corpus"] = st



def fmp_family_checks(ctx, tier, stats, fails):
    """deep-stack functions that ALSO allocate dynamically (the three front-end producers of `dalloca`: raw_call(t, msg.data),
    create_copy_of, create_from_blueprint): the assembler constant __initial_fmp__ read from the emitted assembly must lie at or
    above every static allocation and every spill slot handed out (c14s_frames.FrameRecorder._check_initial_fmp)."""
    from vyper.compiler.phases import CompilerData
    from vyper.compiler.settings import anchor_settings
    from vlib import c14s_frames as FR
    from vlib import configs

    rnd = ctx.rng("fmpfamily")
    stats["fmp_family_compiles"] = 0
    stats["fmp_consts_checked"] = 0
    stats["fmp_family_spill_slots"] = 0
    for k in range(2 if tier == "quick" else 8):
        n = rnd.choice([18, 20, 22, 24, 28])
        dyn = ["raw_call(t, msg.data)", "c: address = create_copy_of(t)", "d: address = create_from_blueprint(t, p, code_offset=1)"][k % 3]
        lines = [f"s{i}: public(uint256)" for i in range(n)]
        lines.append("\n@external\ndef f(t: address, p: uint256) -> uint256:")
        lines += [f"    x{i}: uint256 = self.s{i}" for i in range(n)]
        lines.append("    " + dyn)
        lines.append("    r: uint256 = " + " + ".join(f"x{i} * {i + 2}" for i in range(0, n, 2)))
        lines.append("    raw_call(t, msg.data)")
        lines.append("    r += " + " + ".join(f"x{i} * {i + 3}" for i in range(n)))
        lines.append("    return r")
        src = "\n".join(lines) + "\n"
        for cfg in [configs.Config(True, lvl, "cancun") for lvl in ("gas", "codesize", "O3")]:
            try:
                with FR.FrameRecorder() as fr:
                    cd = CompilerData(src, settings=cfg.settings())
                    with anchor_settings(cd.settings):
                        cd.assembly_runtime
            except Exception as e:  # noqa
                fails.append(("failing-input", f"venom back end crashes on a deep-stack contract with a dynamic allocation under {cfg.name}: "
                              f"{type(e).__name__}: {e}"[:300], {"config": cfg.name, "source": src, "error": f"{type(e).__name__}: {e}"}))
                continue
            stats["fmp_family_compiles"] += 1
            stats["fmp_consts_checked"] += getattr(fr, "n_fmp_consts", 0)
            stats["fmp_family_spill_slots"] += fr.n_slots
            _frame_fails(fr, cfg, src, stats, fails)

def call_family_checks(ctx, tier, stats, fails):
    """internal-call convention on real compiles: seeded contracts with internal functions of 0..20 word arguments,
    memory-passed structs/arrays in between, 0..6 returns; inlining disabled (so invoke/param/ret survive) and enabled.
    Checks: invoke/param arity on the final IR, per-instruction validation incl. invoke (arguments on top in order at the
    JUMP), ret (frame is exactly values + return pc) and every function prologue, results equal the legacy pipeline."""
    from vyper.compiler.phases import CompilerData
    from vyper.compiler.settings import anchor_settings
    from vlib import c14s_corpus as C
    from vlib import c14s_tv as TV
    from vlib import configs
    from vlib.evm import Chain

    rnd = ctx.rng("callfamily")
    quick = tier == "quick"
    cfgs = [configs.Config(True, "gas", "cancun", flags=["disable_inlining"]),
            configs.Config(True, "none", "london", flags=["disable_inlining"]),
            configs.Config(True, "O3", "prague", inline_threshold=0), configs.Config(True, "codesize", "shanghai")]
    if not quick:
        cfgs += [c for c in configs.configs(tier) if c.venom][::9]
    stats.setdefault("invokes", 0)
    stats.setdefault("rets_validated", 0)
    for k in range(2 if quick else 10):
        src, sigs = C.gen_call_family(rnd, nfun=5 if quick else 7)
        try:
            ref = configs.compile_src(src, configs.Config(False, "gas", "cancun"), formats=("bytecode", "method_identifiers"))
        except Exception as e:
            ctx.log(f"call family: legacy reference does not compile: {type(e).__name__}: {e}")
            continue
        chr_ = Chain("cancun")
        ra = chr_.deploy(bytes.fromhex(ref["bytecode"][2:]))
        xs = [0, 5, rnd.randrange(2**256)]
        calls = [(s, x) for s in sigs for x in xs]
        mk = lambda s, x: int(ref["method_identifiers"][s], 16).to_bytes(4, "big") + x.to_bytes(32, "big")  # noqa
        want = [chr_.call(ra, mk(s, x)) for s, x in calls]
        for cfg in cfgs:
            try:
                with C.EdgeRecorder() as rec, TV.InstRecorder() as tv, FR.FrameRecorder() as fr:
                    cd = CompilerData(src, settings=cfg.settings())
                    with anchor_settings(cd.settings):
                        cd.assembly_runtime
                        code = cd.bytecode
                        vctx = cd.venom_runtime
            except Exception as e:
                import traceback
                fails.append(("failing-input", f"venom back end crashes on an internal-call contract under {cfg.name}: {type(e).__name__}: {e}"[:300],
                              {"config": cfg.name, "source": src, "trace": traceback.format_exc()[-1500:]}))
                continue
            stats["compiles"] += 1
            _frame_fails(fr, cfg, src, stats, fails)
            stats["instructions_validated"] += tv.n_ok
            stats["instructions_skipped"] += tv.n_skip
            stats["rets_validated"] += tv.by_op.get("ret", 0)
            n, bad = C.arity_disagreements(vctx)
            stats["invokes"] += n
            if bad:
                fails.append(("failing-input", f"invoke / param / ret arity disagrees under {cfg.name}: {bad[0]['problem']}",
                              {"config": cfg.name, "source": src, "disagreements": bad[:3]}))
            if tv.fail:
                fails.append(("failing-input", f"internal-call convention: emitted stack manipulation does not match under {cfg.name}: "
                              + tv.fail[0]["instruction"][:80] + ": " + tv.fail[0]["problem"][:120],
                              {"config": cfg.name, "source": src, "failures": tv.fail[:3]}))
            nj, badj = C.join_disagreements(rec.records)
            stats["join_blocks"] += nj
            if badj:
                fails.append(("failing-input", f"stack layouts of the predecessors of a join block disagree under {cfg.name}",
                              {"config": cfg.name, "source": src, "disagreements": badj[:3]}))
            ch2 = Chain(cfg.evm)
            addr = ch2.deploy(code)
            for (s, x), r0 in zip(calls, want):
                r = ch2.call(addr, mk(s, x))
                stats["calls"] += 1
                if (r.ok, r.out) != (r0.ok, r0.out):
                    fails.append(("failing-input", f"{s}({x}) returns a different result under {cfg.name} than under legacy-gas-cancun "
                                  "(arguments / return values of an internal call permuted or lost)",
                                  {"config": cfg.name, "source": src, "call": f"{s}({x})", "legacy": [r0.ok, r0.out.hex()],
                                   "venom": [r.ok, r.out.hex()]}))
                    break


# ------------------------------------------------------------------ entry point
def part_stack(ctx) -> int:
    """helper part of C14: returns the number of evaluations.  Violations are reported through ctx.
    (serialised by a file lock: C14 and a standalone C14S run rebuild the same .vo files)"""
    with coqrun.BuildLock("c14s"):
        return _part_stack(ctx)


def _part_stack(ctx) -> int:
    from vlib import c14s_translate as T
    from vlib.py2coq import Unsupported

    total = 0
    pending = None
    files = []
    gen_ok = True
    try:
        (COQ / "C14S" / "GenStackModel.v").write_text(T.translate())
        files += PER_RUN
    except Unsupported as e:
        gen_ok = False
        pending = ("translator-rejected", f"stack_model.py left the translatable fragment: {e}", {"error": str(e)})
    # hand models + their proofs depend on no generated file: content-keyed reuse of the .vo (recompiled whenever the
    # source, an earlier file of the list, a Base file or the Coq version changes); the generated model, its tie and the
    # property theorems are recompiled on every run
    b = ctx.coq_build_cached(STATIC)
    if b["ok"] and files:
        b = ctx.coq_build(files)
    if not b["ok"] and pending is None:
        pending = ("theorem-broken", f"{b.get('failed_lemma')} in {b['file']}",
                   {"theorem": b.get("failed_lemma"), "file": b["file"], "coq_output": b["out"][-1500:]})
    import time as _t
    _t0 = _t.time()
    ctx.log(f'coq build done at {_t.time() - ctx.t0:.0f}s')
    found = False
    quick = ctx.tier == "quick"
    # (1) translation validation
    if gen_ok and (COQ / "C14S" / "GenStackModel.vo").exists():
        n, bad = stackmodel_differential(ctx, 500 if quick else 3000)
        total += n
        ctx.corr["stackmodel_cases"] = n
        for x in bad[:3]:
            ctx.violation("correspondence-broken", "translated StackModel method disagrees with CPython", x)
    # (2) spiller / reorder exact-output differential + (3) EVM execution of the real emitted assembly
    ctx.log(f'stackmodel diff at {_t.time() - ctx.t0:.0f}s')
    scen, stats, bad = spill_differential(ctx, 320 if quick else 3000)
    total += stats["cmds"]
    ctx.corr["spill_scenarios"] = stats
    oracle_bad = [dict(x, initial_stack=m0, classes=dict(classes), commands=[list(map(str, c)) for c in cmds])
                  for ids, m0, classes, cmds, real in scen for x in real.oracle_bad]
    for x in oracle_bad[:3]:
        found = True
        ctx.violation("failing-input", "StackSpiller / _stack_reorder does not perform the requested stack operation: "
                      + str(x.get("problem", "wrong stack effect")), x, key="c14s:effect:" + str(x.get("command"))[:80])
    ctx.log(f'spill diff at {_t.time() - ctx.t0:.0f}s')
    n_evm, bad_evm = evm_execution(ctx, scen)
    total += n_evm
    ctx.corr["evm_executions"] = n_evm
    for x in bad_evm[:3]:
        found = True
        ctx.violation("failing-input", "the assembly emitted by the spiller / _stack_reorder does not realise the stack map on the EVM", x,
                      key="c14s:evm:" + str(x.get("commands"))[:80])
    if not bad_evm and not oracle_bad:
        for x in bad[:3]:
            ctx.violation("correspondence-broken", "Spill.v model disagrees with StackSpiller/_stack_reorder (exact output)", x)
    # (4) corpus
    ctx.log(f'evm exec at {_t.time() - ctx.t0:.0f}s')
    cstats, fails = corpus_checks(ctx, ctx.tier)
    ctx.log(f'corpus at {_t.time() - ctx.t0:.0f}s')
    total += cstats["compiles"] + cstats["calls"]
    ctx.corr["corpus"] = cstats
    for kind, name, detail in fails[:4]:
        if kind == "failing-input":
            found = True
        key = detail.pop("_key", None) or "c14s:corpus:" + name[:60]
        ctx.violation(kind, name, detail, key=key)
    if pending is not None and not found:
        ctx.violation(pending[0], pending[1], pending[2])
    ctx.trusted += ["tools/vlib/c14s_translate.py (StackModel translator; validated per run against CPython)",
                    "coq/C14S/PyList.v (Python list semantics; validated per run)",
                    "coq/C14S/Spill.v hand model of stack_spiller.py/_stack_reorder (exact-output differential per run)"]
    return total
