"""C13 round 2: module initialisers inside __init__, immutables of composite types, immutables read in
internal functions / __default__, msize-based builtins inside the constructor, and the static ties of the
msize guard (legacy) and of the copy instruction of the venom epilogue (MCOPY vs identity precompile)."""
import tempfile
from pathlib import Path

from .evm import Chain

LIB = """
LA: immutable(uint256)
LB: immutable(String[10])
ls: uint256

@deploy
def __init__(a: uint256, b: String[10]):
    LA = a
    LB = b
    self.ls = a // 2 + 1

@internal
def get_la() -> uint256:
    return LA

@internal
def get_lb() -> String[10]:
    return LB
"""

# a SECOND initialised module that owns immutables (sibling of `lib`): the immutables section is the sum over ALL initialised modules
LIB2 = """
LC: immutable(uint256)
LD: immutable(uint256[2])
l2s: uint256

@deploy
def __init__(c: uint256):
    LC = c
    LD = [c, 7]
    self.l2s = 5

@internal
def get_lc() -> uint256:
    return LC

@internal
def get_ld(i: uint256) -> uint256:
    return LD[i]
"""

MAIN = """
import lib
import lib2
initializes: lib
initializes: lib2

flag F:
    A
    B
    C

struct P:
    x: uint256
    y: int128
    z: address

MA: public(immutable(P))
MF: public(immutable(F))
MB: public(immutable(Bytes[40]))
MD: public(immutable(DynArray[uint256, 4]))
MN: public(immutable(P[2]))
s: public(uint256)
last: public(uint256)

@deploy
def __init__(a: uint256, b: String[10], p: P, f: F, m: Bytes[40], d: DynArray[uint256, 4]):
    lib.__init__(a, b)
    lib2.__init__(a)
    MA = p
    MF = f
    MB = m
    MD = d
    MN = [p, P(x=1, y=-2, z=empty(address))]
    self.s = self._h()

@internal
def _h() -> uint256:
    return lib.get_la() ^ MA.x

@external
def h() -> uint256:
    return self._h()

@external
def la() -> uint256:
    return lib.get_la()

@external
def lb() -> String[10]:
    return lib.get_lb()

@external
def lsv() -> uint256:
    return lib.ls

@external
def lc() -> uint256:
    return lib2.get_lc()

@external
def ld(i: uint256) -> uint256:
    return lib2.get_ld(i)

@external
@payable
def __default__():
    self.last = MA.x ^ lib.get_la() ^ MD[0] ^ MN[1].x
"""

MSIZE_CTOR = """
T: public(immutable(address))
A: public(immutable(uint256))
B: public(immutable(Bytes[100]))
U: public(immutable(address))

@deploy
def __init__(target: address, bp: address, a: uint256, b: Bytes[100]):
    A = a
    c: address = create_copy_of(target)
    B = b
    T = c
    U = create_from_blueprint(bp, a, code_offset=3)
"""

CHILD = """
v: public(uint256)
@deploy
def __init__(a: uint256):
    self.v = a
"""


def word(v):
    return (v % 2**256).to_bytes(32, "big")


def _mods_dir():
    d = Path(tempfile.mkdtemp(prefix="c13mods"))
    (d / "lib.vy").write_text(LIB)
    (d / "lib2.vy").write_text(LIB2)
    return d


def compiler_data(src, cfg, search):
    from vyper.compiler.input_bundle import FileInput, FilesystemInputBundle
    from vyper.compiler.phases import CompilerData
    fi = FileInput(0, Path("main.vy"), Path(search) / "main.vy", src)
    return CompilerData(fi, FilesystemInputBundle([Path(search)]), settings=cfg.settings())


def flat_layout(layout, prefix=""):
    out = {}
    for k, v in layout.items():
        if isinstance(v, dict) and "offset" in v and "length" in v:
            out[prefix + k] = v
        elif isinstance(v, dict):
            out.update(flat_layout(v, prefix + k + "."))
    return out


def modules_case(ctx, cfg, rnd, exact_code, selector):
    """-> (problems list, stats dict).  Every problem is a concrete failing input description."""
    from eth_abi import encode
    from vyper.compiler.settings import anchor_settings
    d = _mods_dir()
    probs = []
    st = {"deploy": 0, "calls": 0, "slots": 0}
    try:
        cd = compiler_data(MAIN, cfg, d)
        with anchor_settings(cd.settings):
            init, rt = cd.bytecode, cd.bytecode_runtime
            layout = flat_layout(cd.storage_layout.get("code_layout", {}))
    except Exception as e:  # noqa
        return [f"compile failed: {type(e).__name__}: {str(e)[:120]}"], st
    a = rnd.choice([0, 1, 2**256 - 1, rnd.randrange(2**256)])
    b = "".join(rnd.choice("abcXYZ09 ") for _ in range(rnd.choice([0, 1, 10])))
    p = (rnd.randrange(2**256), rnd.randrange(-(2**127), 2**127), "0x" + bytes(rnd.randrange(256) for _ in range(20)).hex())
    f = rnd.randrange(8)
    m = bytes(rnd.randrange(256) for _ in range(rnd.choice([0, 5, 32, 40])))
    dd = [rnd.randrange(2**256) for _ in range(rnd.choice([1, 2, 4]))]
    types = ["uint256", "string", "(uint256,int128,address)", "uint256", "bytes", "uint256[]"]
    args = encode(types, [a, b, p, f, m, dd])
    inputs = {"a": a, "b": b, "p": [str(x) for x in p], "f": f, "m": m.hex(), "d": [str(x) for x in dd]}
    ch = Chain(cfg.evm)
    addr = ch.deploy(init + args)
    st["deploy"] += 1
    if addr is None:
        return [f"deployment with module initialiser fails; inputs={inputs}"], st
    code = exact_code(ch, addr)
    imm_len = sum(v["length"] for v in layout.values())
    if code[:len(rt)] != rt or len(code) != len(rt) + imm_len:
        probs.append(f"deployed code is not bytecode_runtime ++ {imm_len} immutable bytes (len {len(code)} vs {len(rt)}+{imm_len})")
    sec = code[len(rt):]
    pw = word(p[0]) + word(p[1]) + word(int(p[2], 16))
    want = {
        "lib.LA": word(a), "lib.LB": word(len(b)) + b.encode(), "lib2.LC": word(a), "lib2.LD": word(a) + word(7), "MA": pw, "MF": word(f), "MB": word(len(m)) + m,
        "MD": word(len(dd)) + b"".join(word(x) for x in dd), "MN": pw + word(1) + word(-2) + word(0),
    }
    for k, w in want.items():
        ent = layout.get(k)
        st["slots"] += 1
        if ent is None or sec[ent["offset"]:ent["offset"] + len(w)] != w:
            probs.append(f"immutable {k}: section bytes {sec[ent['offset']:ent['offset'] + len(w)].hex() if ent else None} != {w.hex()}")

    def call(sig, data=b"", value=0):
        st["calls"] += 1
        return ch.call(addr, (selector(sig) if sig else b"") + data, value=value)

    exp = [
        ("MA()", b"", encode(["uint256", "int128", "address"], list(p))), ("MF()", b"", word(f)),
        ("MB()", b"", encode(["bytes"], [m])), ("s()", b"", word(a ^ p[0])), ("h()", b"", word(a ^ p[0])),
        ("la()", b"", word(a)), ("lc()", b"", word(a)), ("ld(uint256)", word(0), word(a)), ("ld(uint256)", word(1), word(7)), ("lb()", b"", encode(["string"], [b])), ("lsv()", b"", word(a // 2 + 1)),
        ("MN(uint256)", word(0), encode(["uint256", "int128", "address"], list(p))),
        ("MN(uint256)", word(1), encode(["uint256", "int128", "address"], [1, -2, "0x" + "00" * 20])),
    ] + [("MD(uint256)", word(i), word(x)) for i, x in enumerate(dd)]
    for sig, data, w in exp:
        r = call(sig, data)
        if not r.ok or r.out != w:
            probs.append(f"{sig} {data.hex()[-4:]} returns {r.out.hex()[:80]} (ok={r.ok}), expected {w.hex()[:80]}")
    r = call("MD(uint256)", word(len(dd)))
    if r.ok:
        probs.append("MD(len) does not revert")
    r = call(None, b"", value=3)   # __default__ reads immutables of the main module, of the library and a dynarray
    r2 = call("last()")
    if not r.ok or r2.out != word(p[0] ^ a ^ dd[0] ^ 1):
        probs.append(f"__default__ stored {r2.out.hex()} expected {word(p[0] ^ a ^ dd[0] ^ 1).hex()} (ok={r.ok})")
    return [f"{x}; inputs={inputs}" for x in probs], st


def msize_case(ctx, cfg, rnd, exact_code, selector, compile_src):
    """constructor that uses the msize-based builtins between immutable assignments + static ties."""
    from eth_abi import encode
    from vyper.compiler.settings import anchor_settings
    from vyper.evm.assembler import instructions as I
    probs = []
    st = {"guard_checked": 0, "copy_kind": None}
    d = _mods_dir()
    try:
        cd = compiler_data(MSIZE_CTOR, cfg, d)
        with anchor_settings(cd.settings):
            init, rt, asm = cd.bytecode, cd.bytecode_runtime, cd.assembly
            layout = flat_layout(cd.storage_layout.get("code_layout", {}))
        child = compile_src(CHILD, cfg, formats=("bytecode", "blueprint_bytecode", "bytecode_runtime"))
    except Exception as e:  # noqa
        return [f"compile failed: {type(e).__name__}: {str(e)[:120]}"], st
    imm_len = sum(v["length"] for v in layout.values())
    # ---- static ties
    names = [x for x in asm if isinstance(x, str)]
    if not cfg.venom:
        k = max(0, imm_len - 32)
        head = asm[:3]
        ok = (len(head) == 3 and isinstance(head[0], I.PUSH_OFST) and isinstance(head[0].label, I.CONSTREF)
              and head[0].label.label == "mem_deploy_end" and head[0].ofst == k and head[1] == "MLOAD" and head[2] == "POP")
        st["guard_checked"] = 1
        if not ok:
            probs.append(f"legacy deploy code does not start with the msize guard iload({k}) "
                         f"(PUSH_OFST(mem_deploy_end,{k}) MLOAD POP): starts with {[repr(x) for x in head]}; an MSIZE-based "
                         f"builtin in the constructor can then allocate inside the immutables region")
        if "MSIZE" not in names:
            probs.append("expected create_copy_of/create_from_blueprint to use MSIZE in the legacy pipeline")
        probs += legacy_stub_tie(asm, len(rt), imm_len)[0]
    else:
        want = "MCOPY" if cfg.evm in ("cancun", "prague") else "STATICCALL"
        other = "STATICCALL" if want == "MCOPY" else "MCOPY"
        st["copy_kind"] = want
        # the constructor itself makes no static calls and copies no memory, so the epilogue's instruction is the only one
        if want not in names or (other == "MCOPY" and "MCOPY" in names):
            probs.append(f"venom deploy epilogue for {cfg.evm} should copy immutables with {want}; opcodes present: "
                         f"MCOPY={'MCOPY' in names} STATICCALL={'STATICCALL' in names}")
    # ---- dynamic: deploy, immutables intact, created contracts correct
    ch = Chain(cfg.evm)
    target_rt = bytes.fromhex("6001600c60003960016000f3") + bytes(rnd.randrange(1, 255) for _ in range(rnd.choice([1, 40, 300])))
    target = ch.set_code(None, target_rt)
    bp = ch.deploy(bytes.fromhex(child["blueprint_bytecode"][2:]))
    a = rnd.randrange(2**256)
    b = bytes(rnd.randrange(256) for _ in range(rnd.choice([0, 33, 100])))
    addr = ch.deploy(init + encode(["address", "address", "uint256", "bytes"], [target, bp, a, b]))
    inputs = {"target_code": target_rt.hex()[:80], "a": str(a), "b": b.hex()}
    if addr is None:
        return probs + [f"constructor using create_copy_of/create_from_blueprint between immutable assignments fails; inputs={inputs}"], st
    code = exact_code(ch, addr)
    if code[:len(rt)] != rt or len(code) != len(rt) + imm_len:
        probs.append("deployed code is not bytecode_runtime ++ immutables")
    r = ch.call(addr, selector("A()"))
    if r.out != word(a):
        probs.append(f"A() = {r.out.hex()} expected {word(a).hex()} (immutable clobbered by msize-based allocation?)")
    r = ch.call(addr, selector("B()"))
    if r.out != encode(["bytes"], [b]):
        probs.append("B() differs from the constructor argument (immutable clobbered by msize-based allocation?)")
    r = ch.call(addr, selector("T()"))
    t = "0x" + r.out[-20:].hex()
    if not r.ok or exact_code(ch, t) != exact_code(ch, target):
        probs.append("create_copy_of inside the constructor did not copy the target code")
    r = ch.call(addr, selector("U()"))
    u = "0x" + r.out[-20:].hex()
    rv = ch.call(u, selector("v()")) if r.ok else None
    if rv is None or rv.out != word(a) or exact_code(ch, u) != bytes.fromhex(child["bytecode_runtime"][2:]):
        probs.append("create_from_blueprint inside the constructor did not create the child correctly")
    return [f"{x}; inputs={inputs}" for x in probs], st


# ---------------------------------------------------------------- early `return` inside __init__
# (fixed defect "venom-ctor-early-return-deploys-empty": venom lowered a constructor `return` to STOP, so an
# EMPTY contract was deployed; every exit of the constructor must reach the deploy epilogue)

def _ret_sources():
    base_state = "s: public(uint256)\nt: public(uint256)\n"
    ping = "\n@external\ndef ping() -> uint256:\n    return self.s + 1\n"
    out = {}
    for imm in (False, True):
        for pragma in (False, True):
            head = ("# pragma nonreentrancy on\n" if pragma else "") + base_state
            decl = "A: public(immutable(uint256))\nB: public(immutable(Bytes[40]))\n" if imm else ""
            sig = "a: uint256, b: Bytes[40]" if imm else "a: uint256"
            setimm = "    A = a\n    B = b\n" if imm else ""
            tag = ("imm" if imm else "noimm") + ("+pragma" if pragma else "")
            out["cond:" + tag] = (head + decl + f"\n@deploy\ndef __init__({sig}):\n{setimm}    self.s = a\n"
                                  "    if a > 5:\n        return\n    self.t = a + 1\n" + ping,
                                  lambda a: (a, 0 if a > 5 else a + 1))
            out["last:" + tag] = (head + decl + f"\n@deploy\ndef __init__({sig}):\n{setimm}    self.s = a\n    self.t = 3\n    return\n" + ping,
                                  lambda a: (a, 3))
            out["loop:" + tag] = (head + decl + f"\n@deploy\ndef __init__({sig}):\n{setimm}"
                                  "    for i: uint256 in range(10):\n        if i == a:\n            self.s = i + 100\n"
                                  "            return\n        self.t += 1\n    self.s = 7\n" + ping,
                                  lambda a: (a + 100, a) if a < 10 else (7, 10))
            out["chain:" + tag] = (head + decl + f"\n@deploy\ndef __init__({sig}):\n{setimm}    self._setup(a)\n    self.t = 9\n"
                                   "\n@internal\ndef _setup(a: uint256):\n    if a > 5:\n        self.s = 1\n        return\n"
                                   "    self._deeper(a)\n\n@internal\ndef _deeper(a: uint256):\n    if a == 2:\n        return\n"
                                   "    self.s = 2\n" + ping,
                                   lambda a: (1 if a > 5 else (0 if a == 2 else 2), 9))
    return out


def early_return_cases(ctx, cfg, rnd, exact_code, selector, compile_src):
    from eth_abi import encode
    probs, n = [], 0
    skipped = {}
    for name, (src, expect) in _ret_sources().items():
        imm = ":imm" in name
        try:
            out = compile_src(src, cfg, formats=("bytecode", "bytecode_runtime", "layout"))
        except Exception as e:  # noqa
            skipped[f"{name}:{type(e).__name__}"] = str(e)[:80]
            continue
        init = bytes.fromhex(out["bytecode"][2:])
        rt = bytes.fromhex(out["bytecode_runtime"][2:])
        layout = flat_layout(out["layout"].get("code_layout", {}))
        imm_len = sum(v["length"] for v in layout.values())
        for a in (0, 2, 3, 6, 9, 10, 11):
            b = bytes(rnd.randrange(256) for _ in range(rnd.choice([0, 17, 40])))
            args = encode(["uint256", "bytes"], [a, b]) if imm else encode(["uint256"], [a])
            ch = Chain(cfg.evm)
            addr = ch.deploy(init + args)
            n += 1
            if addr is None:
                probs.append((name, src, "deployment fails", a))
                continue
            code = exact_code(ch, addr)
            if code[:len(rt)] != rt or len(code) != len(rt) + imm_len:
                probs.append((name, src, f"deployed code has {len(code)} bytes, expected bytecode_runtime ({len(rt)}) ++ "
                                         f"{imm_len} immutable bytes" + (" -- EMPTY contract deployed" if not code else ""), a))
                continue
            es, et = expect(a)
            got = [ch.call(addr, selector(g + "()")).out for g in ("s", "t")]
            if got != [word(es), word(et)]:
                probs.append((name, src, f"s,t = {[x.hex()[-6:] for x in got]} expected {es},{et}", a))
            if imm:
                if ch.call(addr, selector("A()")).out != word(a) or ch.call(addr, selector("B()")).out != encode(["bytes"], [b]):
                    probs.append((name, src, "immutables do not read back", a))
            r = ch.call(addr, selector("ping()"))
            if not r.ok or r.out != word(es + 1):
                probs.append((name, src, "runtime function fails after deployment (lock left held?)", a))
    return probs, n, skipped


# ---------------------------------------------------------------- calls returning data inside __init__
# (wave-3 seeded change C16_m4: the deploy stub's memory offsets became RETURNDATASIZE for pre-shanghai targets; that is
# zero only if the constructor received no return data.)  Static tie: the legacy stub's offsets are literal pushes of
# mem_deploy_start = mem_deploy_end - len(runtime) on every evm version.  Dynamic: a constructor that makes external
# calls returning 32 / 160 / revert-data bytes before its end, immutables assigned before and after them.

BLOB = b"immutables must not move when the constructor has received return data 0123456789"
ORACLE = """
@external
@view
def price() -> uint256:
    return 31337

@external
def poke(x: uint256) -> uint256:
    return x ^ 5

@external
@view
def blob() -> Bytes[100]:
    return b"{blob}"

@external
@view
def fail():
    raise "a revert reason that is longer than thirty-two bytes, on purpose"
""".replace("{blob}", BLOB.decode())

CALL_CTOR = """
interface Oracle:
    def price() -> uint256: view
    def poke(x: uint256) -> uint256: nonpayable
    def blob() -> Bytes[100]: view

A: public(immutable(uint256))
P: public(immutable(uint256))
C: public(immutable(Bytes[100]))
K: public(immutable(uint256))
D: public(immutable(address))
OK: public(immutable(bool))
s: public(uint256)

@deploy
def __init__(o: address, a: uint256):
    A = a{frame}
    self.s = extcall Oracle(o).poke(a)
    P = staticcall Oracle(o).price()
    C = staticcall Oracle(o).blob()
    K = a ^ 7
    D = msg.sender
{last}
{bloat}
"""

LAST_CALLS = {   # statement(s) executed last in __init__ -> the return data the deploy stub sees
    "staticcall-32": "    OK = (staticcall Oracle(o).price()) == 31337",
    "staticcall-160": f"    OK = len(staticcall Oracle(o).blob()) == {len(BLOB)}",
    "extcall-32": "    OK = True\n    self.s = extcall Oracle(o).poke(self.s)\n    self.s = a ^ 5",
    "raw_call-outsize": "    r: Bytes[32] = raw_call(o, method_id(\"price()\"), max_outsize=32, is_static_call=True)\n    OK = len(r) == 32",
    "raw_call-revert-data": "    ok: bool = raw_call(o, method_id(\"fail()\"), revert_on_failure=False)\n    OK = not ok",
    "none": "    OK = True",
}


def legacy_stub_tie(asm, rt_len, imm_len):
    """read the legacy deploy stub off the assembly list:  PUSH len, PUSHLABEL runtime_begin, PUSH s, CODECOPY,
    CONST mem_deploy_end E, PUSH amount, PUSH s, RETURN  with literal pushes, s + len == E, len == len(runtime),
    amount == len + immutables.  -> (problems, s)"""
    from vyper.evm.assembler import instructions as I

    def push_at(i):
        op = asm[i] if i < len(asm) else None
        if isinstance(op, str) and op.startswith("PUSH") and op[4:].isdigit():
            n = int(op[4:])
            imm = asm[i + 1:i + 1 + n]
            if all(isinstance(b, int) for b in imm) and len(imm) == n:
                return int.from_bytes(bytes(imm), "big"), i + 1 + n
        return None, i

    ps = [i for i, x in enumerate(asm) if isinstance(x, I.PUSHLABEL) and "runtime_begin" in repr(x)
          and "CODECOPY" in asm[i + 1:i + 36] and any(isinstance(y, I.CONST) for y in asm[i + 1:i + 40])]
    if not ps:
        return ["deploy stub (PUSHLABEL runtime_begin ... CODECOPY CONST mem_deploy_end) not found in the assembly"], None
    p = ps[-1]
    ln = next((push_at(i)[0] for i in range(max(0, p - 33), p) if push_at(i)[1] == p and push_at(i)[0] is not None), None)
    shown = [repr(x) for x in asm[max(0, p - 3):p + 14]]
    s, j = push_at(p + 1)
    if s is None:
        return [f"CODECOPY destination of the deploy stub is not a literal push (mem_deploy_start): {shown}"], None
    probs = []
    if asm[j] != "CODECOPY" or not isinstance(asm[j + 1], I.CONST):
        return [f"deploy stub has an unexpected shape after the destination push: {shown}"], s
    end = asm[j + 1].value
    amount, k = push_at(j + 2)
    s2, k2 = push_at(k)
    if amount is None or s2 is None or asm[k2] != "RETURN":
        return [f"RETURN length / offset of the deploy stub are not literal pushes: {shown}"], s
    if ln != rt_len:
        probs.append(f"deploy stub copies {ln} bytes of runtime code, bytecode_runtime has {rt_len}")
    if s + rt_len != end:
        probs.append(f"deploy stub copies the runtime code to {s} but mem_deploy_end = {end} != {s} + {rt_len}")
    if s2 != s:
        probs.append(f"deploy stub copies to {s} but RETURNs from {s2}")
    if amount != rt_len + imm_len:
        probs.append(f"deploy stub RETURNs {amount} bytes, runtime + immutables = {rt_len} + {imm_len}")
    return probs, s


def call_ctor_cases(ctx, cfg, rnd, exact_code, selector, compile_src):
    """-> (problems [(variant, source, what)], n deployments, stats)"""
    from eth_abi import encode
    from vyper.compiler.settings import anchor_settings
    probs, n, st = [], 0, {"start0": 0, "start>0": 0, "stub_ties": 0}
    try:
        orc = compile_src(ORACLE, cfg, formats=("bytecode",))
    except Exception as e:  # noqa
        return [("oracle", ORACLE, f"compile failed: {type(e).__name__}: {str(e)[:120]}")], 0, st
    variants = list(LAST_CALLS)
    picks = variants if ctx.tier == "thorough" else [variants[0], rnd.choice(variants[1:5]), rnd.choice(variants[1:5])]
    d = _mods_dir()
    for vi, var in enumerate(dict.fromkeys(picks)):
        big = (vi % 3 == 2)     # a frame larger than the runtime code: mem_deploy_start > 0
        frame = "\n    big: uint256[900] = empty(uint256[900])\n    big[a % 900] = a\n    self.s = big[a % 900]" if big else ""
        bloat = "\n".join(f"@external\ndef g{i}(x: uint256) -> uint256:\n    return x * {i + 3} + self.s + A\n" for i in range(0 if big else 6))
        src = CALL_CTOR.format(frame=frame, last=LAST_CALLS[var], bloat=bloat)
        try:
            cd = compiler_data(src, cfg, d)
            with anchor_settings(cd.settings):
                init, rt = cd.bytecode, cd.bytecode_runtime
                asm = None if cfg.venom else cd.assembly
                layout = flat_layout(cd.storage_layout.get("code_layout", {}))
        except Exception as e:  # noqa
            probs.append((var, src, f"compile failed: {type(e).__name__}: {str(e)[:120]}"))
            continue
        imm_len = sum(v["length"] for v in layout.values())
        if asm is not None:
            pr, s = legacy_stub_tie(asm, len(rt), imm_len)
            st["stub_ties"] += 1
            if s is not None:
                st["start0" if s == 0 else "start>0"] += 1
            probs += [(var, src, x) for x in pr]
        ch = Chain(cfg.evm)
        o = ch.deploy(bytes.fromhex(orc["bytecode"][2:]))
        a = rnd.randrange(2**256)
        addr = ch.deploy(init + encode(["address", "uint256"], [o, a]))
        n += 1
        if addr is None:
            probs.append((var, src, f"deployment fails (a={a})"))
            continue
        code = exact_code(ch, addr)
        blob = BLOB
        okv = True
        want = {"A": word(a), "P": word(31337), "K": word(a ^ 7), "D": word(int(ch_sender(ch), 16)), "OK": word(int(okv)),
                "C": word(len(blob)) + blob + bytes(100 - len(blob))}
        bad = []
        if code[:len(rt)] != rt or len(code) != len(rt) + imm_len:
            bad.append(f"deployed code is not bytecode_runtime ++ immutables (len {len(code)} vs {len(rt)} + {imm_len}, "
                       f"runtime prefix equal: {code[:len(rt)] == rt})")
        for name, w in want.items():
            ent = layout.get(name)
            got = code[len(rt) + ent["offset"]:len(rt) + ent["offset"] + ent["length"]] if ent else None
            if got is None or got[:len(w) if name != "C" else 32 + len(blob)] != w[:len(w) if name != "C" else 32 + len(blob)]:
                bad.append(f"immutable {name} in the deployed code is {None if got is None else got[:40].hex()} expected {w[:40].hex()}")
        for name in ("A", "P", "K"):
            r = ch.call(addr, selector(name + "()"))
            if not r.ok or r.out != want[name]:
                bad.append(f"{name}() returns {r.out.hex()} expected {want[name].hex()}")
        r = ch.call(addr, selector("s()"))
        if r.out != word(a ^ 5):
            bad.append(f"s() returns {r.out.hex()} expected {word(a ^ 5).hex()}")
        probs += [(var, src, f"{x} [last statement of __init__: {var}; a={a}]") for x in bad]
    return probs, n, st


def ch_sender(ch):
    from . import evm
    return evm.DEPLOYER
