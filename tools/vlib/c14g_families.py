"""C14G: hand-written and generated Venom IR (text for the real parser) for the control-flow passes.

The compiler's own IR rarely has a phi in a block that gets merged / threaded (b-c14pass's line coverage: the phi loops
of SimplifyCFG never see a phi on compiler-produced IR), so these families put them there: phis behind jump-only blocks,
phis whose predecessors are unreachable, phis with the same value on two edges, joins reached twice from one jnz,
diamonds / triangles / loops / self-loops / jnz with equal targets / unreachable cycles / identical tails.
Variables are either defined in the entry block (dominates everything), by a phi of the block, or earlier in the block,
so every program is in SSA form with definitions dominating uses."""

HAND = {}


def _add(name, text):
    HAND[name] = "function runtime {\n" + text.strip("\n") + "\n}\n"


_add("thread_phi", """
  runtime:
    %x = calldataload 0
    %y = calldataload 32
    jnz %x, @b, @c
  b:
    jmp @join
  c:
    %z = add %y, 1
    jmp @join
  join:
    %p = phi @b, %y, @c, %z
    mstore 0, %p
    return 0, 32
""")
_add("thread_phi_same_value", """
  runtime:
    %x = calldataload 0
    %w = calldataload 32
    jnz %x, @b, @join
  b:
    jmp @join
  join:
    %p = phi @runtime, %w, @b, %w
    mstore 0, %p
    return 0, 32
""")
_add("thread_phi_diff_value", """
  runtime:
    %x = calldataload 0
    %w = calldataload 32
    %u = calldataload 64
    jnz %x, @b, @join
  b:
    jmp @join
  join:
    %p = phi @runtime, %w, @b, %u
    mstore 0, %p
    return 0, 32
""")
_add("thread_two_phis_one_differs", """
  runtime:
    %x = calldataload 0
    %w = calldataload 32
    %u = calldataload 64
    jnz %x, @b, @join
  b:
    jmp @join
  join:
    %p = phi @runtime, %w, @b, %w
    %q = phi @runtime, %w, @b, %u
    mstore 0, %p
    mstore 32, %q
    return 0, 64
""")
_add("thread_chain_of_empties", """
  runtime:
    %x = calldataload 0
    %a = calldataload 32
    %b = calldataload 64
    jnz %x, @e1, @f1
  e1:
    jmp @e2
  e2:
    jmp @e3
  e3:
    jmp @join
  f1:
    jmp @f2
  f2:
    jmp @join
  join:
    %p = phi @e3, %a, @f2, %b
    mstore 0, %p
    return 0, 32
""")
_add("unreachable_pred_phi_to_assign", """
  runtime:
    %x = calldataload 0
    %a = calldataload 32
    jmp @mid
  dead:
    %d = calldataload 64
    jmp @mid
  mid:
    %p = phi @runtime, %a, @dead, %d
    %q = add %p, %x
    mstore 0, %q
    return 0, 32
""")
_add("unreachable_cycle", """
  runtime:
    %x = calldataload 0
    %a = calldataload 32
    jnz %x, @l, @r
  l:
    jmp @join
  r:
    jmp @join
  u1:
    %d = calldataload 64
    jmp @u2
  u2:
    jnz %d, @u1, @join
  join:
    %p = phi @l, %a, @r, %x, @u2, %d
    mstore 0, %p
    stop
""")
_add("diamond_phi", """
  runtime:
    %c = calldataload 0
    %a = calldataload 32
    jnz %c, @t, @f
  t:
    %u = add %a, 1
    jmp @j
  f:
    %v = add %a, 2
    jmp @j
  j:
    %p = phi @t, %u, @f, %v
    mstore 0, %p
    jmp @k
  k:
    %r = mload 0
    return 0, 32
""")
_add("triangle_phi", """
  runtime:
    %c = calldataload 0
    %a = calldataload 32
    jnz %c, @t, @j
  t:
    %u = add %a, 1
    jmp @j
  j:
    %p = phi @runtime, %a, @t, %u
    mstore 0, %p
    return 0, 32
""")
_add("loop_phi", """
  runtime:
    %n = calldataload 0
    %z = calldataload 32
    jmp @pre
  pre:
    jmp @head
  head:
    %i = phi @pre, %z, @latch, %i2
    %c = lt %i, %n
    jnz %c, @body, @exit
  body:
    %i2 = add %i, 1
    mstore %i, %i2
    jmp @latch
  latch:
    jmp @head
  exit:
    mstore 0, %i
    return 0, 32
""")
_add("self_loop", """
  runtime:
    %n = calldataload 0
    %z = calldataload 32
    jmp @head
  head:
    %i = phi @runtime, %z, @head, %i2
    %i2 = add %i, 1
    mstore 0, %i2
    %c = lt %i2, %n
    jnz %c, @head, @exit
  exit:
    return 0, 32
""")
_add("phi_swap_loop", """
  runtime:
    %n = calldataload 0
    %x = calldataload 32
    %y = calldataload 64
    %z = calldataload 96
    jmp @pre
  pre:
    jmp @head
  head:
    %i = phi @pre, %z, @latch, %i2
    %a = phi @pre, %x, @latch, %b
    %b = phi @pre, %y, @latch, %a
    %c = lt %i, %n
    jnz %c, @body, @exit
  body:
    %i2 = add %i, 1
    jmp @latch
  latch:
    jmp @head
  exit:
    mstore 0, %a
    mstore 32, %b
    return 0, 64
""")
_add("jnz_equal_targets", """
  runtime:
    %c = calldataload 0
    %a = calldataload 32
    jnz %c, @j, @j
  j:
    %p = phi @runtime, %a
    mstore 0, %p
    return 0, 32
""")
_add("jnz_both_through_empties_same_join", """
  runtime:
    %c = calldataload 0
    %a = calldataload 32
    jnz %c, @e, @g
  e:
    jmp @j
  g:
    jmp @j
  j:
    %p = phi @e, %a, @g, %a
    mstore 0, %p
    return 0, 32
""")
_add("jnz_both_through_empties_diff", """
  runtime:
    %c = calldataload 0
    %a = calldataload 32
    %b = calldataload 64
    jnz %c, @e, @g
  e:
    jmp @j
  g:
    jmp @j
  j:
    %p = phi @e, %a, @g, %b
    mstore 0, %p
    return 0, 32
""")
_add("iszero_branch", """
  runtime:
    %a = calldataload 0
    %b = calldataload 32
    %c = iszero %a
    jnz %c, @t, @f
  t:
    mstore 0, %b
    %k = add %b, %a
    mstore 32, %k
    return 0, 64
  f:
    mstore 0, 7
    return 0, 32
""")
_add("iszero_branch_heavy_false_side", """
  runtime:
    %a = calldataload 0
    %b = calldataload 32
    %c = iszero %a
    jnz %c, @t, @f
  t:
    mstore 0, 7
    return 0, 32
  f:
    mstore 0, %b
    %k = add %b, %a
    mstore 32, %k
    return 0, 64
""")
_add("iszero_branch_loop", """
  runtime:
    %n = calldataload 0
    %z = calldataload 32
    jmp @head
  head:
    %i = phi @runtime, %z, @body, %i2
    %d = sub %n, %i
    %c = iszero %d
    jnz %c, @exit, @body
  body:
    %i2 = add %i, 1
    mstore %i, %i2
    jmp @head
  exit:
    mstore 0, %i
    return 0, 32
""")
_add("eq_branch_prefers_iszero", """
  runtime:
    %a = calldataload 0
    %b = calldataload 32
    %c = eq %a, %b
    jnz %c, @t, @f
  t:
    mstore 0, 1
    return 0, 32
  f:
    mstore 0, %b
    mstore 32, %a
    return 0, 64
""")
_add("iszero_branch_other_block", """
  runtime:
    %a = calldataload 0
    %b = calldataload 32
    %c = iszero %a
    jmp @m
  m:
    mstore 64, %b
    jnz %c, @t, @f
  t:
    mstore 0, %b
    mstore 32, %a
    return 0, 64
  f:
    mstore 0, 7
    return 0, 32
""")
_add("identical_tails", """
  runtime:
    %a = calldataload 0
    %b = calldataload 32
    jnz %a, @t1, @n
  n:
    jnz %b, @t2, @t3
  t1:
    %u = 5
    mstore 0, %u
    revert 0, 32
  t2:
    %v = 5
    mstore 0, %v
    revert 0, 32
  t3:
    %w = 6
    mstore 0, %w
    revert 0, 32
""")
_add("identical_tails_no_vars", """
  runtime:
    %a = calldataload 0
    %b = calldataload 32
    jnz %a, @t1, @n
  n:
    mstore 0, %b
    jnz %b, @t2, @t1
  t1:
    revert 0, 0
  t2:
    revert 0, 0
""")
_add("tails_differ_one_operand", """
  runtime:
    %a = calldataload 0
    jnz %a, @t1, @t2
  t1:
    %u = 5
    mstore 0, %u
    return 0, 32
  t2:
    %v = 5
    mstore 32, %v
    return 0, 32
""")
_add("critical_edges_phi", """
  runtime:
    %c = calldataload 0
    %d = calldataload 32
    %a = calldataload 64
    jnz %c, @x, @j
  x:
    %e = add %a, 1
    jnz %d, @j, @y
  y:
    mstore 64, %e
    jmp @j
  j:
    %p = phi @runtime, %a, @x, %e, @y, %d
    mstore 0, %p
    return 0, 32
""")
_add("critical_loop_backedge", """
  runtime:
    %n = calldataload 0
    %z = calldataload 32
    jnz %n, @head, @exit
  head:
    %i = phi @runtime, %z, @head, %i2
    %i2 = add %i, 1
    %c = lt %i2, %n
    jnz %c, @head, @exit
  exit:
    %r = phi @runtime, %n, @head, %i2
    mstore 0, %r
    return 0, 32
""")
_add("merge_then_thread", """
  runtime:
    %c = calldataload 0
    %a = calldataload 32
    jmp @s1
  s1:
    %b = add %a, 3
    jmp @s2
  s2:
    jnz %c, @e, @f
  e:
    jmp @j
  f:
    %g = add %b, 1
    jmp @j
  j:
    %p = phi @e, %b, @f, %g
    mstore 0, %p
    jmp @k
  k:
    return 0, 32
""")
_add("phi_pred_renamed_by_merge", """
  runtime:
    %c = calldataload 0
    %a = calldataload 32
    jnz %c, @l, @r
  l:
    jmp @l2
  l2:
    %u = add %a, 1
    jmp @j
  r:
    %v = add %a, 2
    jmp @r2
  r2:
    mstore 64, %v
    jmp @j
  j:
    %p = phi @l2, %u, @r2, %v
    mstore 0, %p
    return 0, 32
""")


DATA_FAMILIES = {}


def _addd(name, text, data):
    DATA_FAMILIES[name] = "function runtime {\n" + text.strip("\n") + "\n}\n\ndata readonly {\n  dbsection table:\n" + \
        "".join(f"    db @{l}\n" for l in data) + "}\n"


# djmp with a jump table: a jump-only target (threaded / merged), identical halting targets (tail merge), a shared join
_addd("djmp_two_targets_one_empty", """
  runtime:
    %x = calldataload 0
    %a = calldataload 32
    djmp %x, @e, @t
  e:
    jmp @j
  t:
    %u = add %a, 1
    jmp @j
  j:
    %p = phi @e, %a, @t, %u
    mstore 0, %p
    return 0, 32
""", ["e", "t"])
_addd("djmp_identical_tails", """
  runtime:
    %x = calldataload 0
    djmp %x, @t1, @t2, @t3
  t1:
    %u = 5
    mstore 0, %u
    revert 0, 32
  t2:
    %v = 5
    mstore 0, %v
    revert 0, 32
  t3:
    %w = 6
    mstore 0, %w
    revert 0, 32
""", ["t1", "t2", "t3", "t1"])
_addd("djmp_chain_behind_target", """
  runtime:
    %x = calldataload 0
    %a = calldataload 32
    djmp %x, @t1, @t2, @t3
  t1:
    %u = add %a, 1
    jmp @k1
  k1:
    mstore 0, %u
    jmp @k2
  k2:
    return 0, 32
  t2:
    jmp @k3
  k3:
    mstore 0, %a
    stop
  t3:
    revert 0, 0
""", ["t1", "t2", "t3"])
_addd("djmp_shared_join_phi", """
  runtime:
    %x = calldataload 0
    %a = calldataload 32
    %b = calldataload 64
    jnz %a, @d, @j
  d:
    %c = add %b, 1
    djmp %x, @j, @t
  t:
    mstore 32, %c
    jmp @j
  j:
    %p = phi @runtime, %a, @d, %b, @t, %c
    mstore 0, %p
    return 0, 32
""", ["j", "t"])


# ------------------------------------------------------------------ generated programs
def gen_program(rnd):
    """random CFG; SSA by construction (see module docstring)"""
    n = rnd.randint(3, 9)
    names = ["runtime"] + [f"b{i}" for i in range(1, n)]
    nentry = rnd.randint(2, 4)
    entry_vars = [f"%e{i}" for i in range(nentry)]
    kinds = []
    for i in range(n):
        r = rnd.random()
        if i == 0:
            kinds.append("jnz" if r < 0.6 else "jmp")
        elif r < 0.28:
            kinds.append("empty")          # jump-only block
        elif r < 0.50:
            kinds.append("jmp")
        elif r < 0.78:
            kinds.append("jnz")
        else:
            kinds.append("halt")
    if "halt" not in kinds:
        kinds[-1] = "halt"
    force = {}
    if n >= 4 and rnd.random() < 0.45:
        # several self-contained halting blocks with the same code (and sometimes one that differs)
        t0 = rnd.randrange(3)
        for i in range(max(1, n - rnd.randint(2, 3)), n):
            kinds[i] = "halt"
            force[i] = t0 if rnd.random() < 0.8 else rnd.randrange(3)
    succ = {}
    for i in range(n):
        if kinds[i] in ("empty", "jmp"):
            succ[i] = [rnd.randrange(1, n)]
        elif kinds[i] == "jnz":
            a = rnd.randrange(1, n)
            b = a if rnd.random() < 0.12 else rnd.randrange(1, n)
            succ[i] = [a, b]
        else:
            succ[i] = []
    for i in force:
        js = [j for j in range(n) if succ[j]]
        if js:
            j = rnd.choice(js)
            succ[j][rnd.randrange(len(succ[j]))] = i
    preds = {i: [] for i in range(n)}
    for i in range(n):
        for s in dict.fromkeys(succ[i]):
            preds[s].append(i)
    # an empty block must not have phis; decide phis per block
    defs_in = {i: [] for i in range(n)}     # variables available at the END of block i (own definitions)
    body = {i: [] for i in range(n)}
    ctr = [0]

    def fresh(p="v"):
        ctr[0] += 1
        return f"%{p}{ctr[0]}"
    # first pass: own (non-phi) definitions so that phi operands can refer to them
    closed = {}
    for i in range(n):
        if kinds[i] == "empty":
            continue
        if i and kinds[i] == "halt" and (i in force or rnd.random() < 0.6):
            # self-contained halting block (TailMergePass candidates: few templates, so duplicates are frequent)
            t = force.get(i, rnd.randrange(3))
            v = fresh()
            if t == 0:
                body[i] = [f"{v} = {5 if i in force else rnd.choice([5, 6])}", f"mstore 0, {v}"]
            elif t == 1:
                w = fresh()
                body[i] = [f"{v} = calldataload 0", f"{w} = add {v}, 1", f"mstore 32, {w}"]
            else:
                body[i] = []
            closed[i] = "revert 0, 32" if i in force else rnd.choice(["revert 0, 32", "return 0, 64"])
            continue
        avail = list(entry_vars) if i else []
        k = rnd.randint(0, 3)
        for _ in range(k):
            v = fresh()
            r = rnd.random()
            if r < 0.35 or not avail:
                body[i].append(f"{v} = calldataload {32 * rnd.randint(0, 7)}")
            elif r < 0.7:
                body[i].append(f"{v} = add {rnd.choice(avail)}, {rnd.randint(1, 5)}")
            elif r < 0.85:
                body[i].append(f"{v} = iszero {rnd.choice(avail)}")
            else:
                body[i].append(f"{v} = eq {rnd.choice(avail)}, {rnd.choice(avail)}")
            avail.append(v)
            defs_in[i].append(v)
        if rnd.random() < 0.6 and avail:
            body[i].append(f"mstore {32 * rnd.randint(0, 3)}, {rnd.choice(avail)}")
    lines = []
    for i in range(n):
        lines.append(f"  {names[i]}:")
        phis = []
        if i == 0:
            for j, v in enumerate(entry_vars):
                lines.append(f"    {v} = calldataload {32 * j}")
        elif kinds[i] != "empty" and i not in closed and preds[i] and rnd.random() < 0.75:
            for _ in range(rnd.randint(1, 2)):
                pv = fresh("p")
                same = rnd.random() < 0.3
                common = rnd.choice(entry_vars)
                ops = []
                for p in preds[i]:
                    cand = entry_vars + list(defs_in[p])
                    ops.append(f"@{names[p]}, {common if same else rnd.choice(cand)}")
                lines.append(f"    {pv} = phi " + ", ".join(ops))
                phis.append(pv)
        for ln in body[i]:
            lines.append("    " + ln)
        loc = (entry_vars if i else []) + defs_in[i] + phis
        if phis and rnd.random() < 0.8:
            lines.append(f"    mstore {32 * rnd.randint(0, 3)}, {rnd.choice(phis)}")
        if kinds[i] in ("empty", "jmp"):
            lines.append(f"    jmp @{names[succ[i][0]]}")
        elif kinds[i] == "jnz":
            cond = rnd.choice(loc if loc else entry_vars)
            if i == 0:
                cond = rnd.choice(entry_vars + defs_in[0])
            lines.append(f"    jnz {cond}, @{names[succ[i][0]]}, @{names[succ[i][1]]}")
        elif i in closed:
            lines.append("    " + closed[i])
        else:
            r = rnd.random()
            if r < 0.4:
                lines.append("    stop")
            elif r < 0.7:
                lines.append("    revert 0, 0")
            else:
                lines.append("    return 0, 64")
    return "function runtime {\n" + "\n".join(lines) + "\n}\n"


def programs(rnd, n_random):
    out = list(HAND.items()) + list(DATA_FAMILIES.items())
    for k in range(n_random):
        out.append((f"gen{k}", gen_program(rnd)))
    return out
