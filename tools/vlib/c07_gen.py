"""C07 helpers: selector mining, contract generation, call matrix, observation of the dispatch target."""
from collections import defaultdict

ARG_BASE = 101          # value passed for argument i is ARG_BASE + i
DEF_BASE = 7            # default of keyword argument j (position p + j) is DEF_BASE + position
MUL = 1000


# mutability decorators an entry point can carry ("" = undecorated).  The EXPECTED payability of an entry point is
# computed from this decorator text alone (`deco_payable`; re-read from the generated source text by
# `source_decorators`), never from an attribute of the compiler under test: only "@payable" accepts value,
# "@nonpayable", "@view", "@pure" and no decorator at all are non-payable.
MUTS = ("payable", "nonpayable", "", "view", "pure")
CTOR_MUTS = ("payable", "nonpayable", "")      # a constructor cannot be @view / @pure


def deco_payable(mut):
    assert mut in MUTS, mut
    return mut == "payable"


def draw_mut(rnd, p_payable=0.4):
    """payable with probability p_payable, else uniformly one of the four non-payable spellings"""
    if rnd.random() < p_payable:
        return "payable"
    return rnd.choice(["nonpayable", "", "view", "pure"])


class Fallback:
    """`__default__` declared with the decorator `mut`; its truth value is its payability (from the decorator text),
    so it can stand wherever the harness used False (non-payable) / True (payable)."""

    def __init__(self, mut):
        assert mut in MUTS, mut
        self.mut = mut

    def __bool__(self):
        return deco_payable(self.mut)

    def __repr__(self):
        return f"Fallback(@{self.mut or '<undecorated>'})"


def as_fallback(fb):
    """None | False | True (older callers, recorded replays) | Fallback -> None | Fallback"""
    if fb is None or isinstance(fb, Fallback):
        return fb
    return Fallback("payable" if fb else "")


class Fn:
    """One external function: `pos` positional uint256 args + `kw` defaulted uint256 args, decorator `mut`."""

    def __init__(self, name, pos, kw, mut):
        if isinstance(mut, bool):
            mut = "payable" if mut else ""
        assert mut in MUTS, mut
        self.name, self.pos, self.kw, self.mut = name, pos, kw, mut

    @property
    def payable(self):
        return deco_payable(self.mut)

    def sigs(self):
        return [f"{self.name}({','.join(['uint256'] * (self.pos + j))})" for j in range(self.kw + 1)]


def mine(limit=120000):
    """Deterministic brute-force search (names n<i>) for selectors with special shapes.
    Returns dict kind -> list of (name, nargs) whose selector `name(uint256 * nargs)` has the shape."""
    from vyper.utils import method_id_int
    pools = defaultdict(list)
    seen = {}
    by_mask = [dict() for _ in range(4)]
    for i in range(limit):
        nargs = i % 3
        name = f"n{i}"
        sig = f"{name}({','.join(['uint256'] * nargs)})"
        mid = method_id_int(sig)
        if mid in seen:
            continue
        seen[mid] = (name, nargs)
        if mid & 0xFFFF == 0:
            pools["tz2"].append((name, nargs))
        elif mid & 0xFF == 0:
            pools["tz1"].append((name, nargs))
        if mid >> 24 == 0:
            pools["lz"].append((name, nargs))
        if len(pools["onebyte"]) < 24:
            for b in range(4):
                key = mid & ~(0xFF << (8 * b))
                other = by_mask[b].get(key)
                if other is not None and other[0] != name:
                    pools["onebyte"].append((other, (name, nargs)))
                else:
                    by_mask[b][key] = (name, nargs)
        if i < 400:
            pools["plain"].append((name, nargs))
    return pools


def build_functions(rnd, n, pools):
    """n external functions with a mix of selector shapes, payability and default arguments."""
    from vyper.utils import method_id_int
    fns, used_names, used_ids = [], set(), set()

    def try_add(name, pos, kw, mut):
        f = Fn(name, pos, kw, mut)
        ids = [method_id_int(s) for s in f.sigs()]
        if name in used_names or len(set(ids)) != len(ids) or used_ids & set(ids):
            return False
        used_names.add(name)
        used_ids.update(ids)
        fns.append(f)
        return True

    special = []
    for kind, cnt in (("tz1", 3), ("tz2", 1), ("lz", 1)):
        pool = list(pools.get(kind, []))
        rnd.shuffle(pool)
        special += pool[:cnt]
    pairs = list(pools.get("onebyte", []))
    rnd.shuffle(pairs)
    for a, b in pairs[:2]:
        special += [a, b]
    rnd.shuffle(special)
    plain = list(pools["plain"])
    rnd.shuffle(plain)
    cand = special[: max(0, (2 * n + 2) // 3)] + plain
    for name, nargs in cand:
        if len(fns) >= n:
            break
        # the mined shape holds for the signature with `nargs` args: keep that one as a variant
        kw = rnd.choice([0, 0, 0, 1, 2]) if nargs else rnd.choice([0, 0, 0, 1])
        kw = min(kw, 2)
        pos = rnd.randrange(0, nargs + 1) if kw else nargs
        if kw and pos + kw < nargs:
            pos = nargs - kw
        if pos + kw > 3:
            kw = 3 - pos
        try_add(name, pos, kw, draw_mut(rnd))
    return fns


VIEW_DEFAULT_OUT = 96        # a @view / @pure __default__ cannot log: it RETURNS its observations (3 words)
PURE_DEFAULT_TAG = 424242


def source(fns, fallback, ctor=None):
    """fallback: None | Fallback (any of the five decorator spellings; False / True accepted for older callers);
    ctor: None | one of CTOR_MUTS (an `__init__` with that decorator)"""
    fallback = as_fallback(fallback)
    # __default__ observes dispatcher-related values (calldata length vs 4, the selector word, msg.value,
    # msg.sender) and logs them: they must not be disturbed by whatever the dispatcher left behind
    out = ["event D:", "    x: uint256", "    y: uint256", "    v: uint256", "    s: address", ""]
    if ctor is not None:
        assert ctor in CTOR_MUTS, ctor
        out.append("@deploy")
        if ctor:
            out.append("@" + ctor)
        out += ["def __init__():", "    pass", ""]
    for k, f in enumerate(fns):
        args = [f"a{i}: uint256" for i in range(f.pos)] + \
               [f"a{f.pos + j}: uint256 = {DEF_BASE + f.pos + j}" for j in range(f.kw)]
        combo = " + ".join([f"a{i} * {MUL ** i}" for i in range(f.pos + f.kw)]) or "0"
        out.append("@external")
        if f.mut:
            out.append("@" + f.mut)
        out.append(f"def {f.name}({', '.join(args)}) -> uint256[2]:")
        out.append(f"    return [{k}, {combo}]")
        out.append("")
    if fallback is not None:
        out.append("@external")
        if fallback.mut:
            out.append("@" + fallback.mut)
        if fallback.mut == "pure":
            out.append("def __default__() -> uint256[3]:")
            out.append(f"    return [{PURE_DEFAULT_TAG}, 0, 0]")
        elif fallback.mut == "view":
            out.append("def __default__() -> uint256[3]:")
            out.append("    x: uint256 = 0")
            out.append("    y: uint256 = 0")
            out.append("    if len(msg.data) >= 4:")
            out.append("        x = 1")
            out.append("        y = convert(convert(slice(msg.data, 0, 4), bytes4), uint256)")
            out.append("    return [x, y, convert(msg.sender, uint256)]")
        else:
            out.append("def __default__():")
            out.append("    x: uint256 = 0")
            out.append("    y: uint256 = 0")
            out.append("    if len(msg.data) >= 4:")
            out.append("        x = 1")
            out.append("        y = convert(convert(slice(msg.data, 0, 4), bytes4), uint256)")
            out.append(f"    log D(x=x, y=y, v={'msg.value' if fallback else '0'}, s=msg.sender)")
    return "\n".join(out) + "\n"


def source_decorators(src):
    """{function name: tuple of decorator words}, read back from the TEXT of a generated contract (the harness' own
    source of truth for payability: an entry point accepts value iff "payable" is among its decorators)."""
    out, pending = {}, []
    for line in src.splitlines():
        if line.startswith("@"):
            pending.append(line[1:].strip())
        elif line.startswith("def "):
            name = line[4:line.index("(")]
            assert name not in out, name
            out[name] = tuple(pending)
            pending = []
        elif line and not line.startswith((" ", "#")):
            pending = []
    return out


def check_source_payability(src, es, fb, ctor=None):
    """The payability the harness expects of every entry point (es / fb / ctor) must be what the decorator text of
    the generated source says; returns a description of the first disagreement or None."""
    decos = source_decorators(src)
    allowed = {"external", "internal", "deploy", "payable", "nonpayable", "view", "pure"}
    for name, ds in decos.items():
        if not set(ds) <= allowed or len(set(ds) & {"payable", "nonpayable", "view", "pure"}) > 1:
            return f"{name}: unexpected decorators {ds}"
    for e in es:
        name = e[4].split("(")[0]
        if name not in decos or ("payable" in decos[name]) != bool(e[1]):
            return f"{e[4]}: harness expects payable={bool(e[1])}, source decorators {decos.get(name)}"
    if (fb is None) != ("__default__" not in decos):
        return f"__default__: harness expects {fb}, source decorators {decos.get('__default__')}"
    if fb is not None and ("payable" in decos["__default__"]) != bool(fb):
        return f"__default__: harness expects payable={bool(fb)}, source decorators {decos['__default__']}"
    if (ctor is None) != ("__init__" not in decos):
        return f"__init__: harness expects {ctor!r}, source decorators {decos.get('__init__')}"
    if ctor is not None and ("payable" in decos["__init__"]) != deco_payable(ctor):
        return f"__init__: harness expects payable={deco_payable(ctor)}, source decorators {decos['__init__']}"
    return None


def entries(fns):
    """Entry points in the compiler's order: (method_id, payable, min_calldatasize, (fn index, n provided kwargs))."""
    from vyper.utils import method_id_int
    es = []
    for k, f in enumerate(fns):
        for j, sig in enumerate(f.sigs()):
            es.append((method_id_int(sig), f.payable, 4 + 32 * (f.pos + j), (k, j), sig))
    return es


def expected_output(fns, target):
    k, j = target
    f = fns[k]
    combo = 0
    for i in range(f.pos + f.kw):
        v = ARG_BASE + i if i < f.pos + j else DEF_BASE + i
        combo += v * MUL ** i
    return k.to_bytes(32, "big") + combo.to_bytes(32, "big")


def calldata_for(prefix: bytes, length: int):
    """prefix (<=4 selector bytes) followed by argument words ARG_BASE+i, cut / zero-extended to `length`."""
    tail = b"".join((ARG_BASE + i).to_bytes(32, "big") for i in range(4))
    data = prefix + tail if len(prefix) == 4 else prefix
    if len(data) >= length:
        return data[:length]
    return data + b"\x00" * (length - len(data))


def call_matrix(rnd, es, tier, n_buckets_hint=()):
    """Set of (prefix bytes, total length, value)."""
    calls = set()
    thorough = tier == "thorough"

    def add(prefix, length, values=(0, 1)):
        prefix = bytes(prefix[: min(4, length)])
        for v in values:
            calls.add((prefix, length, v))

    add(b"", 0)
    for (mid, payable, mincds, _t, _s) in es:
        idb = mid.to_bytes(4, "big")
        for ln in {4, mincds - 1, mincds, mincds + 1, mincds + 32, 5, 35, 36}:
            if ln >= 4:
                add(idb, ln)
        for k in range(4):          # truncated selector (0..3 bytes), the dispatcher sees it zero-padded
            add(idb[:k], k)
        bits = range(32) if thorough else sorted(set(rnd.sample(range(32), 5)) | {0, 8, 31})
        for b in bits:
            add((mid ^ (1 << b)).to_bytes(4, "big"), mincds, values=(0,))
        # same residue modulo plausible bucket counts, +-1
        for n in n_buckets_hint:
            for d in (n, -n):
                x = mid + d
                if 0 <= x < 2**32:
                    add(x.to_bytes(4, "big"), mincds, values=(0,))
        for d in (1, -1, 256, -256):
            x = mid + d
            if 0 <= x < 2**32:
                add(x.to_bytes(4, "big"), mincds, values=(0,))
    for _ in range(40 if thorough else 12):
        add(rnd.randrange(2**32).to_bytes(4, "big"), rnd.choice([4, 36, 68, 100]))
    # every bucket index of every plausible bucket count (incl. empty buckets), 4- and 5-byte calldata;
    # all-zero calldata of 0..5 bytes; 00 00 00 s 00 (corpus/fallback_selectors.vy shape)
    for n in set(n_buckets_hint) | {1, 2, 3, 4, 5}:
        for r in range(n):
            add(r.to_bytes(4, "big"), 4)
            add(r.to_bytes(4, "big"), 5, values=(0,))
    for s in range(16):
        add(bytes([0, 0, 0, s]), 5, values=(0,))
    for ln in range(6):
        add(b"\x00\x00\x00\x00", ln)
    add(b"\x00\x00\x00\x00", 36)
    add(b"\xff\xff\xff\xff", 36)
    return sorted(calls)


def expected_default_log(data: bytes, value: int, payable_default: bool, sender: str):
    """x = 1 iff len(calldata) >= 4; y = the selector word if x else 0; v = msg.value (0 if nonpayable); s = sender"""
    x = 1 if len(data) >= 4 else 0
    y = int.from_bytes(data[:4], "big") if x else 0
    v = value if payable_default else 0
    return x.to_bytes(32, "big") + y.to_bytes(32, "big") + v.to_bytes(32, "big") + bytes(12) + bytes.fromhex(sender[2:])


def expected_default(data: bytes, value: int, fb, sender: str):
    """What a call that reaches `__default__` must show: the log of a state-mutating fallback, or the three words
    a @view / @pure fallback returns (it cannot log).  Returns ('default', bytes)."""
    fb = as_fallback(fb)
    if fb.mut == "pure":
        return ("default", PURE_DEFAULT_TAG.to_bytes(32, "big") + bytes(64))
    if fb.mut == "view":
        x = 1 if len(data) >= 4 else 0
        y = int.from_bytes(data[:4], "big") if x else 0
        return ("default", x.to_bytes(32, "big") + y.to_bytes(32, "big") + bytes(12) + bytes.fromhex(sender[2:]))
    return ("default", expected_default_log(data, value, bool(fb), sender))


def observe(res, fns):
    """Classify a pyrevm result: ('revert',) | ('default',) | ('enter', out) | ('other', ...)"""
    if not res.ok:
        return ("revert",)
    if len(res.logs) == 1 and res.out == b"":
        from vlib.evm import log_tuple
        return ("default", log_tuple(res.logs[0])[2])
    if len(res.logs) == 0 and len(res.out) == 64:
        return ("enter", res.out)
    if len(res.logs) == 0 and len(res.out) == VIEW_DEFAULT_OUT:     # a @view / @pure __default__ returns 3 words
        return ("default", res.out)
    return ("other", res.out.hex(), len(res.logs))
