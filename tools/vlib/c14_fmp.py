"""C14: validation of FmpLoweringPass' reclaim ("restore") logic by the verified checker coq/C14/FmpLifo.v.

Every invocation of the real pass that actually lowers a function is observed in this process (class attributes of
FmpLoweringPass are wrapped; /repo is not changed): the block-entry stacks its dataflow computed (`_compute_entry_states`),
the marks each `_pop_dead_suffix` call popped together with the live variables it was given, and the restore
instructions `_restore_fmp_inst` created.  After the pass the function is exported (bump / restore / assign / other, see
FmpLifo.v) with the entry stacks as certificate and `fmp_check` is evaluated by vm_compute; by theorem
`fmp_restore_sound` acceptance means that no restore can raise the FMP or cut into an allocation other than the popped
marks' own.  Independently of the pass, every popped mark is re-checked against the exported analyses: it must denote
exactly one dalloca allocation, no live variable may point into it, its pointer must not have escaped, and no
variable derived from a getfmp capture may be live (oracle for "the popped marks are dead").
Sources of functions: the Venom IR programs of the repo's own unit tests (tests/unit/compiler/venom/test_dalloca.py and
friends, extracted by `ast`), a random structured-program family (diamonds, loops, pointer uses across joins, getfmp /
setfmp), and whatever the corpus contracts produce (raw_call(msg.data), create_copy_of, create_from_blueprint).
Search on rejection: the program is lowered a second time with reclaim disabled (`_pop_dead_suffix` -> None: pure
leak-until-return semantics), both are assembled and run on the EVM on several calldatas; differing return data is a
concrete failing input."""
import ast
import contextlib
import random
from pathlib import Path

from vlib import coqrun
from vlib.common import REPO

IMPORTS = ("From Verif Require Import C14.FmpLifo.\nOpen Scope string_scope.\nOpen Scope list_scope.\nOpen Scope Z_scope.\n")


def _q(s):
    return '"' + str(s).replace('"', "'") + '"'


class Observer:
    """Wraps FmpLoweringPass for the duration of a `with` block; collects one sample per lowered function."""

    def __init__(self, reclaim=True):
        self.samples = []
        self.errors = []
        self.reclaim = reclaim

    def __enter__(self):
        from vyper.venom.passes.fmp_lowering import FmpLoweringPass as P
        self.P = P
        self.orig = {k: getattr(P, k) for k in ("run_pass", "_compute_entry_states", "_pop_dead_suffix", "_restore_fmp_inst")}
        obs = self

        def run_pass(self_, *a, **kw):
            fn = self_.function
            before_sig = fn._fmp_signature
            self_._v_entry = None
            self_._v_restores = {}
            self_._v_pops = []
            self_._v_last = None
            r = obs.orig["run_pass"](self_, *a, **kw)
            if before_sig is None and self_._v_entry is not None:
                try:
                    obs.samples.append(export(self_, fn))
                except Exception as e:  # noqa
                    obs.errors.append(f"{type(e).__name__}: {e}")
            return r

        def entry_states(self_, fn):
            r = obs.orig["_compute_entry_states"](self_, fn)
            self_._v_entry = {bb.label.value: [v.value for v in st.stack] for bb, st in r.items()}
            self_._v_pops = []   # forget the pops of the fixpoint iterations; only the rewrite walk counts
            return r

        def pop_dead(self_, state, live_vars):
            if not obs.reclaim:
                return None
            before = list(state.stack)
            caps = set(state.captures)
            r = obs.orig["_pop_dead_suffix"](self_, state, live_vars)
            if r is not None:
                popped = before[len(state.stack):]
                self_._v_last = [v.value for v in popped]
                self_._v_pops.append({"popped": popped, "live": list(live_vars), "captures": caps, "mark": r})
            return r

        def restore(self_, mark, fmp_var, origin):
            inst = obs.orig["_restore_fmp_inst"](self_, mark, fmp_var, origin)
            self_._v_restores[id(inst)] = (inst, list(self_._v_last or []))
            return inst

        P.run_pass, P._compute_entry_states, P._pop_dead_suffix, P._restore_fmp_inst = run_pass, entry_states, pop_dead, restore
        return self

    def __exit__(self, *a):
        for k, v in self.orig.items():
            setattr(self.P, k, v)


def _opnd(o):
    from vyper.venom.basicblock import IRLiteral, IRVariable
    if isinstance(o, IRVariable):
        return f"FVar {_q(o.value)}"
    if isinstance(o, IRLiteral):
        return f"FLit {coqrun.hexlit(o.value)}"
    return None


def export(p, fn):
    """p: the pass object after run_pass."""
    from vyper.venom.basicblock import IRLabel
    F = p.fmp_var
    blocks = list(fn.get_basic_blocks())
    if blocks[0] is not fn.entry:
        blocks.remove(fn.entry)
        blocks.insert(0, fn.entry)
    bl, n_restore, n_bump, text = [], 0, 0, []
    for bb in blocks:
        body = []
        for i in bb.instructions:
            outs = list(i.get_outputs())
            if id(i) in p._v_restores and p._v_restores[id(i)][0] is i:
                popped = p._v_restores[id(i)][1]
                # popped is bottom -> top; the model's stacks are top first
                body.append(f"FRestore {_q(i.operands[0].value)} [{'; '.join(_q(x) for x in reversed(popped))}]")
                n_restore += 1
            elif i.opcode == "bump" and len(outs) == 2 and outs[1] == F and len(i.operands) == 2 and i.operands[0] == F \
                    and _opnd(i.operands[1]) is not None and outs[0] != F:
                body.append(f"FBump {_q(outs[0].value)} ({_opnd(i.operands[1])})")
                n_bump += 1
            elif i.opcode == "assign" and len(outs) == 1 and len(i.operands) == 1 and _opnd(i.operands[0]) is not None:
                body.append(f"FAssign {_q(outs[0].value)} ({_opnd(i.operands[0])})")
            else:
                body.append(f"FOther [{'; '.join(_q(o.value) for o in outs)}]")
        term = bb.instructions[-1] if bb.instructions else None
        succs = []
        if term is not None and term.opcode in ("jmp", "jnz", "djmp"):
            succs = [o.value for o in term.operands if isinstance(o, IRLabel)]
        bl.append(f"{{| flabel := {_q(bb.label.value)}; fbody := [{'; '.join(body)}]; fsuccs := [{'; '.join(_q(s) for s in succs)}] |}}")
        text.append(str(bb))
    cert = "; ".join(f"({_q(l)}, [{'; '.join(_q(x) for x in reversed(st))}])" for l, st in p._v_entry.items())
    return {"name": fn.name.value, "F": F.value, "func": "[" + "; ".join(bl) + "]", "cert": "[" + cert + "]", "restores": n_restore,
            "bumps": n_bump, "nblocks": len(blocks), "text": "\n".join(text), "oracle": oracle(p, fn)}


# pointer arguments that do not leak the pointer: address / size positions of memory instructions are recomputed here
# from scratch (not with the pass' helper): python operand order (reversed w.r.t. the text)
_ADDR_POS = {"mload": [0], "mstore": [1], "mcopy": [0, 1, 2], "calldatacopy": [0, 1, 2], "codecopy": [0, 1, 2], "returndatacopy": [0, 1, 2],
             "dloadbytes": [0, 1, 2], "extcodecopy": [0, 1, 2], "sha3": [0, 1], "return": [0, 1], "revert": [0, 1],
             "log": None, "call": [0, 1, 2, 3], "staticcall": [0, 1, 2, 3], "delegatecall": [0, 1, 2, 3], "create": [0, 1], "create2": [1, 2]}
_PROP = {"add", "sub", "assign", "phi", "bump", "dalloca", "alloca"}


def oracle(p, fn):
    """Independent re-derivation of 'the popped marks are dead' from the analyses' results.  Returns a list of
    disagreements (strings); empty when every pop is justified."""
    from vyper.venom.basicblock import IRVariable
    bad = []
    base = p.base_ptrs
    insts = [i for bb in fn.get_basic_blocks() for i in bb.instructions]

    def allocs_of(v):
        try:
            return {ptr.base_alloca for ptr in base.get_possible_ptrs(v)}
        except Exception:  # noqa
            return set()

    for rec in p._v_pops:
        live = rec["live"]
        for m in rec["popped"]:
            al = allocs_of(m)
            if len(al) != 1 or next(iter(al)).inst.opcode != "dalloca":
                bad.append(f"popped mark {m} does not denote exactly one dalloca allocation")
                continue
            a = next(iter(al))
            for v in live:
                if a in allocs_of(v):
                    bad.append(f"popped mark {m}: live variable {v} may point into its allocation")
                    break
            for i in insts:
                # the pointer itself stored as a VALUE, or handed to another function: it can come back through memory
                esc = [i.operands[0]] if i.opcode == "mstore" and len(i.operands) == 2 else list(i.operands) if i.opcode in ("invoke", "ret") else []
                if any(isinstance(o, IRVariable) and a in allocs_of(o) for o in esc):
                    bad.append(f"popped mark {m}: its pointer escapes through `{i}`")
                    break
        if rec["captures"]:
            derived = p._capture_derived
            for c in rec["captures"]:
                if any(v in live for v in derived.get(c, ())):
                    bad.append(f"restore to {rec['mark']} while a variable derived from getfmp capture {c} is live")
    return bad[:5]


def evaluate(samples, name="c14fmp", shard=8, timeout=600):
    exprs = [f"[if fmp_check {_q(s['F'])} {s['func']} {s['cert']} then 1 else 0]" for s in samples]
    return coqrun.eval_zlists(IMPORTS, exprs, name, shard=shard, timeout=timeout)


# ---------------------------------------------------------------------------------------------------------------
# program sources
def unit_test_programs():
    """Venom IR text of the repository's own unit tests that mention dalloca / getfmp / dret."""
    out = []
    d = Path(REPO) / "tests" / "unit" / "compiler" / "venom"
    for f in sorted(d.glob("test_*.py")):
        try:
            tree = ast.parse(f.read_text())
        except SyntaxError:
            continue
        for n in ast.walk(tree):
            if isinstance(n, ast.Constant) and isinstance(n.value, str) and "function " in n.value and "{" in n.value \
                    and any(k in n.value for k in ("dalloca", "getfmp", "dret", "setfmp")):
                out.append((f"{f.name}:{n.lineno}", n.value))
    return out


class Gen:
    """Random structured programs over dalloca: allocations, pointer uses (keeping marks live across joins), if/else with
    allocations in one or both arms, loops with allocations in the body, getfmp / setfmp pairs.  Only loaded VALUES are
    returned, never pointers, so that the result does not depend on where the allocator places a buffer."""

    def __init__(self, rnd):
        self.rnd = rnd
        self.k = 0
        self.lab = 0
        self.blocks = []

    def fresh(self, p="t"):
        self.k += 1
        return f"%{p}{self.k}"

    def label(self, p="b"):
        self.lab += 1
        return f"{p}{self.lab}"

    def seq(self, cur, scope, depth):
        """emit statements into block `cur` (list of lines); returns the block in which control continues"""
        r = self.rnd
        for _ in range(r.randint(1, 4)):
            x = r.random()
            if x < 0.40:
                p = self.fresh("p")
                size = r.choice(["32", "64", "96", "%n", "0", "33"])
                cur.append(f"{p} = dalloca {size}")
                cur.append(f"mstore {p}, {r.randint(1, 250)}")
                scope.append(p)
            elif x < 0.60 and scope:
                p = r.choice(scope)
                v = self.fresh("v")
                cur.append(f"{v} = mload {p}")
                cur.append(f"%acc = add %acc, {v}")
            elif x < 0.68 and scope:
                p = r.choice(scope)
                q = self.fresh("q")
                cur.append(f"{q} = add {p}, 0")
                scope.append(q)
            elif x < 0.72 and scope and r.random() < 0.5:
                cur.append(f"mstore 64, {r.choice(scope)}")      # pointer escapes into memory
            elif x < 0.86 and depth > 0:
                c = self.fresh("c")
                l1, l2, lj = self.label("then"), self.label("else"), self.label("join")
                cur.append(f"{c} = calldataload {32 * r.randint(0, 3)}")
                cur.append(f"jnz {c}, @{l1}, @{l2}")
                b1, b2, bj = [], [], []
                self.blocks += [(l1, b1), (l2, b2)]
                e1 = self.seq(b1, list(scope), depth - 1)
                e2 = self.seq(b2, list(scope), depth - 1)
                e1.append(f"jmp @{lj}")
                e2.append(f"jmp @{lj}")
                self.blocks.append((lj, bj))
                cur = bj
            elif x < 0.96 and depth > 0:
                i = self.fresh("i")
                lh, lb, lx = self.label("head"), self.label("body"), self.label("exit")
                cur.append(f"{i} = 0")
                cur.append(f"jmp @{lh}")
                bh, bb, bx = [], [], []
                self.blocks += [(lh, bh), (lb, bb)]
                c = self.fresh("c")
                bh.append(f"{c} = lt {i}, {r.randint(1, 3)}")
                bh.append(f"jnz {c}, @{lb}, @{lx}")
                e = self.seq(bb, list(scope), depth - 1)
                e.append(f"{i} = add {i}, 1")
                e.append(f"jmp @{lh}")
                self.blocks.append((lx, bx))
                cur = bx
            else:
                g = self.fresh("g")
                cur.append(f"{g} = getfmp")
                cur.append(f"mstore {g}, 5")
                if r.random() < 0.5:
                    cur.append(f"setfmp {g}")
        return cur

    def program(self):
        self.blocks = []
        main = ["%n = calldataload 0", "%acc = 0"]
        self.blocks.append(("main", main))
        end = self.seq(main, [], 2)
        end += ["mstore 0, %acc", "return 0, 32"]
        body = "\n".join(f"  {l}:\n" + "\n".join("    " + s for s in b) for l, b in self.blocks)
        return "function main {\n" + body + "\n}\n"


def lower(src, reclaim=True):
    """Parse and lower every function (callees first) as the unit tests do; returns (ctx, samples, errors)."""
    from vyper.venom.analysis import IRAnalysesCache
    from vyper.venom.parser import parse_venom
    from vyper.venom.passes import ConcretizeMemLocPass, DretDesugarPass, FmpLoweringPass, MakeSSA, PhiEliminationPass

    def ssa(fn):
        ac = IRAnalysesCache(fn)
        MakeSSA(ac, fn).run_pass()
        PhiEliminationPass(ac, fn).run_pass()

    ctx = parse_venom(src)
    with Observer(reclaim=reclaim) as obs:
        for fn in reversed(list(ctx.functions.values())):
            DretDesugarPass(IRAnalysesCache(fn), fn).run_pass()
            ConcretizeMemLocPass(IRAnalysesCache(fn), fn).run_pass()
            ssa(fn)
            FmpLoweringPass(IRAnalysesCache(fn), fn).run_pass()
            ssa(fn)
    return ctx, obs.samples, obs.errors


def run_evm(ctx, calldatas):
    from pyrevm import EVM, AccountInfo
    from vyper.evm.assembler.core import assembly_to_evm
    from vyper.venom.analysis import IRAnalysesCache
    from vyper.venom.passes import CFGNormalization, SimplifyCFGPass, SingleUseExpansion
    from vyper.venom.venom_to_assembly import VenomCompiler
    for fn in ctx.functions.values():
        SimplifyCFGPass(IRAnalysesCache(fn), fn).run_pass()
        CFGNormalization(IRAnalysesCache(fn), fn).run_pass()
        SingleUseExpansion(IRAnalysesCache(fn), fn).run_pass()
    asm = VenomCompiler(ctx).generate_evm_assembly()
    code, _ = assembly_to_evm(asm)
    outs = []
    for cd in calldatas:
        evm = EVM()
        caller, addr = "0x" + "10" * 20, "0x" + "20" * 20
        evm.set_balance(caller, 1)
        evm.insert_account_info(addr, AccountInfo(code=code))
        try:
            outs.append(("ok", bytes(evm.message_call(caller=caller, to=addr, calldata=cd, gas=3_000_000)).hex()))
        except Exception as e:  # noqa
            outs.append(("revert", str(e)[:40]))
    return outs


CALLDATAS = [b"", (64).to_bytes(32, "big") + (1).to_bytes(32, "big") * 3, (0).to_bytes(32, "big") + (1).to_bytes(32, "big") + bytes(64),
             (33).to_bytes(32, "big") + bytes(32) + (1).to_bytes(32, "big") * 2, (96).to_bytes(32, "big") + bytes(96)]


def search(src):
    """reclaiming vs. leak-until-return lowering of the same program on the EVM"""
    try:
        c1, _, _ = lower(src, reclaim=True)
        c0, _, _ = lower(src, reclaim=False)
        o1, o0 = run_evm(c1, CALLDATAS), run_evm(c0, CALLDATAS)
    except Exception as e:  # noqa
        return None
    for cd, a, b in zip(CALLDATAS, o1, o0):
        if a != b:
            return {"venom": src, "calldata": cd.hex(), "with_reclaim": a, "without_reclaim": b}
    return None


def family(rnd, n):
    out = []
    for name, src in unit_test_programs():
        out.append((name, src))
    g = Gen(rnd)
    for k in range(n):
        out.append((f"gen{k}", g.program()))
    return out


@contextlib.contextmanager
def corpus_observer():
    with Observer() as obs:
        yield obs
