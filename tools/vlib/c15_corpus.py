"""C15 glue corpus: small contracts aimed at the legacy optimiser's rules (literal boundary arithmetic, comparison
strictness flips, truthy contexts, zeroing / copy merges, nested control flow for the jump peepholes)."""

OWN = []


def _add(name, src):
    OWN.append({"name": "c15_" + name, "src": src, "min_evm": None})


_add("arith_lits", '''
@external
def u(x: uint256, y: uint256) -> uint256:
    a: uint256 = unsafe_add(unsafe_mul(x, 1), 0)
    b: uint256 = unsafe_div(x, 16) + (x % 8) + unsafe_mul(x % 1024, 32)
    c: uint256 = (x & max_value(uint256)) | 0
    d: uint256 = x ^ max_value(uint256)
    e: uint256 = unsafe_sub(max_value(uint256), y)
    return (a ^ b) ^ (c ^ d) ^ e

@external
def s(x: int256, y: int256) -> int256:
    a: int256 = unsafe_mul(x, -1)
    b: int256 = unsafe_div(y, -1)
    c: int256 = unsafe_div(x, 1) + 0
    return (a ^ b) ^ c

@external
def p(x: uint256, n: uint256) -> uint256:
    return unsafe_add(pow_mod256(x, 0), unsafe_add(pow_mod256(1, n), unsafe_add(pow_mod256(0, n), pow_mod256(x, 1))))

@external
def m(x: uint256) -> uint256:
    return x % 1 + unsafe_mul(x, 0) + (x & 0) + unsafe_div(x, 0) + x % 2 + x // 2 + unsafe_mul(x, 2 ** 255)
''')

_add("cmp_flips", '''
@external
def u(x: uint256) -> uint256:
    r: uint256 = 0
    if x > 0:
        r += 1
    if x >= 1:
        r += 2
    if x < 1:
        r += 4
    if x <= max_value(uint256) - 1:
        r += 8
    if x > max_value(uint256) - 1:
        r += 16
    if x >= max_value(uint256):
        r += 32
    if x < max_value(uint256):
        r += 64
    if 5 > x:
        r += 128
    if 5 <= x:
        r += 256
    return r

@external
def s(x: int256) -> uint256:
    r: uint256 = 0
    if x > min_value(int256):
        r += 1
    if x >= min_value(int256) + 1:
        r += 2
    if x < min_value(int256) + 1:
        r += 4
    if x <= max_value(int256) - 1:
        r += 8
    if x > max_value(int256) - 1:
        r += 16
    if x < max_value(int256):
        r += 32
    if x <= -1:
        r += 64
    if -1 < x:
        r += 128
    if x >= 0:
        r += 256
    return r

@external
def b(x: uint256, y: uint256) -> (bool, bool, bool, bool, bool, bool):
    return x > 0, x >= y, x != 0, x == max_value(uint256), not (x != y), (x | 4) != 0
''')

_add("truthy", '''
total: public(uint256)

@external
def f(x: uint256, y: uint256) -> uint256:
    assert x != y, "same"
    assert (x | 1) != 0
    if x == y:
        return 1
    if not (x == 3):
        self.total += 1
    if x != 0 and y != 0:
        self.total += 2
    if x == 0 or y == max_value(uint256):
        self.total += 4
    return self.total

@external
def g(x: int128, y: int128) -> bool:
    assert x >= -5 and y <= 5
    return (x < y) == (y > x)
''')

_add("zero_copy", '''
struct S:
    a: uint256
    b: uint256
    c: int128
    d: address

struct T:
    s: S
    xs: uint256[4]

st: S
big: T
arr: uint256[6]

@external
def zero(x: uint256) -> uint256:
    t: T = empty(T)
    t.s.a = x
    u: uint256[5] = empty(uint256[5])
    u[2] = x
    t = empty(T)
    return t.s.a + u[2] + t.xs[3]

@external
def copy(s: S, xs: uint256[4]) -> (uint256, uint256, int128, address, uint256):
    loc: S = s
    ys: uint256[4] = xs
    t: T = T(s=loc, xs=ys)
    t2: T = t
    self.big = t2
    self.st = loc
    return t2.s.a, t2.s.b, self.st.c, self.big.s.d, t2.xs[0] + self.big.xs[3]

@external
def shift(xs: uint256[6], k: uint256) -> uint256[6]:
    a: uint256[6] = xs
    b: uint256[6] = a
    a = b
    self.arr = a
    c: uint256[6] = self.arr
    c[k] = 7
    return c
''')

_add("control", '''
event E:
    x: uint256

acc: public(uint256)

@internal
def _h(x: uint256) -> uint256:
    if x > 10:
        if x > 100:
            return 3
        else:
            return 2
    elif x > 5:
        return 1
    return 0

@external
def f(x: uint256, n: uint256) -> uint256:
    r: uint256 = 0
    for i: uint256 in range(n, bound=8):
        if i == 3:
            continue
        if i == 6:
            break
        if x > i:
            r += self._h(x - i)
        else:
            log E(x=i)
    if r == 0:
        raise "zero"
    self.acc = r
    return r

@external
def g(a: bool, b: bool, c: bool) -> uint256:
    if a:
        if b:
            if c:
                return 7
            return 6
        return 4
    else:
        if not b:
            return 0 if c else 1
    return 2
''')

_add("bytes_mix", '''
data: Bytes[130]

@external
def f(b: Bytes[64], n: uint256) -> Bytes[130]:
    x: Bytes[130] = concat(b, slice(b, 0, min(n, len(b)) % 32), b"\\x00\\x01")
    self.data = x
    y: Bytes[130] = self.data
    return y

@external
def k(b: Bytes[64]) -> (bytes32, uint256):
    return keccak256(b), len(b) * 2 // 2
''')

# source-level replay of the known defect `truthy-or-under-if-branch` (reported under that key, see checks/c15.py)
_add("ifexp_or", '''
@external
@payable
def f(c: bool) -> uint256:
    return (msg.value | 2) if c else 0

@external
def g(c: bool) -> uint256:
    return (len(msg.data) | 1) if c else 5
''')

# statements between two zero-initialisations of adjacent memory slots must survive the zeroing merge
_add("zero_gap", '''
s: public(uint256)
t: public(uint256)

event Mark:
    x: uint256

@external
def f(x: uint256) -> uint256:
    a: uint256 = 0
    self.s = x + 5
    b: uint256 = 0
    log Mark(x=x)
    c: uint256 = 0
    self.t = self.s + 1
    d: uint256[2] = empty(uint256[2])
    return self.s + self.t + a + b + c + d[1]
''')

# CREATE returns an address, not 0/1: `!= empty(address)` must stay a boolean
_add("create_bool", '''
last: public(address)

@external
def mk(target: address) -> bool:
    a: address = create_minimal_proxy_to(target, revert_on_failure=False)
    self.last = a
    return a != empty(address)

@external
def mk2(target: address, salt: bytes32) -> (bool, bool):
    ok: bool = create_minimal_proxy_to(target, salt=salt, revert_on_failure=False) != empty(address)
    return ok, not ok
''')

# a dead branch holding an external call (unique_symbol marker) under a binop that rewrites: the optimiser's
# symbol sanity check must not fire (optimizer-symbol-check-stale-set, fixed in /repo 8260fcf)
_add("dead_extcall", '''
interface Foo:
    def bar() -> uint256: nonpayable

K: constant(uint256) = 1

@external
def f(a: Foo) -> uint256:
    x: uint256 = (5 if True else extcall a.bar()) | 0
    return x

@external
def g(a: Foo, y: uint256) -> uint256:
    x: uint256 = (y if K == 1 else extcall a.bar()) ^ 0
    return x & (max_value(uint256) if K == 1 else extcall a.bar())
''')
