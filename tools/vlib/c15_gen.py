"""C15: regenerate coq/C15/GenUtils.v from the current /repo source.

T-tie: vyper.utils helpers and optimizer._wrap256 through py2coq; the optimizer's `arith` fold table and
its op-name sets are read from the *live module objects* and emitted as Gallina matches over C15.Syntax.bop.
Anything unexpected raises Unsupported (fail closed)."""
import operator

from vlib.py2coq import Translator, Ty, Unsupported

BOPS = ["add", "sub", "mul", "div", "sdiv", "mod", "smod", "exp", "eq", "ne", "lt", "le", "gt", "ge",
        "slt", "sle", "sgt", "sge", "or", "and", "xor", "shl", "shr", "sar"]

PY_OPERATORS = {
    "add": "(fun a b => Ok (a + b))", "sub": "(fun a b => Ok (a - b))", "mul": "(fun a b => Ok (a * b))",
    "eq": "(fun a b => Ok (b2z (a =? b)))", "ne": "(fun a b => Ok (b2z (negb (a =? b))))",
    "lt": "(fun a b => Ok (b2z (a <? b)))", "le": "(fun a b => Ok (b2z (a <=? b)))",
    "gt": "(fun a b => Ok (b2z (a >? b)))", "ge": "(fun a b => Ok (b2z (a >=? b)))",
    "or_": "(fun a b => Ok (Z.lor a b))", "and_": "(fun a b => Ok (Z.land a b))",
    "xor": "(fun a b => Ok (Z.lxor a b))",
}
UTIL_FNS = ["evm_div", "evm_mod", "evm_pow"]


def _set_def(name, s):
    for k in s:
        if k not in BOPS:
            raise Unsupported(f"{name} contains unknown op {k!r}")
    arms = " ".join(f"| B_{k} => {'true' if k in s else 'false'}" for k in BOPS)
    return f"Definition {name} (o : bop) : bool := match o with {arms} end."


def gen_utils():
    import vyper.ir.optimizer as O
    import vyper.utils as U

    tr = Translator("vyper.ir.optimizer", extra_modules=["vyper.utils"],
                    bindings={"n.bit_length": {"args": [], "coq": "py_bit_length n", "ret": Ty.Z}})
    tr.arg_types_hint[("signed_to_unsigned", "strict")] = Ty.B
    tr.arg_types_hint[("unsigned_to_signed", "strict")] = Ty.B
    tr.arg_types_hint[("int_bounds", "signed")] = Ty.B
    tr.arg_types_hint[("_wrap256", "unsigned")] = Ty.B
    for f in ["int_bounds", "signed_to_unsigned", "unsigned_to_signed", "evm_div", "evm_mod", "evm_pow",
              "is_power_of_two", "int_log2", "_wrap256"]:
        tr.translate_function(f)
    # the functions the optimizer module actually calls must be the vyper.utils ones we translated
    for f in ["signed_to_unsigned", "unsigned_to_signed", "evm_div", "evm_mod", "evm_pow", "is_power_of_two",
              "int_log2", "int_bounds"]:
        if getattr(O, f, None) is not getattr(U, f):
            raise Unsupported(f"optimizer.{f} is not vyper.utils.{f}")
    if O.SIGNED is not False or O.UNSIGNED is not True:
        raise Unsupported("SIGNED/UNSIGNED constants changed")
    arms = []
    table = O.arith
    for k in table:
        if k not in BOPS:
            raise Unsupported(f"arith table has unknown op {k!r}")
    for k in BOPS:
        if k not in table:
            arms.append(f"| B_{k} => None")
            continue
        ent = table[k]
        if not (isinstance(ent, tuple) and len(ent) == 3 and isinstance(ent[2], bool)):
            raise Unsupported(f"arith[{k!r}] has unexpected shape")
        fn, _symb, unsigned = ent
        text = None
        for nm, t in PY_OPERATORS.items():
            if fn is getattr(operator, nm):
                text = t
        for nm in UTIL_FNS:
            if fn is getattr(U, nm):
                text = nm
        if text is None:
            raise Unsupported(f"arith[{k!r}] uses unknown function {fn!r}")
        arms.append(f"| B_{k} => Some ({text}, {'true' if unsigned else 'false'})")
    out = [tr.render(header="From Verif Require Import C15.Syntax.")]
    out.append("Definition arith (o : bop) : option ((Z -> Z -> res Z) * bool) :=\n  match o with\n  "
               + "\n  ".join(arms) + "\n  end.")
    out.append(_set_def("commutative", O.COMMUTATIVE_OPS))
    out.append(_set_def("comparison", O.COMPARISON_OPS))
    out.append(_set_def("strict_comparison", O.STRICT_COMPARISON_OPS))
    out.append(_set_def("unstrict_comparison", O.UNSTRICT_COMPARISON_OPS))
    # opcode tables (cancun rules) used by the compile_ir lowering model: name -> (ins, outs)
    from vyper.compiler.settings import Settings, anchor_settings
    from vyper.evm.opcodes import get_ir_opcodes, get_opcodes
    with anchor_settings(Settings(evm_version="cancun")):
        evm, ir = dict(get_opcodes()), dict(get_ir_opcodes())

    def table(name, d):
        rows = []
        for k in sorted(d):
            v = d[k]
            if '"' in k or not isinstance(v[1], int) or not isinstance(v[2], int):
                raise Unsupported(f"opcode table entry {k!r}: {v!r}")
            rows.append(f'("{k}", ({v[1]}, {v[2]}))')
        return (f"Definition {name} : list (string * (nat * nat)) :=\n  [" + ";\n   ".join(rows) + "]%string%nat.")
    out.append(table("evm_opcodes", evm))
    out.append(table("ir_opcodes", ir))
    return "\n\n".join(out) + "\n"
