"""C10/C04 helper: random Vyper types / declaration trees with their Coq (C10/Layout.v, Alloc.v) terms."""
from pathlib import PurePath

WORDS = ["uint256", "int128", "address", "bool", "bytes32", "uint8", "int256", "bytes4", "uint160"]


def coq_str(s):
    return '"' + s + '"%string'


class T:
    """kind: word|bytes|sarr|darr|struct|map|flag"""

    def __init__(self, kind, **kw):
        self.kind = kind
        self.__dict__.update(kw)

    # Vyper source text of the type
    def src(self):
        k = self.kind
        if k == "word":
            return self.name
        if k == "flag":
            return self.name
        if k == "bytes":
            return f"{self.bs}[{self.n}]"
        if k == "sarr":
            return f"{self.t.src()}[{self.nsrc()}]"
        if k == "darr":
            return f"DynArray[{self.t.src()}, {self.nsrc()}]"
        if k == "struct":
            return self.name
        if k == "map":
            return f"HashMap[{self.ksrc}, {self.v.src()}]"
        raise ValueError(k)

    def nsrc(self):
        n = self.n
        if n > 10**6 and n & (n - 1) == 0:
            return f"2**{n.bit_length() - 1}"
        return str(n)

    def coq(self):
        k = self.kind
        if k in ("word", "flag"):
            return "TWord"
        if k == "bytes":
            return f"(TBytes {self.n})"
        if k == "sarr":
            return f"(TSArr {self.t.coq()} {hex(self.n)})"
        if k == "darr":
            return f"(TDArr {self.t.coq()} {hex(self.n)})"
        if k == "struct":
            return "(TStruct [" + "; ".join(m.coq() for _, m in self.members) + "])"
        if k == "map":
            return f"(TMap {self.v.coq()})"
        raise ValueError(k)

    def structs(self, acc):
        """struct / flag definitions needed (inner first)"""
        k = self.kind
        if k in ("sarr", "darr"):
            self.t.structs(acc)
        elif k == "map":
            self.v.structs(acc)
        elif k == "struct":
            for _, m in self.members:
                m.structs(acc)
            if self.name not in [a.name for a in acc]:
                acc.append(self)
        elif k == "flag":
            if self.name not in [a.name for a in acc]:
                acc.append(self)

    def defsrc(self):
        if self.kind == "struct":
            return f"struct {self.name}:\n" + "".join(f"    {f}: {m.src()}\n" for f, m in self.members)
        if self.kind == "flag":
            return f"flag {self.name}:\n    A\n    B\n    C\n"
        return ""

    def has_map(self):
        k = self.kind
        if k == "map":
            return True
        if k in ("sarr", "darr"):
            return self.t.has_map()
        if k == "struct":
            return any(m.has_map() for _, m in self.members)
        return False


class Names:
    def __init__(self, prefix=""):
        self.prefix = prefix
        self.n = 0

    def fresh(self, base):
        self.n += 1
        return f"{base}{self.prefix}{self.n}"


def gen_type(rnd, names, depth=2, allow_map=True, big=False, small=False):
    """Random type.  big: may contain huge arrays (layout only); small: executable sizes."""
    choices = ["word"] * 4 + ["bytes", "flag"]
    if depth > 0:
        choices += ["sarr", "sarr", "darr", "struct"]
        if allow_map:
            choices += ["map"]
    k = rnd.choice(choices)
    if k == "word":
        return T("word", name=rnd.choice(WORDS))
    if k == "flag":
        return T("flag", name=names.fresh("F"))
    if k == "bytes":
        n = rnd.choice([1, 5, 31, 32, 33, 64, 65, 100] if not small else [1, 5, 31, 32, 33, 40])
        return T("bytes", bs=rnd.choice(["Bytes", "String"]), n=n)
    if k in ("sarr", "darr"):
        if big and rnd.random() < 0.35:
            n = rnd.choice([2**64, 2**100, 2**128 + 1, 2**200, 12345678901234567890, 2**247])
            inner = gen_type(rnd, names, 0, False, False, small) if rnd.random() < 0.7 else gen_type(rnd, names, depth - 1, False, False, small)
            while k == "sarr" and inner.kind in ("bytes", "flag"):
                inner = gen_type(rnd, names, 0, False, False, small)
            return T(k, t=inner, n=n)
        n = rnd.choice([1, 2, 3] if small else [1, 2, 3, 5, 7, 16])
        inner = gen_type(rnd, names, depth - 1, False, big and rnd.random() < 0.3, small)
        while k == "sarr" and inner.kind in ("bytes", "flag"):  # "arrays of Bytes[n] are not allowed" (DynArray of them is)
            inner = gen_type(rnd, names, depth - 1, False, False, small)
        return T(k, t=inner, n=n)
    if k == "struct":
        nm = rnd.randint(1, 3)
        members = [(f"f{i}", gen_type(rnd, names, depth - 1, False, big and rnd.random() < 0.2, small)) for i in range(nm)]
        return T("struct", name=names.fresh("S"), members=members)
    if k == "map":
        ksrc = rnd.choice(["uint256", "address", "int128", "bytes32"])
        v = gen_type(rnd, names, depth - 1, True, big and rnd.random() < 0.3, small)
        return T("map", ksrc=ksrc, v=v)
    raise ValueError(k)


LOC_COQ = {"storage": "LStorage", "transient": "LTransient", "code": "LCode"}
LOC_KEY = {"storage": "storage_layout", "transient": "transient_storage_layout", "code": "code_layout"}
LOC_CODE = {"storage": 0, "transient": 1, "code": 2}


class Var:
    def __init__(self, name, loc, ty):
        self.name, self.loc, self.ty = name, loc, ty

    def decl_src(self):
        t = self.ty.src()
        if self.loc == "storage":
            return f"{self.name}: {t}"
        if self.loc == "transient":
            return f"{self.name}: transient({t})"
        return f"{self.name}: immutable({t})"

    def coq(self):
        size = f"(size_bytes {self.ty.coq()})" if self.loc == "code" else f"(size_words {self.ty.coq()})"
        return f"DVar {coq_str(self.name)} {LOC_COQ[self.loc]} {size}"


class Module:
    """items: list of Var | Module (= `initializes: alias`) | ('const', name)"""

    def __init__(self, alias, items, nr, uses=None):
        self.alias, self.items, self.nr, self.uses = alias, items, nr, uses

    def children(self):
        return [i for i in self.items if isinstance(i, Module)]

    def has_init(self):
        return any(isinstance(i, Var) and i.loc == "code" for i in self.items) or any(c.has_init() for c in self.children())

    def any_nr(self):
        return self.nr or any(c.any_nr() for c in self.children())

    def coq_body(self):
        parts = []
        for i in self.items:
            if isinstance(i, Var):
                parts.append(i.coq())
            elif isinstance(i, Module):
                parts.append(f"DInit {coq_str(i.alias)} {'true' if i.nr else 'false'} {i.coq_body()}")
        return "[" + "; ".join(parts) + "]"

    def flat(self, path=()):
        """variables in traversal order: (path tuple, Var)"""
        out = []
        for i in self.items:
            if isinstance(i, Var):
                out.append((path + (i.name,), i))
            elif isinstance(i, Module):
                out += i.flat(path + (i.alias,))
        return out

    def source(self, top, extra=""):
        lines = []
        for c in self.children():
            lines.append(f"import {c.alias}")
        if self.uses:
            lines.append(f"import {self.uses}\nuses: {self.uses}")
        defs = []
        for i in self.items:
            if isinstance(i, Var):
                i.ty.structs(defs)
        for d in defs:
            lines.append(d.defsrc())
        for i in self.items:
            if isinstance(i, Var):
                lines.append(i.decl_src())
            elif isinstance(i, Module):
                lines.append(f"initializes: {i.alias}" + (f"[{i.uses} := {i.uses}]" if i.uses else ""))
            else:
                lines.append(f"{i[1]}: constant(uint256) = 7")
        if self.has_init():
            lines.append("@deploy\ndef __init__():")
            body = []
            for i in self.items:
                if isinstance(i, Var) and i.loc == "code":
                    body.append(f"    {i.name} = empty({i.ty.src()})")
                elif isinstance(i, Module) and i.has_init():
                    body.append(f"    {i.alias}.__init__()")
            lines += body or ["    pass"]
        if self.uses:
            lines.append(f"@internal\ndef _touch_{self.alias}():\n    {self.uses}.g_{self.uses} = 1")
        if self.nr:
            if top:
                lines.append("@external\n@nonreentrant\ndef nrf():\n    pass")
            else:
                lines.append("@internal\n@nonreentrant\ndef _nrf():\n    pass")
        return "\n".join(lines) + "\n" + extra

    def bundle(self):
        """{PurePath: {'content': src}} for all sub-modules (not the top)"""
        out = {}
        for c in self.children():
            out[PurePath(c.alias + ".vy")] = {"content": c.source(False)}
            out.update(c.bundle())
        return out


def gen_module(rnd, names, alias, depth, transient_ok, big, code_budget, override_friendly=False):
    n_items = rnd.randint(1, 4 if depth else 5)
    items = []
    for _ in range(n_items):
        r = rnd.random()
        if depth > 0 and r < 0.3:
            sub = gen_module(rnd, names, names.fresh("lib"), depth - 1, transient_ok, big, code_budget, override_friendly)
            items.append(sub)
            continue
        if r > 0.93:
            items.append(("const", names.fresh("C")))
            continue
        loc = rnd.choice(["storage"] * 5 + (["transient"] * 2 if transient_ok else []) + ["code"] * 2)
        if loc == "code":
            ty = gen_type(rnd, names, 1, allow_map=False, big=False, small=True)
            # keep the immutables section below 0x6000 except for a rare deliberate overflow
            if rnd.random() < 0.04:
                ty = T("sarr", t=T("word", name="uint256"), n=rnd.choice([767, 768, 800]))
        elif override_friendly:
            ty = gen_type(rnd, names, 2, allow_map=True, big=False, small=rnd.random() < 0.6)
        else:
            ty = gen_type(rnd, names, 2, allow_map=True, big=big, small=False)
        items.append(Var(names.fresh("v"), loc, ty))
    nr = rnd.random() < 0.4
    return Module(alias, items, nr)


def gen_uses_chain(rnd, names, transient_ok):
    """top module initialising a chain lc uses lb uses la (3 deep), each with variables in every location; the
    `initializes` statements appear in random order between the top module's own variables"""
    chain = []
    prev = None
    for d in range(3):
        alias = names.fresh("lu")
        items = [Var(f"g_{alias}", "storage", T("word", name="uint256"))]
        for _ in range(rnd.randint(0, 3)):
            loc = rnd.choice(["storage"] * 3 + (["transient"] * 2 if transient_ok else []) + ["code"] * 2)
            ty = gen_type(rnd, names, 1 if loc == "code" else 2, allow_map=(loc != "code"), big=False, small=True)
            items.append(Var(names.fresh("v"), loc, ty))
        if rnd.random() < 0.3:
            items.insert(rnd.randrange(len(items) + 1), gen_module(rnd, names, names.fresh("lib"), 0, transient_ok, False, None))
        chain.append(Module(alias, items, rnd.random() < 0.4, uses=prev))
        prev = alias
    top_items = list(chain)
    rnd.shuffle(top_items)
    for _ in range(rnd.randint(1, 3)):
        loc = rnd.choice(["storage"] * 3 + (["transient"] if transient_ok else []) + ["code"])
        ty = gen_type(rnd, names, 1 if loc == "code" else 2, allow_map=(loc != "code"), big=False, small=True)
        top_items.insert(rnd.randrange(len(top_items) + 1), Var(names.fresh("v"), loc, ty))
    return Module("top", top_items, rnd.random() < 0.4)
