"""Running coqc: building files, counting obligations, evaluating cases with vm_compute."""
import fcntl
import os
import re
import subprocess
import time
from concurrent.futures import ThreadPoolExecutor
from pathlib import Path

from .common import BUILD, COQ, ncores

COQFLAGS = ["-Q", str(COQ), "Verif", "-w", "-notation-overridden,-deprecated-hint-without-locality,-unusable-identifier"]

FORBIDDEN = [
    r"\bAdmitted\b", r"\badmit\b", r"\bAxiom\b", r"\bAxioms\b", r"\bParameter\b", r"\bParameters\b",
    r"\bConjecture\b", r"Unset\s+Guard", r"bypass_check", r"type-in-type", r"impredicative-set",
    r"\bAdmit\s+Obligations\b", r"Unset\s+Positivity", r"Unset\s+Universe",
    r"^\s*(Variable|Variables|Hypothesis|Hypotheses)\b(?![^.]*\(\*section\*\))",
]

OBL_RE = re.compile(
    r"^\s*(?:Local\s+|Global\s+|#\[[^\]]*\]\s*)?(Theorem|Lemma|Corollary|Example|Fact|Proposition|Remark)\s+([A-Za-z_][A-Za-z0-9_']*)",
    re.M,
)


def strip_comments(text):
    out = []
    depth = 0
    i = 0
    while i < len(text):
        if text.startswith("(*", i):
            depth += 1
            i += 2
        elif text.startswith("*)", i) and depth:
            depth -= 1
            i += 2
        else:
            if depth == 0:
                out.append(text[i])
            elif text[i] == "\n":
                out.append("\n")
            i += 1
    return "".join(out)


def forbidden_tokens(path):
    """Return list of (line, token) for constructs that would weaken the trusted base.
    Variable/Hypothesis are allowed only inside a Section (checked structurally)."""
    text = strip_comments(Path(path).read_text())
    hits = []
    depth = 0
    for ln, line in enumerate(text.splitlines(), 1):
        if re.match(r"^\s*Section\b", line):
            depth += 1
        if re.match(r"^\s*End\b", line) and depth:
            depth -= 1
        for pat in FORBIDDEN[:-1]:
            if re.search(pat, line):
                hits.append((ln, line.strip()))
        if re.match(r"^\s*(Variable|Variables|Hypothesis|Hypotheses|Context)\b", line) and depth == 0:
            hits.append((ln, line.strip()))
    return hits


def obligations(path):
    text = strip_comments(Path(path).read_text())
    return [m.group(2) for m in OBL_RE.finditer(text)]


def vo_path(v):
    return Path(str(v)[:-2] + ".vo")


def load_scaled(timeout):
    """Time limits are stated for an idle 16-core machine; on a loaded one (other checks, agents, test suites) the same
    coqc run takes proportionally longer, and a limit hit because of load must not look like a broken proof or tie."""
    try:
        f = os.getloadavg()[0] / max(1, ncores())
    except OSError:
        f = 1.0
    return int(timeout * min(8.0, max(1.0, 2.0 * f)))


def coqc(path, timeout=600, extra=None):
    """Compile one file.  Returns dict(ok, out, secs, failed_lemma)."""
    path = Path(path)
    timeout = load_scaled(timeout)
    t0 = time.time()
    # the .vo digest depends on the path string handed to coqc: always the path relative to coq/ (as coq_makefile's
    # make does), so that a file rebuilt by a check has the same digest as the one setup built and files compiled
    # against either stay consistent ("makes inconsistent assumptions over library ..." otherwise)
    try:
        arg = str(path.resolve().relative_to(COQ.resolve())) if path.is_absolute() else str(path)
    except ValueError:
        arg = str(path)
    cmd = ["timeout", str(int(timeout)), "coqc"] + COQFLAGS + (extra or []) + [arg]
    p = subprocess.run(cmd, capture_output=True, text=True, cwd=str(COQ))
    secs = time.time() - t0
    out = p.stdout + p.stderr
    ok = p.returncode == 0
    failed = None
    if not ok:
        m = re.search(r'line (\d+), characters', out)
        if m:
            ln = int(m.group(1))
            src = path.read_text().splitlines()[:ln]
            for line in reversed(src):
                mm = OBL_RE.match(line)
                if mm:
                    failed = mm.group(2)
                    break
        if p.returncode == 124:
            out += f"\n[timeout after {timeout}s]"
    return {"ok": ok, "out": out, "secs": secs, "failed_lemma": failed, "file": str(path)}


def needs_build(v, deps=()):
    vo = vo_path(v)
    if not vo.exists():
        return True
    t = vo.stat().st_mtime
    if Path(v).stat().st_mtime > t:
        return True
    for d in deps:
        dvo = vo_path(d)
        if dvo.exists() and dvo.stat().st_mtime > t:
            return True
    return False


class BuildLock:
    def __init__(self, name="coq"):
        BUILD.mkdir(exist_ok=True)
        self.path = BUILD / f"{name}.lock"

    def __enter__(self):
        self.f = open(self.path, "w")
        fcntl.flock(self.f, fcntl.LOCK_EX)
        return self

    def __exit__(self, *a):
        fcntl.flock(self.f, fcntl.LOCK_UN)
        self.f.close()


def build_sequence(files, force=False, timeout=600):
    """Compile files in the given order (each may depend on the previous ones).
    Returns (ok, results)."""
    results = []
    done = []
    for f in files:
        f = Path(f)
        if not f.is_absolute():
            f = COQ / f
        if force or needs_build(f, done):
            r = coqc(f, timeout=timeout)
            results.append(r)
            if not r["ok"]:
                return False, results
        done.append(f)
    return True, results


def parse_assumptions(out):
    """Extract Print Assumptions blocks from coqc output."""
    blocks = []
    cur = None
    for line in out.splitlines():
        if line.startswith("Closed under the global context"):
            blocks.append("Closed under the global context")
            cur = None
        elif line.startswith("Axioms:") or line.startswith("Section Variables:"):
            cur = [line]
            blocks.append(cur)
        elif cur is not None and (line.startswith(" ") or line.strip() == ""):
            cur.append(line)
        else:
            cur = None
    return ["\n".join(b) if isinstance(b, list) else b for b in blocks]


CASE_HEADER = """From Coq Require Import ZArith Bool List String.
Import ListNotations.
Open Scope Z_scope.
"""


def eval_cases(imports, exprs, name, shard=400, timeout=240, workdir=None):
    """Evaluate each Coq expression (must have type `string` or be wrapped by the caller
    into something printed on one logical line) with vm_compute.  Returns list of raw
    result strings (whitespace-normalised), in order.  One `Eval` per case, results
    delimited by marker lines so wrapped output is re-joined safely."""
    workdir = Path(workdir or (COQ / "cases"))
    workdir.mkdir(parents=True, exist_ok=True)
    timeout = load_scaled(timeout)
    shards = [exprs[i:i + shard] for i in range(0, len(exprs), shard)]

    def run(k):
        fn = workdir / f"cases_{name}_p{os.getpid()}_{k}.v"  # pid: concurrent runs must not share case files
        body = [CASE_HEADER, imports]
        for j, e in enumerate(shards[k]):
            body.append(f'Eval vm_compute in ({e}).')
        fn.write_text("\n".join(body) + "\n")
        p = subprocess.run(
            ["timeout", str(timeout), "coqc"] + COQFLAGS + [str(fn)],
            capture_output=True, text=True, cwd=str(COQ),
        )
        for ext in (".vo", ".vok", ".vos", ".glob"):
            try:
                os.unlink(str(fn)[:-2] + ext)
            except OSError:
                pass
        aux = fn.parent / ("." + fn.name[:-2] + ".aux")
        if aux.exists():
            aux.unlink()
        if p.returncode != 0:
            raise RuntimeError(f"coqc failed on {fn}: {p.stdout[-2000:]}{p.stderr[-2000:]}")
        fn.unlink()
        # split on "     = " result starts
        res = []
        cur = None
        for line in p.stdout.splitlines():
            if line.startswith("     = "):
                if cur is not None:
                    res.append(cur)
                cur = line[7:]
            elif cur is not None:
                cur += " " + line.strip()
        if cur is not None:
            res.append(cur)
        cleaned = []
        for r in res:
            # drop trailing type annotation ": T"
            idx = r.rfind("     : ")
            if idx < 0:
                idx = r.rfind(" : ")
            cleaned.append(re.sub(r"\s+", " ", r[:idx] if idx >= 0 else r).strip())
        if len(cleaned) != len(shards[k]):
            raise RuntimeError(f"case count mismatch in {fn}: {len(cleaned)} vs {len(shards[k])}")
        return cleaned

    with ThreadPoolExecutor(max_workers=ncores()) as ex:
        parts = list(ex.map(run, range(len(shards))))
    return [x for p in parts for x in p]


def zlit(n):
    return f"({n})" if n < 0 else str(n)


HEXRE = re.compile(r'"(-?[0-9a-f]+)"')


def hexlit(n):
    """Z literal for Coq input (hex parses fast; decimal parsing/printing of big numerals is slow)."""
    return f"(-{hex(-n)})" if n < 0 else hex(n)


def zlist(xs):
    return "[" + "; ".join(hexlit(x) for x in xs) + "]"


def eval_zlists(imports, exprs, name, shard=2, timeout=240):
    """Each expr has type `list Z`; returns list of python int lists."""
    imports = "From Verif Require Import Base.Hex.\n" + imports
    outs = eval_cases(imports, [f"map hexZ ({e})" for e in exprs], name, shard=shard, timeout=timeout)
    res = []
    for o in outs:
        res.append([int(m, 16) for m in HEXRE.findall(o)])
    return res


def _content_key(path, deps):
    """Key of a compiled file = hash of its source, of every dependency source, and the Coq version."""
    import hashlib
    h = hashlib.sha256()
    h.update(_coq_version().encode())
    for d in list(deps) + [path]:
        d = Path(d)
        h.update(str(d.name).encode())
        h.update(d.read_bytes())
    return h.hexdigest()


_COQV = None


def _coq_version():
    global _COQV
    if _COQV is None:
        _COQV = subprocess.run(["coqc", "--version"], capture_output=True, text=True).stdout
    return _COQV


def base_sources():
    return sorted((COQ / "Base").glob("*.v"))


def coqc_cached(path, deps, timeout=900):
    """Compile unless a .vo exists that was produced from byte-identical inputs (source, all
    dependency sources, Coq version).  Returns the coqc record with key `reused`."""
    path = Path(path)
    key = _content_key(path, list(base_sources()) + [Path(d) for d in deps])
    keyf = Path(str(path)[:-2] + ".vo.key")
    outf = Path(str(path)[:-2] + ".vo.out")
    if vo_path(path).exists() and keyf.exists() and keyf.read_text() == key:
        return {"ok": True, "out": outf.read_text() if outf.exists() else "", "secs": 0.0,
                "failed_lemma": None, "file": str(path), "reused": True}
    if keyf.exists():
        keyf.unlink()
    r = coqc(path, timeout=timeout)
    r["reused"] = False
    if r["ok"]:
        outf.write_text(r["out"])
        keyf.write_text(key)
    return r
