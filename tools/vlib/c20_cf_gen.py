"""C20 round 4: seeded control-flow + memory-array programs for the legacy-vs-venom behavioural comparison.

Every program is one external `f(x: uint256, y: uint256) -> uint256` (plus two internal helpers and one storage array);
no operation can revert (unsafe arithmetic, indices taken modulo the length, append / pop guarded by len), so every
configuration must return the same word for the same input.  The statements are chosen to keep several memory regions
live across joins and loops: element writes under branches, whole-array copies, ternaries of arrays, arrays passed to /
returned from internal calls, iteration over arrays, a DynArray with append / pop, copies to and from storage."""

OPS = ["unsafe_add({a}, {b})", "unsafe_mul({a}, {b})", "unsafe_sub({a}, {b})", "({a} ^ {b})", "({a} & {b})", "({a} | {b})", "({a} >> ({b} % 256))"]

CONSTS = [0, 1, 2, 3, 7, 31, 255, 2 ** 128, 2 ** 256 - 1]
HELPERS = "".join(f"K{i}: constant(uint256) = {v}\n" for i, v in enumerate(CONSTS)) + """st_: uint256[4]
sb_: Bytes[64]

@internal
def _h(v: uint256[4], k: uint256) -> uint256:
    return v[k % 4] ^ k

@internal
def _g(v: uint256[4], k: uint256) -> uint256[4]:
    w: uint256[4] = v
    w[k % 4] = k
    return w

@internal
def _hb(v: Bytes[64], k: uint256) -> Bytes[64]:
    if k % 2 == 0:
        return v
    return abi_encode(k, len(v))

@internal
def _p(v: DynArray[uint256, 6], k: uint256) -> DynArray[uint256, 6]:
    w: DynArray[uint256, 6] = v
    if len(w) < 6:
        w.append(k)
    return w
"""


def gen_cf_mem_program(rnd):
    lines = []
    st = {"loops": 0}

    def atom(idx):
        c = rnd.random()
        if c < 0.25:
            return rnd.choice(["s", "x", "y"] + idx)
        if c < 0.45:
            return f"K{rnd.randrange(len(CONSTS))}"     # typed constants: literal-only subexpressions would infer uint8
        if c < 0.8:
            return f"{rnd.choice('ab')}[{rnd.choice(['s', 'x', 'y'] + idx)} % 4]"
        if c < 0.9:
            return "len(d)"
        return "self.st_[" + rnd.choice(["x", "s"] + idx) + " % 4]"

    def expr(idx, depth=0):
        if depth >= 2 or rnd.random() < 0.3:
            return atom(idx)
        return rnd.choice(OPS).format(a=expr(idx, depth + 1), b=expr(idx, depth + 1))

    def cond(idx):
        return rnd.choice([f"{atom(idx)} % {rnd.randint(2, 5)} == {rnd.randint(0, 1)}", f"{atom(idx)} < {atom(idx)}", f"{atom(idx)} & 1 == 0"])

    def simple(ind, idx, iterating=None):
        """one non-compound statement; `iterating`: array which must not be modified (it is being iterated)"""
        arrs = [z for z in "ab" if z != iterating]
        c = rnd.random()
        if rnd.random() < 0.22:        # bytestring locals p, q
            u, v = rnd.sample("pq", 2)
            k = rnd.randrange(9)
            lines.append(ind + [f"{u} = {v}", f"{u} = ({u} if {cond(idx)} else {v})", f"{u} = abi_encode({expr(idx)}, {atom(idx)})",
                                f"{u} = self._hb({v}, {atom(idx)})", f"s = s ^ convert(keccak256({u}), uint256)", f"s = unsafe_add(s, len({u}))",
                                f"self.sb_ = {u}", f"{u} = self.sb_", f"{u} = ({v} if {cond(idx)} else self.sb_)"][k])
            if rnd.random() < 0.3:
                lines.append(f"{ind}if len({v}) >= 32:")
                lines.append(f"{ind}    {u} = slice({v}, {atom(idx)} % 2, 31)")
            return
        if c < 0.25 and arrs:
            lines.append(f"{ind}{rnd.choice(arrs)}[{atom(idx)} % 4] = {expr(idx)}")
        elif c < 0.4:
            lines.append(f"{ind}s = {expr(idx)}")
        elif c < 0.5 and len(arrs) == 2:
            u, v = rnd.sample("ab", 2)
            lines.append(f"{ind}{u} = {v}")
        elif c < 0.6 and arrs:
            u = rnd.choice(arrs)
            lines.append(f"{ind}{u} = (a if {cond(idx)} else b)")
        elif c < 0.68:
            lines.append(f"{ind}s = self._h({rnd.choice('ab')}, {expr(idx)})")
        elif c < 0.76 and arrs:
            lines.append(f"{ind}{rnd.choice(arrs)} = self._g({rnd.choice('ab')}, {atom(idx)})")
        elif c < 0.82 and iterating != "d":
            lines.append(f"{ind}if len(d) < 6:")
            lines.append(f"{ind}    d.append({expr(idx)})")
        elif c < 0.87 and iterating != "d":
            lines.append(f"{ind}if len(d) > 0:")
            lines.append(f"{ind}    s = s ^ d.pop()")
        elif c < 0.9 and iterating != "d":
            lines.append(f"{ind}d = self._p(d, {atom(idx)})")
        elif c < 0.95:
            lines.append(f"{ind}self.st_ = {rnd.choice('ab')}")
        elif arrs:
            lines.append(f"{ind}{rnd.choice(arrs)} = self.st_")
        else:
            lines.append(f"{ind}s = unsafe_add(s, 1)")

    def block(ind, depth, idx, iterating=None):
        for _ in range(rnd.randint(1, 3)):
            c = rnd.random()
            if depth < 3 and c < 0.2 and st["loops"] < 3 and iterating is None:
                st["loops"] += 1
                i = f"i{st['loops']}"
                lines.append(f"{ind}for {i}: uint256 in {rnd.choice([f'range({rnd.randint(2, 5)})', f'range(x, bound={rnd.randint(2, 6)})'])}:")
                block(ind + "    ", depth + 1, idx + [i])
            elif depth < 3 and c < 0.3 and st["loops"] < 3 and iterating is None:
                st["loops"] += 1
                it = rnd.choice(["a", "b", "d"])
                e = f"e{st['loops']}"
                lines.append(f"{ind}for {e}: uint256 in {it}:")
                block(ind + "    ", depth + 1, idx + [e], iterating=it)
            elif depth < 3 and c < 0.6:
                lines.append(f"{ind}if {cond(idx)}:")
                block(ind + "    ", depth + 1, idx, iterating)
                if rnd.random() < 0.7:
                    lines.append(f"{ind}else:")
                    block(ind + "    ", depth + 1, idx, iterating)
            else:
                simple(ind, idx, iterating)

    block("    ", 0, [])
    head = ["@external", "def f(x: uint256, y: uint256) -> uint256:", "    a: uint256[4] = [1, 2, 3, 4]", "    b: uint256[4] = [x, y, 5, 6]",
            "    d: DynArray[uint256, 6] = [x]", "    s: uint256 = 7", "    p: Bytes[64] = abi_encode(x, y)", "    q: Bytes[64] = b\"q\""]
    tail = ["    for dq: uint256 in d:", "        s = unsafe_add(unsafe_mul(s, 31), dq)",
            "    return s ^ a[0] ^ (a[1] << 8) ^ (a[2] << 16) ^ (a[3] << 24) ^ (b[0] << 32) ^ (b[1] << 40) ^ (b[2] << 48) ^ (b[3] << 56)"
            " ^ (self.st_[0] << 64) ^ (self.st_[3] << 72) ^ (len(d) << 80) ^ convert(keccak256(p), uint256) ^ (convert(keccak256(q), uint256) >> 1)"
            " ^ convert(keccak256(self.sb_), uint256)"]
    return HELPERS + "\n" + "\n".join(head + lines + tail) + "\n"
