"""py2coq extension: Optional values with flow refinement, object attributes/methods bound to
hand-written Coq accessors, short-circuit operators over partial operands, `in` on constant
sets.  Used for vyper/venom/analysis/variable_range/evaluators.py."""
import ast
import textwrap

from .py2coq import E, Translator, Ty, Unsupported, cname, ty_str


def opt(t):
    return ("opt", t)


def is_opt(t):
    return isinstance(t, tuple) and t[0] == "opt"


class ExtTranslator(Translator):
    def __init__(self, *a, attr_bindings=None, none_hints=None, type_names=None, **kw):
        super().__init__(*a, **kw)
        # (receiver type, attr) -> dict(coq=..., ret=..., partial=bool, call=bool)
        self.attr_bindings = attr_bindings or {}
        self.none_hints = none_hints or {}
        self.type_names = type_names or {}
        self.cur_func = None
        self.ret_hints = {}

    # ---- types
    def infer_arg_type(self, fname, arg, fdef):
        if arg.annotation is not None:
            t = ast.unparse(arg.annotation)
            if t in self.type_names:
                return self.type_names[t]
        return super().infer_arg_type(fname, arg, fdef)

    def unify(self, a, b):
        if a == b:
            return a
        if is_opt(a) and a[1] is None and is_opt(b):
            return b
        if is_opt(b) and b[1] is None and is_opt(a):
            return a
        if is_opt(a) and a[1] == b:
            return a
        if is_opt(b) and b[1] == a:
            return b
        return None

    def coerce_to(self, e, ty):
        if e.ty == ty:
            return e
        if is_opt(ty) and e.ty == ty[1]:
            return E(f"(Some {e.text})", ty, e.pre)
        if is_opt(ty) and is_opt(e.ty) and e.ty[1] is None:
            return E(f"(@None {ty_str(ty[1])})", ty, e.pre)
        return self.coerce(e, ty)

    # ---- refinement facts
    def facts(self, node):
        if isinstance(node, ast.Compare) and len(node.ops) == 1 and isinstance(node.left, ast.Name) \
                and isinstance(node.comparators[0], ast.Constant) and node.comparators[0].value is None:
            if isinstance(node.ops[0], ast.Is):
                return set(), {node.left.id}
            if isinstance(node.ops[0], ast.IsNot):
                return {node.left.id}, set()
        if isinstance(node, ast.UnaryOp) and isinstance(node.op, ast.Not):
            t, f = self.facts(node.operand)
            return f, t
        if isinstance(node, ast.BoolOp):
            parts = [self.facts(v) for v in node.values]
            if isinstance(node.op, ast.And):
                return set().union(*[p[0] for p in parts]), set()
            return set(), set().union(*[p[1] for p in parts])
        return set(), set()

    def refine(self, facts, env):
        """Returns (prefix bindings [(var, monadic)], env')."""
        pre = []
        env2 = dict(env)
        for x in sorted(facts):
            if x in env2 and is_opt(env2[x]):
                pre.append((cname(x), f"unopt {cname(x)}"))
                env2[x] = env2[x][1]
        return pre, env2

    # ---- expressions
    def expr(self, node, env):
        if isinstance(node, ast.Constant) and node.value is None:
            return E("None", opt(None))
        if isinstance(node, ast.Attribute):
            dotted = self.dotted(node)
            known = dotted is not None and (dotted in self.bindings or self.const_value(dotted) is not None)
            if not known:
                base = self.expr(node.value, env)
                b = self.attr_bindings.get((base.ty if isinstance(base.ty, str) else None, node.attr))
                if b is not None and not b.get("call"):
                    if b.get("partial"):
                        v = self.fresh()
                        return E(v, b["ret"], base.pre + [(v, f"{b['coq']} {base.text}")])
                    return E(f"({b['coq']} {base.text})", b["ret"], base.pre)
        if isinstance(node, ast.Call) and isinstance(node.func, ast.Attribute):
            dotted = self.dotted(node.func)
            if not (dotted is not None and (dotted in self.bindings or dotted in self.funcs)):
                base = self.expr(node.func.value, env)
                b = self.attr_bindings.get((base.ty if isinstance(base.ty, str) else None, node.func.attr))
                if b is not None and b.get("call"):
                    args = [self.expr(a, env) for a in node.args]
                    pre = base.pre + sum((a.pre for a in args), [])
                    argtxt = " ".join([base.text] + [self.coerce(a, t).text for a, t in zip(args, b.get("args", []))])
                    if b.get("partial"):
                        v = self.fresh()
                        return E(v, b["ret"], pre + [(v, f"{b['coq']} {argtxt}")])
                    return E(f"({b['coq']} {argtxt})", b["ret"], pre)
        if isinstance(node, ast.Compare) and len(node.ops) == 1 and isinstance(node.ops[0], (ast.Eq, ast.NotEq)):
            l0 = self.expr(node.left, env)
            r0 = self.expr(node.comparators[0], env)
            if is_opt(l0.ty) and is_opt(r0.ty) and l0.ty[1] == Ty.Z and r0.ty[1] == Ty.Z:
                t = f"(opt_eqb {l0.text} {r0.text})"
                return E(t if isinstance(node.ops[0], ast.Eq) else f"(negb {t})", Ty.B, l0.pre + r0.pre)
            if is_opt(l0.ty) and l0.ty[1] == Ty.Z and r0.ty == Ty.Z:
                # Optional[int] == int  (None is never equal to an int)
                t = f"(match {l0.text} with Some x__ => x__ =? {r0.text} | None => false end)"
                return E(t if isinstance(node.ops[0], ast.Eq) else f"(negb {t})", Ty.B, l0.pre + r0.pre)
        if isinstance(node, ast.Compare) and len(node.ops) == 1:
            op = node.ops[0]
            rhs = node.comparators[0]
            if isinstance(op, (ast.Is, ast.IsNot)) and isinstance(rhs, ast.Constant) and rhs.value is None:
                l = self.expr(node.left, env)
                if not is_opt(l.ty):
                    raise Unsupported("`is None` on non-optional")
                t = f"(is_none {l.text})"
                return E(t if isinstance(op, ast.Is) else f"(negb {t})", Ty.B, l.pre)
            if isinstance(op, (ast.In, ast.NotIn)) and isinstance(rhs, (ast.Set, ast.Tuple, ast.List)):
                l = self.expr(node.left, env)
                alts = []
                for el in rhs.elts:
                    r = self.expr(el, env)
                    if r.pre:
                        raise Unsupported("partial element in membership set")
                    if l.ty == Ty.S and r.ty == Ty.S:
                        alts.append(f"(String.eqb {l.text} {r.text})")
                    else:
                        alts.append(f"({self.as_z(l).text} =? {self.as_z(r).text})")
                t = "(" + " || ".join(alts) + ")" if alts else "false"
                return E(t if isinstance(op, ast.In) else f"(negb {t})", Ty.B, l.pre)
        if isinstance(node, ast.BoolOp):
            return self.boolop(node, env)
        return super().expr(node, env)

    def boolop(self, node, env):
        is_and = isinstance(node.op, ast.And)
        # translate operands left to right under accumulated refinement
        cur_env = env
        items = []  # (refine_pre, E)
        acc_facts = set()
        simple = True
        new_facts = set()
        for i, v in enumerate(node.values):
            # nested form: earlier refinements stay in scope, refine only the new facts
            rpre, cur_env = self.refine(new_facts, cur_env)
            e = self.as_b(self.expr(v, cur_env))
            if i > 0 and (rpre or e.pre):
                simple = False
            items.append((rpre, e))
            t, f = self.facts(v)
            new_facts = (t if is_and else f) - acc_facts
            acc_facts |= new_facts
        if simple:
            op = "&&" if is_and else "||"
            return E("(" + f" {op} ".join(e.text for _, e in items) + ")", Ty.B, items[0][1].pre)
        # monadic nested form
        short = "Ok false" if is_and else "Ok true"

        def build(k):
            rpre, e = items[k]
            if k == len(items) - 1:
                inner = f"Ok {e.text}"
            else:
                nxt = build(k + 1)
                inner = f"if {e.text} then ({nxt}) else {short}" if is_and else f"if {e.text} then {short} else ({nxt})"
            if k == 0:
                return inner
            return self.wrap_pre(rpre + e.pre, inner).replace("\n", " ")

        v = self.fresh("b")
        return E(v, Ty.B, items[0][1].pre + [(v, "(" + build(0) + ")")])

    # ---- statements
    def block(self, stmts, env, ret_ty_box, tail=None):
        if stmts and isinstance(stmts[0], (ast.Assign, ast.AnnAssign)):
            s = stmts[0]
            target = s.targets[0] if isinstance(s, ast.Assign) else s.target
            if isinstance(target, ast.Name) and isinstance(s.value, ast.Constant) and s.value.value is None:
                hint = self.none_hints.get((self.cur_func, target.id))
                if hint is None:
                    raise Unsupported(f"`{target.id} = None` in {self.cur_func} needs a type hint")
                env2 = dict(env)
                env2[target.id] = hint
                body = self.block(stmts[1:], env2, ret_ty_box, tail)
                return f"let {cname(target.id)} := (@None {ty_str(hint[1])}) in\n{body}"
            if isinstance(target, ast.Name) and target.id in env and is_opt(env[target.id]):
                # assignment to an optional variable keeps it optional
                e = self.expr(s.value, env)
                e = self.coerce_to(e, env[target.id]) if not is_opt(e.ty) or e.ty[1] is None else e
                body = self.block(stmts[1:], env, ret_ty_box, tail)
                return self.wrap_pre(e.pre, f"let {cname(target.id)} := {e.text} in\n{body}")
        if stmts and isinstance(stmts[0], ast.Assert):
            tf, _ = self.facts(stmts[0].test)
            if tf:
                c = self.as_b(self.expr(stmts[0].test, env))
                pre_t, env_t = self.refine(tf, env)
                body = self.wrap_pre(pre_t, self.block(stmts[1:], env_t, ret_ty_box, tail))
                return self.wrap_pre(c.pre, f"if {c.text} then\n{body}\nelse Err AssertFail")
        if stmts and isinstance(stmts[0], ast.If):
            return self.if_stmt(stmts[0], stmts[1:], env, ret_ty_box, tail)
        if stmts and isinstance(stmts[0], ast.Return) and stmts[0].value is not None:
            # coerce returns into an optional return type when needed
            if ret_ty_box.get("ty") is None and self.cur_func in self.ret_hints and "_probe" not in ret_ty_box:
                ret_ty_box["ty"] = self.ret_hints[self.cur_func]
            want = ret_ty_box.get("ty")
            if want is not None and is_opt(want):
                e = self.coerce_to(self.expr(stmts[0].value, env), want)
                return self.wrap_pre(e.pre, f"Ok {e.text}")
        return super().block(stmts, env, ret_ty_box, tail)

    def if_stmt(self, s, rest, env, ret_ty_box, tail):
        c = self.as_b(self.expr(s.test, env))
        tf, ff = self.facts(s.test)
        pre_t, env_t = self.refine(tf, env)
        pre_f, env_f = self.refine(ff, env)
        has_ret = self.contains_return(s.body) or self.contains_return(s.orelse)
        if has_ret or not rest:
            t = self.wrap_pre(pre_t, self.block(s.body + rest, env_t, ret_ty_box, tail))
            f = self.wrap_pre(pre_f, self.block(list(s.orelse) + rest, env_f, ret_ty_box, tail))
            return self.wrap_pre(c.pre, f"if {c.text} then\n{t}\nelse\n{f}")
        cand = self.assigned_vars([s])
        envs = []

        def probe(env_b):
            envs.append(env_b)
            return "Ok tt"

        saved = self.tmp
        self.block(s.body, env_t, {"ty": None}, probe)
        self.block(list(s.orelse), env_f, {"ty": None}, probe)
        self.tmp = saved
        vars_ = [v for v in cand if all(v in e_ for e_ in envs)]
        env2 = dict(env)
        for v in vars_:
            ty = envs[0][v]
            for e_ in envs[1:]:
                ty = self.unify(ty, e_[v])
                if ty is None:
                    raise Unsupported(f"variable {v} has incompatible types on branches")
            # a variable refined inside the branch but optional outside stays optional
            if v in env and is_opt(env[v]) and not is_opt(ty):
                ty = env[v]
            env2[v] = ty

        def join(env_b):
            if not vars_:
                return "Ok tt"
            parts = []
            for v in vars_:
                parts.append(self.coerce_to(E(cname(v), env_b[v]), env2[v]).text)
            return "Ok (" + ", ".join(parts) + ")"

        t = self.wrap_pre(pre_t, self.block(s.body, env_t, {"ty": None}, join))
        f = self.wrap_pre(pre_f, self.block(list(s.orelse), env_f, {"ty": None}, join))
        body = self.block(rest, env2, ret_ty_box, tail)
        if not vars_:
            pat = self.fresh("u")
        elif len(vars_) == 1:
            pat = cname(vars_[0])
        else:
            pat = "'(" + ", ".join(cname(v) for v in vars_) + ")"
        return self.wrap_pre(c.pre, f"{pat} <- (if {c.text} then\n{t}\nelse\n{f}) ;;\n{body}")

    def _translate_function(self, fname, fdef):
        saved = self.cur_func
        self.cur_func = fname
        try:
            return super()._translate_function(fname, fdef)
        finally:
            self.cur_func = saved
