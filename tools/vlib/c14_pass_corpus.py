"""C14 (pass level): corpus of Vyper contracts that drive the Venom passes.

Conventions (same as tools/vlib/c02_corpus.py, which is imported read-only and appended):
 * an entry is dict(name, src, helper, key); helper is None | "std" (c02 HELPER, deployed normally) | "bp"
   (BLUEPRINT_HELPER deployed as an ERC-5202 blueprint); a constructor argument of type address receives the helper;
 * nothing returned/logged depends on the byte code (no codesize/codehash/msg.gas), so observations are comparable
   across pipelines;
 * `key` (optional) is the known-finding key used when this program misbehaves.
Everything targets cancun (transient storage, mcopy).
"""
from vlib import c02_corpus as C2

CORPUS = []


def _add(name, src, helper=None, key=None, prio=1):
    CORPUS.append({"name": name, "src": src, "helper": helper, "key": key, "prio": prio})


# a blueprint whose constructor calls back into its creator (msg.sender) before returning
BLUEPRINT_HELPER = '''
interface Creator:
    def poke(x: uint256): nonpayable

val: public(uint256)

@deploy
def __init__(x: uint256):
    extcall Creator(msg.sender).poke(x)
    self.val = x

@external
@view
def get() -> uint256:
    return self.val
'''

# a callee whose *view* functions call back into the caller's public getters (re-entry through STATICCALL), and whose
# state-changing function calls back a setter
PEEK_HELPER = '''
interface Target:
    def x() -> uint256: view
    def t() -> uint256: view
    def arr(i: uint256) -> uint256: view
    def bump(v: uint256): nonpayable

@external
@view
def peek(target: address) -> uint256:
    return staticcall Target(target).x()

@external
@view
def peek_t(target: address) -> uint256:
    return staticcall Target(target).t()

@external
@view
def peek_arr(target: address, i: uint256) -> uint256:
    return staticcall Target(target).arr(i) + staticcall Target(target).x() * 1000

@external
def poke(target: address, v: uint256) -> uint256:
    extcall Target(target).bump(v)
    return staticcall Target(target).x()
'''

# a blueprint whose constructor READS its creator's storage / transient storage through the creator's getters, and (mode 2)
# calls back a nonreentrant function of the creator
BP_READ_HELPER = '''
interface Creator:
    def phase() -> uint256: view
    def tphase() -> uint256: view
    def locked_fn() -> uint256: nonpayable

saw: public(uint256)
tsaw: public(uint256)

@deploy
def __init__(mode: uint256):
    if mode == 2:
        extcall Creator(msg.sender).locked_fn()
    self.saw = staticcall Creator(msg.sender).phase()
    self.tsaw = staticcall Creator(msg.sender).tphase()

@external
@view
def seen() -> (uint256, uint256):
    return self.saw, self.tsaw
'''

# ---------------------------------------------------------------- regression (known finding iii)
_add("regress_loop_store_forwarding", '''
s1: uint256

@external
def f1(a1: uint256) -> uint256:
    self.s1 = a1
    for v0: uint8 in range(2):
        self.s1 += a1
    return self.s1
''', key="C14:venom:loop-store-forwarding", prio=0)

_add("regress_loop_load_forwarding", '''
s1: uint64

@external
def f0() -> uint64:
    v2: uint64 = self.s1
    for v1: uint256 in range(3):
        self.s1 ^= 1
    self.s1 *= v2
    return self.s1

@external
def f1(a: uint64) -> uint64:
    self.s1 = a
    v2: uint64 = self.s1
    for v1: uint256 in range(3):
        self.s1 ^= 1
    self.s1 *= v2 % 1000
    return self.s1
''', key="C14:venom:loop-load-forwarding", prio=0)

_add("static_callback", '''
interface Peek:
    def peek(target: address) -> uint256: view
    def peek_t(target: address) -> uint256: view
    def peek_arr(target: address, i: uint256) -> uint256: view
    def poke(target: address, v: uint256) -> uint256: nonpayable

o: public(address)
x: public(uint256)
t: public(transient(uint256))
arr: public(uint256[3])

@deploy
def __init__(helper: address):
    self.o = helper

@external
def bump(v: uint256):
    self.x += v

@external
def go(v: uint256) -> (uint256, uint256):
    self.x = 1
    r: uint256 = staticcall Peek(self.o).peek(self)
    self.x = 2 + v % 7
    return r, self.x

@external
def go_t(v: uint256) -> (uint256, uint256):
    self.t = 11
    r: uint256 = staticcall Peek(self.o).peek_t(self)
    self.t = 12 + v % 5
    q: uint256 = staticcall Peek(self.o).peek_t(self)
    self.t = 0
    return r, q

@external
def go_arr(i: uint256, v: uint256) -> (uint256, uint256):
    self.arr[i % 3] = v % 100 + 1
    self.x = 5
    r: uint256 = staticcall Peek(self.o).peek_arr(self, i % 3)
    self.arr[i % 3] = 0
    self.x = 6
    return r, staticcall Peek(self.o).peek_arr(self, (i + 1) % 3)

@external
def go_poke(v: uint256) -> (uint256, uint256):
    self.x = 3
    r: uint256 = extcall Peek(self.o).poke(self, v % 9)
    a: uint256 = self.x
    self.x = 4
    return r, a

@external
def go_raw(v: uint256) -> (uint256, uint256):
    self.x = 21
    res: Bytes[32] = raw_call(self.o, abi_encode(self, method_id=method_id("peek(address)")), max_outsize=32, is_static_call=True)
    self.x = 22 + v % 3
    return convert(res, uint256), self.x
''', helper="peek", prio=0)

_add("const_fold", '''
@external
@pure
def fold_se() -> (int8, int8, int16):
    a: int8 = -100
    b: int8 = -100
    c: int8 = 100
    d: int16 = -20000
    return unsafe_add(a, b), unsafe_add(c, c), unsafe_add(d, d)

@external
@pure
def fold_shl(k: uint256) -> (uint256, uint256, uint256):
    one: uint256 = 1
    n: uint256 = 2**200
    m: uint256 = 256
    s: uint256 = 255
    return (one << n) + k, one << m, (one << s) >> s

@external
@pure
def fold_misc(k: uint256) -> (uint256, int256, uint256, int256):
    a: uint256 = 7
    b: uint256 = 0
    c: int256 = -7
    d: int256 = 2
    e: int256 = min_value(int256)
    return unsafe_div(a, b) + a % 3 + k, unsafe_div(c, d), uint256_addmod(a, a, 4) + uint256_mulmod(a, a, 5) + b, (e >> 255) + (c >> 1)

@external
@pure
def fold_cmp() -> (bool, bool, bool, bool):
    a: int256 = -1
    b: int256 = 0
    c: uint256 = max_value(uint256)
    d: uint256 = 0
    return a < b, c > d, a > b, a == -1
''', prio=0)

# ---------------------------------------------------------------- loops with loop-carried storage / transient
_add("loop_storage", '''
total: public(uint256)
count: public(uint256)
hist: public(uint256[4])

@external
def accumulate(xs: DynArray[uint256, 6]) -> uint256:
    for x: uint256 in xs:
        self.total += x
        self.count += 1
    return self.total

@external
def fill(a: uint256) -> uint256:
    for i: uint256 in range(4):
        self.hist[i] = self.hist[(i + 3) % 4] + a + i
    return self.hist[0] + self.hist[3]

@external
def countdown(n: uint256) -> uint256:
    self.count = n
    r: uint256 = 0
    for i: uint256 in range(10):
        if self.count == 0:
            break
        self.count -= 1
        r += self.count
    return r

@external
def twice(a: uint256, b: uint256) -> uint256:
    self.total = b
    for i: uint256 in range(3):
        self.total = self.total * 2 + a
        if self.total > 1000:
            self.total = 7
    return self.total

@external
def nested(n: uint256) -> uint256:
    self.total = 1
    for i: uint256 in range(3):
        for j: uint256 in range(2):
            self.total += i * n + j
        self.count = self.total
    return self.total + self.count
''', prio=0)

_add("loop_transient", '''
t: transient(uint256)
tm: transient(HashMap[uint256, uint256])
s: public(uint256)

@external
def run(a: uint256, n: uint256) -> uint256:
    self.t = 3
    for i: uint256 in range(n, bound=6):
        self.t = self.t + a + i
        self.tm[i] = self.t
    self.s = self.t
    return self.tm[0] + self.tm[1] + self.t

@external
def mix(a: uint256) -> uint256:
    self.t = a
    self.s = a + 1
    x: uint256 = self.t
    self.t = self.s
    y: uint256 = self.t
    self.s = x
    return x * 1000 + y + self.s
''')

# ---------------------------------------------------------------- clamped types, literal-left / literal-right comparisons
_add("clamp_cmp", '''
@external
@pure
def u8(x: uint8) -> uint256:
    r: uint256 = 0
    if 5 < x:
        r += 1
    else:
        if x == 5:
            r += 10
        if x >= 5:
            r += 100
        if 5 <= x:
            r += 1000
    if 200 > x:
        r += 10000
    else:
        if x == 200:
            r += 100000
        if 200 == x:
            r += 1000000
    if 7 <= x:
        r += 10000000
    else:
        if x > 6:
            r += 100000000
        if x == 6:
            r += 1000000000
    if 250 >= x:
        r += 10000000000
    else:
        if x == 251:
            r += 100000000000
        if x < 252:
            r += 1000000000000
    return r

@external
@pure
def i8(x: int8) -> uint256:
    r: uint256 = 0
    if -3 < x:
        r += 1
    else:
        if x == -3:
            r += 10
        if x > -4:
            r += 100
    if 3 > x:
        r += 1000
    else:
        if x == 3:
            r += 10000
        if x <= 3:
            r += 100000
    if x < -3:
        r += 1000000
    else:
        if x == -3:
            r += 10000000
    if x > 100:
        r += 100000000
    else:
        if x == 100:
            r += 1000000000
        if 100 == x:
            r += 10000000000
    if 0 <= x:
        r += 100000000000
    else:
        if x == -1:
            r += 1000000000000
    return r

@external
@pure
def i128(x: int128, y: int128) -> int128:
    r: int128 = 0
    if 10 < x:
        r += 1
    else:
        if x == 10:
            r += 2
        if x + 1 > 10:
            r += 4
    if -10 > y:
        r += 8
    else:
        if y == -10:
            r += 16
        if y - 1 < -10:
            r += 32
    if x < y:
        r += 64
    else:
        if x == y:
            r += 128
    assert x > -1000 and x < 1000
    assert 1000 > y and -1000 < y
    if x * y > 999000:
        r += 256
    if x == 999:
        r += 512
    if y == -999:
        r += 1024
    return r

@external
@pure
def narrow_u8(x: uint8) -> uint256:
    r: uint256 = 0
    if 5 < x:
        r += 1
    else:
        if x >= 5:
            r += 100
        if x > 4:
            r += 1000
    if 200 > x:
        r += 10000
    else:
        if x <= 200:
            r += 100000
        if x < 201:
            r += 1000000
    return r

@external
@pure
def narrow_i8(x: int8) -> uint256:
    r: uint256 = 0
    if -3 < x:
        r += 1
    else:
        if x > -4:
            r += 100
    if 3 > x:
        r += 1000
    else:
        if x < 4:
            r += 10000
    return r

@external
@pure
def narrow_i128(x: int128) -> uint256:
    r: uint256 = 0
    if 1000 < x:
        r += 1
    else:
        if x >= 1000:
            r += 10
    if -1000 > x:
        r += 100
    else:
        if x <= -1000:
            r += 1000
    return r

@external
@pure
def narrow_assert(x: uint8) -> uint256:
    if 5 < x:
        return 1
    assert x < 5, "five"
    return 2

@external
@pure
def narrow_assert2(x: int128) -> uint256:
    if 7 > x:
        return 1
    assert x > 7
    return 2

@external
@pure
def u256(x: uint256) -> uint256:
    r: uint256 = 0
    if 1 > x:
        r += 1
    else:
        if x == 1:
            r += 2
    if 0 < x:
        r += 4
    else:
        if x == 0:
            r += 8
    if max_value(uint256) > x:
        r += 16
    else:
        if x == max_value(uint256):
            r += 32
    if 100 <= x:
        r += 64
    else:
        if x == 99:
            r += 128
        if x == 100:
            r += 256
    return r
''', prio=0)

_add("clamp_assert_ranges", '''
acc: public(int256)

@external
def bounded(x: uint8, y: uint8) -> uint256:
    assert x < 100, "x"
    assert 50 > y, "y"
    z: uint256 = convert(x, uint256) * 3 + convert(y, uint256)
    if z > 346:
        return 1
    if x == 99 and y == 49:
        return 2
    w: uint8 = x + y
    if w >= 148:
        return 3
    return z

@external
def signed(a: int8, b: int8) -> int256:
    assert a >= -100
    assert -100 <= b
    c: int256 = convert(a, int256) - convert(b, int256)
    if c < -227:
        return -1
    if a == -100:
        self.acc += 1
    if b == 127 and a == -100:
        self.acc += 10
    d: int8 = a // 2 + b // 2
    return c * 1000 + convert(d, int256) + self.acc

@external
@pure
def div_mod(a: int128, b: int128) -> (int128, int128):
    assert b != 0
    if b == -1 and a < 0:
        return -a, 0
    return a // b, a % b

@external
@pure
def chain(x: uint256) -> uint256:
    if x < 10:
        if x < 5:
            if x < 3:
                return 3
            if x == 3:
                return 33
            return 5
        if 7 > x:
            return 7
        if x == 7:
            return 77
        return 10
    if x > 1000:
        return 1000
    if 500 < x:
        if x == 501:
            return 501
        return 500
    if x == 500:
        return 555
    return x
''', prio=0)

# ---------------------------------------------------------------- ternary / bitwise / shifts
_add("ternary_bitwise", '''
flags: public(uint256)

@external
def tern(a: uint256, b: uint256, c: bool) -> uint256:
    x: uint256 = a if c else b
    y: uint256 = (a & b) if a > b else (a | b)
    z: uint256 = (a ^ b) if (a & 1) == 1 else ~a
    self.flags = (self.flags | (1 << (a % 256))) & ~(1 << (b % 256))
    return x + (y >> 1) + (z & 65535) + self.flags % 1000

@external
@pure
def shifts(a: uint256, n: uint256) -> (uint256, uint256, int256, int256):
    s: int256 = convert(a & (2**255 - 1), int256) - 2**254
    m: uint256 = n % 300
    return a << m, a >> m, s >> m, s << (m % 3)

@external
@pure
def masks(a: uint256) -> uint256:
    lo: uint256 = a & 255
    hi: uint256 = (a >> 248) & 255
    mid: uint256 = (a >> 8) & (2**64 - 1)
    r: uint256 = (lo << 8) | hi
    if (a & 0) == 0:
        r += 1
    if (a | 0) == a:
        r += 2
    if (a ^ a) == 0:
        r += 4
    if a * 1 == a // 1:
        r += 8
    return r + mid % 1000 * 16

@external
@pure
def signbits(x: int128) -> (int256, uint256, bool):
    y: int256 = convert(x, int256)
    u: uint256 = convert(y & 255, uint256)
    return -y, u, (y < 0) != (x > 0)
''')

# ---------------------------------------------------------------- memory arrays, DynArray, structs
_add("mem_arrays", '''
struct P:
    x: uint256
    y: int128
    f: bool

store: public(DynArray[uint256, 8])
ps: public(P[2])

@external
def sums(xs: uint256[4], k: uint256) -> (uint256, uint256[4]):
    ys: uint256[4] = xs
    t: uint256 = 0
    for i: uint256 in range(4):
        ys[i] = xs[(i + k) % 4] + i
        t += ys[i]
    zs: uint256[4] = ys
    zs[k % 4] = t
    return t, zs

@external
def dyn(xs: DynArray[uint256, 8], y: uint256) -> DynArray[uint256, 8]:
    out: DynArray[uint256, 8] = []
    for x: uint256 in xs:
        if x % 2 == 0:
            out.append(x + y)
    if len(out) > 0:
        out[0] = out[len(out) - 1]
    if len(out) > 2:
        out.pop()
    self.store = out
    for i: uint256 in range(8):
        if i >= len(self.store):
            break
        self.store[i] += i
    return self.store

@external
def structs(a: P, b: P) -> P:
    c: P = a
    if b.f:
        c = b
        c.x += a.x
    self.ps[0] = c
    self.ps[1] = P(x=c.x + 1, y=-c.y, f=not c.f)
    d: P = self.ps[1]
    d.y += self.ps[0].y
    return d

@external
@pure
def two_d(m: uint256[2][3], i: uint256, j: uint256) -> uint256:
    n: uint256[2][3] = m
    n[i % 3][j % 2] = 99
    t: uint256 = 0
    for r: uint256[2] in n:
        for v: uint256 in r:
            t = t * 3 + v
    return t
''')

_add("bytes_mem", '''
saved: public(Bytes[96])
h: public(bytes32)

@external
def cat(a: Bytes[40], b: Bytes[40]) -> Bytes[96]:
    c: Bytes[96] = concat(a, b"--", b)
    d: Bytes[96] = c
    self.saved = d
    self.h = keccak256(self.saved)
    e: Bytes[96] = self.saved
    return slice(e, 0, len(e))

@external
@view
def cut(start: uint256, n: uint256) -> (Bytes[96], uint256):
    b: Bytes[96] = self.saved
    c: Bytes[96] = slice(b, start, n)
    return c, len(b)

@external
@pure
def words(b: Bytes[64]) -> (uint256, bytes32, bytes4):
    c: Bytes[64] = concat(b, b"")
    x: uint256 = 0
    if len(c) >= 32:
        x = extract32(c, 0, output_type=uint256)
    y: bytes32 = keccak256(c)
    z: bytes4 = convert(slice(concat(c, b"abcd"), 0, 4), bytes4)
    return x, y, z

@external
@pure
def copies(a: Bytes[128]) -> (Bytes[128], bytes32):
    b: Bytes[128] = a
    c: Bytes[128] = b
    d: Bytes[128] = c
    e: Bytes[128] = b""
    if len(d) > 3:
        e = d
    return e, sha256(c)

@external
@view
def data_head(x: uint256) -> (Bytes[4], uint256):
    return slice(msg.data, 0, 4), len(msg.data) + x
''')

# ---------------------------------------------------------------- internal calls
_add("internal_calls", '''
struct S:
    a: uint256
    b: uint256

acc: public(uint256)

@internal
def _inc(x: uint256) -> uint256:
    self.acc += x
    return self.acc

@internal
@pure
def _pair(x: uint256, y: uint256) -> (uint256, uint256):
    return x + y, x * y

@internal
@pure
def _mk(x: uint256) -> S:
    return S(a=x, b=x + 1)

@internal
@pure
def _sum(xs: DynArray[uint256, 5]) -> uint256:
    t: uint256 = 0
    for x: uint256 in xs:
        t += x
    return t

@internal
@pure
def _rev(xs: DynArray[uint256, 5]) -> DynArray[uint256, 5]:
    out: DynArray[uint256, 5] = []
    for i: uint256 in range(5):
        if i >= len(xs):
            break
        out.append(xs[len(xs) - 1 - i])
    return out

@internal
@view
def _big(a: uint256, b: uint256, c: uint256, d: uint256, e: uint256, f: uint256) -> uint256:
    if a > b:
        return self._big2(b, a, c, d, e, f)
    return a + 2 * b + 3 * c + 4 * d + 5 * e + 6 * f + self.acc

@internal
@view
def _big2(a: uint256, b: uint256, c: uint256, d: uint256, e: uint256, f: uint256) -> uint256:
    return a * b + c * d + e * f + self.acc

@internal
def _fact(n: uint256) -> uint256:
    r: uint256 = 1
    for i: uint256 in range(1, 8):
        if i > n:
            break
        r *= i
    self.acc = r
    return r

@external
def run(x: uint256, y: uint256) -> uint256:
    a: uint256 = self._inc(x)
    b: uint256 = self._inc(y)
    p: uint256 = 0
    q: uint256 = 0
    p, q = self._pair(a % 1000, b % 1000)
    s: S = self._mk(p)
    return s.a + s.b + q + self.acc

@external
def arrays(xs: DynArray[uint256, 5]) -> (uint256, DynArray[uint256, 5]):
    t: uint256 = self._sum(xs)
    r: DynArray[uint256, 5] = self._rev(xs)
    t2: uint256 = self._sum(r)
    assert t == t2
    return t + self._inc(1), self._rev(r)

@external
def many(a: uint256, b: uint256) -> uint256:
    return self._big(a % 100, b % 100, 3, 4, 5, 6) + self._fact(a % 9)
''')

# ---------------------------------------------------------------- create with constructor callback (mutant i)
_add("create_callback", '''
interface Made:
    def get() -> uint256: view

slot: public(uint256)
tslot: transient(uint256)
bp: public(address)
last: public(address)

@deploy
def __init__(helper: address):
    self.bp = helper

@external
def poke(x: uint256):
    self.slot = x + 1
    self.tslot = x + 2

@external
def make(x: uint256) -> (uint256, uint256, uint256):
    self.slot = 1
    self.tslot = 5
    before: uint256 = self.slot
    a: address = create_from_blueprint(self.bp, x % 1000)
    after: uint256 = self.slot
    tafter: uint256 = self.tslot
    self.last = a
    return before * 1000000 + after, tafter, staticcall Made(a).get()

@external
def make2(x: uint256, salt: bytes32) -> uint256:
    self.slot = 7
    y: uint256 = self.slot + x % 10
    a: address = create_from_blueprint(self.bp, y, salt=keccak256(concat(salt, convert(self.slot, bytes32))))
    z: uint256 = self.slot
    self.slot = z + 1
    return self.slot * 100 + y

@external
def make_raw(x: uint256) -> uint256:
    self.slot = 3
    v: uint256 = self.slot
    a: address = create_from_blueprint(self.bp, x % 50, revert_on_failure=False)
    return v + self.slot * 10 + self.tslot * 1000
''', helper="bp", prio=0)

# the constructor of the created contract re-enters the creator and READS the slots written before the create
# (`__BPLEN__` is replaced by the length of the blueprint's initcode before compilation)
_add("create_reads_back", '''
interface Child:
    def seen() -> (uint256, uint256): view

bp: public(address)
phase: public(uint256)
tphase: public(transient(uint256))
n: public(uint256)

@deploy
def __init__(helper: address):
    self.bp = helper

@external
def make(x: uint256) -> (uint256, uint256):
    self.phase = 1
    self.tphase = 11
    child: address = create_from_blueprint(self.bp, convert(0, uint256))
    self.phase = 2 + x % 3
    self.tphase = 12
    a: uint256 = 0
    b: uint256 = 0
    a, b = staticcall Child(child).seen()
    return a, b

@external
def make_salt(x: uint256) -> (uint256, uint256, uint256):
    self.phase = 5
    self.tphase = 15
    child: address = create_from_blueprint(self.bp, convert(1, uint256), salt=convert(self.n, bytes32))
    self.n += 1
    self.phase = 6
    self.tphase = 0
    a: uint256 = 0
    b: uint256 = 0
    a, b = staticcall Child(child).seen()
    return a, b, self.phase

@external
def make_raw(x: uint256) -> (uint256, uint256):
    self.phase = 21
    self.tphase = 31
    initcode: Bytes[4096] = slice(self.bp.code, 3, __BPLEN__)
    child: address = raw_create(initcode, convert(0, uint256))
    self.phase = 22
    self.tphase = 32 + x % 2
    a: uint256 = 0
    b: uint256 = 0
    a, b = staticcall Child(child).seen()
    return a, b

@external
@nonreentrant
def locked_fn() -> uint256:
    self.n += 1
    return self.n

@external
@nonreentrant
def spawn() -> uint256:
    # the only external interaction is the create; its constructor calls back locked_fn while the lock is held
    child: address = create_from_blueprint(self.bp, convert(2, uint256))
    return self.n

@external
@nonreentrant
def spawn_soft() -> (bool, uint256):
    child: address = create_from_blueprint(self.bp, convert(2, uint256), revert_on_failure=False)
    return child == empty(address), self.n

@external
def spawn_unlocked() -> uint256:
    child: address = create_from_blueprint(self.bp, convert(2, uint256))
    return self.n
''', helper="bpr", prio=0)

_add("call_callback", C2._IFACE + '''
helper: public(Helper)
x: public(uint256)
t: transient(uint256)

@deploy
def __init__(helper: address):
    self.helper = Helper(helper)

@external
def reenter(v: uint256) -> uint256:
    self.x += v
    self.t += v
    return self.x

@external
def go(v: uint256) -> (uint256, uint256, uint256):
    self.x = 10
    self.t = 1
    a: uint256 = self.x
    r: uint256 = extcall self.helper.callback(self, v % 1000)
    b: uint256 = self.x
    c: uint256 = self.t
    return a * 10000 + b, c, r

@external
def go_raw(v: uint256) -> (uint256, bool):
    self.x = 20
    a: uint256 = self.x
    ok: bool = False
    res: Bytes[32] = b""
    ok, res = raw_call(self, abi_encode(v % 1000, method_id=method_id("reenter(uint256)")), max_outsize=32, revert_on_failure=False)
    return a * 10000 + self.x, ok

@external
def proxy(v: uint256) -> uint256:
    self.x = 5
    a: address = create_minimal_proxy_to(self.helper.address)
    extcall Helper(a).store(v)
    b: address = create_copy_of(self.helper.address)
    return self.x + staticcall Helper(a).get() + staticcall Helper(b).get()

@external
def static_then(v: uint256) -> uint256:
    self.x = v % 77
    s: uint256 = staticcall self.helper.add(self.x, 1)
    return s + self.x
''', helper="std", prio=0)

# ---------------------------------------------------------------- nonreentrant + hashmaps
_add("lock_maps", '''
bal: public(HashMap[address, uint256])
allow: public(HashMap[address, HashMap[address, uint256]])
names: HashMap[bytes32, uint256]
n: public(uint256)

@external
@nonreentrant
def deposit(a: uint256) -> uint256:
    self.bal[msg.sender] += a
    self.n += 1
    return self.bal[msg.sender]

@external
@nonreentrant
def move(to: address, a: uint256) -> (uint256, uint256):
    assert self.bal[msg.sender] >= a, "insufficient"
    self.bal[msg.sender] -= a
    self.bal[to] += a
    return self.bal[msg.sender], self.bal[to]

@external
def approve(to: address, a: uint256) -> uint256:
    self.allow[msg.sender][to] = a
    self.allow[to][msg.sender] += 1
    return self.allow[msg.sender][to] + self.allow[to][msg.sender]

@external
@nonreentrant
def named(s: String[12], v: uint256) -> uint256:
    k: bytes32 = keccak256(s)
    old: uint256 = self.names[k]
    self.names[k] = v
    return old + self.names[keccak256(s)]

@external
@view
@nonreentrant
def peek(a: address) -> uint256:
    return self.bal[a] + self.n
''')

# ---------------------------------------------------------------- dead stores, CSE, load elimination shapes
_add("store_shapes", '''
a: public(uint256)
b: public(uint256)
arr: public(uint256[3])
m: HashMap[uint256, uint256]

@external
def dead(x: uint256) -> uint256:
    self.a = 1
    self.a = x
    self.b = self.a
    self.a = self.b + 1
    t: uint256 = self.a
    self.a = 2
    return t + self.b

@external
def alias(i: uint256, j: uint256, x: uint256) -> uint256:
    self.arr[i % 3] = x
    y: uint256 = self.arr[j % 3]
    self.arr[j % 3] = y + 1
    z: uint256 = self.arr[i % 3]
    return y * 1000 + z

@external
def cse(x: uint256) -> uint256:
    p: uint256 = self.a + x
    self.a = p
    q: uint256 = self.a + x
    r: uint256 = self.m[x] + self.m[x]
    self.m[x] = r + 1
    s: uint256 = self.m[x] + self.m[x]
    return p + q * 3 + r * 5 + s * 7

@external
def cond(x: uint256) -> uint256:
    self.a = x
    if x > 10:
        self.a = 5
        if x > 20:
            raise "big"
    else:
        self.b = self.a
    self.b += self.a
    return self.b

@external
def memdead(x: uint256) -> uint256:
    buf: uint256[4] = [1, 2, 3, 4]
    buf[0] = x
    buf[0] = x + 1
    y: uint256 = buf[x % 4]
    buf[1] = y
    buf = [9, 8, 7, 6]
    return y + buf[x % 4]
''', prio=0)

_add("branches", '''
@external
@pure
def ladder(x: uint256, y: uint256) -> uint256:
    r: uint256 = 0
    if x == 0:
        r = 1
    elif x == 1:
        r = 2
    elif not (x < 5):
        r = 3
    else:
        r = 4
    if not (x == y):
        r += 10
    if x != 0 and y != 0:
        r += 100
    if x == 0 or y == 0:
        r += 1000
    if (x > y) == (y > x):
        r += 10000
    return r

@external
@pure
def rev(x: uint256) -> uint256:
    if x == 1:
        raise "one"
    if x == 2:
        raise "two"
    if x == 3:
        raise
    assert x != 4
    assert x != 5, "five"
    if x > 100:
        if x > 200:
            raise "one"
        raise "two"
    return x

@external
@pure
def sel(a: bool, b: bool, c: bool) -> uint256:
    if a:
        if b:
            return 1
        if c:
            return 2
        return 3
    if b and c:
        return 4
    if b or c:
        return 5
    return 6

@external
@pure
def unreachable_ok(x: uint256) -> uint256:
    assert x < 2**128, UNREACHABLE
    return x + 1
''')

_add("math_builtins", '''
@external
@pure
def f(a: uint256, b: uint256, c: uint256) -> (uint256, uint256, uint256, uint256):
    m: uint256 = max(c, 1)
    return uint256_addmod(a, b, m), uint256_mulmod(a, b, m), a // m, pow_mod256(a % 7, b % 300)

@external
@pure
def g(a: int256, b: int256) -> (int256, int256, int256):
    assert a > min_value(int256)
    return abs(a), min(a, b), max(a, b)

@external
@pure
def h(a: uint256, b: uint256) -> (uint256, uint256, uint256):
    x: uint256 = a % 1000
    y: uint256 = b % 5
    return x ** 3, 2 ** (b % 256), unsafe_add(a, b) + unsafe_mul(a, 3) + y

@external
@pure
def conv(a: uint256, b: int256) -> (uint8, int8, uint128, int128, bytes32, bool):
    return convert(a % 256, uint8), convert(b % 128, int8), convert(a % 2**128, uint128), convert(b % 2**127, int128), convert(a, bytes32), convert(a % 2, bool)

@external
@pure
def dec(a: int128, b: int128) -> (int256, int256):
    x: int256 = convert(a, int256) * 1000 // 7
    y: int256 = convert(b, int256)
    if y == 0:
        y = 1
    return x // y, x % y
''')

_add("uint8_loops", '''
tbl: public(uint8[8])

@external
def steps(n: uint8, k: uint8) -> uint256:
    t: uint256 = 0
    for i: uint8 in range(n, bound=8):
        self.tbl[i] = i * k % 7
        t += convert(self.tbl[i], uint256)
    for i: uint8 in range(2, 6):
        t = t * 2 + convert(i, uint256)
    return t

@external
@view
def find(v: uint8) -> int256:
    for i: uint256 in range(8):
        if self.tbl[i] == v:
            return convert(i, int256)
    return -1

@external
@pure
def cont(n: uint256) -> uint256:
    t: uint256 = 0
    for i: uint256 in range(12):
        if i % 3 == 0:
            continue
        if i > n:
            break
        t += i
    return t
''')

_add("immut_ctor", '''
A: immutable(uint256)
B: immutable(address)
C: constant(uint256) = 12345678901234567890123456789012345678901234567890
tab: public(uint256[3])
owner: public(address)

@deploy
def __init__():
    A = 77
    B = msg.sender
    self.owner = msg.sender
    for i: uint256 in range(3):
        self.tab[i] = i * C % 1000

@external
@view
def get(i: uint256) -> (uint256, address, uint256):
    return A + self.tab[i % 3], B, C % (A + i + 1)

@external
def set_owner(a: address) -> bool:
    assert msg.sender == self.owner or msg.sender == B
    self.owner = a
    return a == B
''')

_add("literals", '''
@external
@pure
def f(x: uint256) -> uint256:
    a: uint256 = x & (max_value(uint256) - (2**128 - 1))
    b: uint256 = x & (2**128 - 1)
    c: uint256 = x | (255 * 2**248)
    d: uint256 = max_value(uint256) - x
    e: uint256 = (x % 2**64) * 2**192
    return (a >> 128) + b % 1000 + (c >> 250) + d % 7 + (e >> 200)

@external
@pure
def g(x: int256) -> int256:
    if x > 2**127 - 1:
        return max_value(int256) - x
    if x < -2**127:
        return min_value(int256) - x
    return x * 2**100 + (-1)

@external
@pure
def k(x: bytes32) -> (bytes32, bytes4, uint256):
    m: bytes32 = 0xffffffff00000000000000000000000000000000000000000000000000000000
    return x & m, convert(x, bytes4), convert(x, uint256) % (2**255 - 19)
''')

# a ternary whose arms are memory-typed values (a pointer phi at the join), the result stored / iterated / passed on:
# BasePtrAnalysis must keep the facts of the phi wherever it is live (fixed in 22a36b2: DSE deleted one arm's initialisation)
_add("ternary_memory", '''
sa: public(uint256[3])
sb: public(Bytes[64])
ss: public(String[40])
ta: transient(uint256[3])
ma: public(HashMap[uint256, uint256[3]])
mb: public(HashMap[uint256, Bytes[64]])
dyn: public(DynArray[uint256, 4])

@internal
@pure
def _sum(a: uint256[3]) -> uint256:
    return a[0] + 2 * a[1] + 3 * a[2]

@internal
@pure
def _blen(b: Bytes[64]) -> uint256:
    return len(b) * 1000 + convert(slice(concat(b, b"x"), 0, 1), uint256)

@external
def set_arr(b: bool, p: uint256[3], q: uint256[3]) -> uint256:
    self.sa = p if b else q
    return self.sa[0] + self.sa[2]

@external
def set_arr_mem(b: bool, x: uint256) -> uint256:
    p: uint256[3] = [x, x // 2, x // 3]
    q: uint256[3] = [7, 8, 9]
    self.sa = p if b else q
    return self.sa[0] + self.sa[1] * 16 + self.sa[2] * 256

@external
def set_bytes(b: bool, p: Bytes[64], q: Bytes[64]) -> uint256:
    self.sb = p if b else q
    return len(self.sb)

@external
def set_bytes_mem(b: bool, x: uint256) -> Bytes[64]:
    p: Bytes[64] = concat(convert(x, bytes32), b"left")
    q: Bytes[64] = b"right arm"
    self.sb = p if b else q
    return self.sb

@external
def set_string(b: bool) -> String[40]:
    p: String[40] = "the left arm of the ternary"
    q: String[40] = "right"
    self.ss = p if b else q
    return self.ss

@external
def set_transient(b: bool, x: uint256) -> uint256:
    p: uint256[3] = [x, x // 2 + 1, 3]
    q: uint256[3] = [11, 12, x]
    self.ta = p if b else q
    return self.ta[0] + self.ta[1] * 16 + self.ta[2] * 256

@external
def set_map(b: bool, k: uint256, p: uint256[3], x: uint256) -> uint256:
    q: uint256[3] = [x, 5, 6]
    self.ma[k] = p if b else q
    r: Bytes[64] = concat(convert(x, bytes32), b"!")
    self.mb[k] = r if not b else b"short"
    return self.ma[k][0] + self.ma[k][1] + len(self.mb[k])

@external
def set_dyn(b: bool, p: DynArray[uint256, 4], x: uint256) -> uint256:
    q: DynArray[uint256, 4] = [x, x // 2]
    self.dyn = p if b else q
    return len(self.dyn)

@external
@pure
def iterate(b: bool, p: uint256[3], x: uint256) -> uint256:
    q: uint256[3] = [x, x // 2, 1]
    r: uint256[3] = p if b else q
    t: uint256 = 0
    for v: uint256 in r:
        t = (t * 3 + v) % 1000003
    return t

@external
@pure
def iterate_dyn(b: bool, p: DynArray[uint256, 4], x: uint256) -> uint256:
    q: DynArray[uint256, 4] = [x, 1, 2]
    t: uint256 = 0
    for v: uint256 in (p if b else q):
        t = (t * 3 + v) % 1000003
    return t

@external
@pure
def pass_on(b: bool, p: uint256[3], x: uint256) -> uint256:
    q: uint256[3] = [x, 1, 2]
    return self._sum(p if b else q) % 1000003

@external
@pure
def pass_on_bytes(b: bool, p: Bytes[64], x: uint256) -> uint256:
    q: Bytes[64] = concat(convert(x, bytes32), b"q")
    return self._blen(p if b else q)
''', prio=0)

_add("overflow_paths", '''
@external
@pure
def add_chain(a: uint256, b: uint256) -> uint256:
    assert a < 2**64
    assert b < 2**64
    c: uint256 = a + b
    d: uint256 = c * 2
    e: uint256 = d - a
    return e + 1

@external
@pure
def sub_mod(a: uint256, b: uint256) -> uint256:
    return (a % 100) - (b % 50)

@external
@pure
def add_mod(a: uint8, b: uint8) -> uint8:
    return (a % 128) + (b % 128)

@external
@pure
def sub_guard(a: uint256, b: uint256) -> uint256:
    if a >= b:
        return a - b
    return b - a

@external
@pure
def idx(xs: uint256[5], i: uint256) -> uint256:
    if i < 5:
        return xs[i]
    if i < 10:
        return xs[i - 5]
    return xs[i % 5] + xs[(i + 1) % 5]

@external
@pure
def i8ops(a: int8, b: int8) -> (int8, int8):
    c: int8 = 0
    if a > 0 and b > 0 and a < 60 and b < 60:
        c = a + b
    d: int8 = 0
    if a != min_value(int8):
        d = -a
    return c, d

@external
@pure
def u8mul(a: uint8, b: uint8) -> uint8:
    if a < 16 and b < 16:
        return a * b
    return a // max(b, 1)
''', prio=0)

_add("many_selectors", "\n".join(f'''
@external
def fn{i}(x: uint256) -> uint256:
    self.v = self.v + x + {i}
    return self.v * {i + 1}
''' for i in range(14)).replace("\n@external\ndef fn0", "v: public(uint256)\n\n@external\ndef fn0", 1) + '''
@external
@payable
def __default__():
    self.v += msg.value + len(msg.data)
''')

_add("tail_paths", '''
owner: address
v: public(uint256)

@deploy
def __init__():
    self.owner = msg.sender

@external
def a(x: uint256) -> uint256:
    assert msg.sender == self.owner, "owner"
    assert x != 0, "zero"
    self.v = x
    return self.v

@external
def b(x: uint256) -> uint256:
    assert msg.sender == self.owner, "owner"
    assert x != 0, "zero"
    self.v += x
    return self.v

@external
def c(x: uint256) -> uint256:
    if msg.sender != self.owner:
        raise "owner"
    if x == 0:
        raise "zero"
    self.v -= x
    return self.v
''')

_add("mem2var_shapes", '''
@external
@pure
def swap(a: uint256, b: uint256, n: uint256) -> (uint256, uint256):
    x: uint256 = a
    y: uint256 = b
    for i: uint256 in range(n, bound=5):
        t: uint256 = x
        x = y
        y = t + i
    return x, y

@external
@pure
def cond_init(a: uint256) -> uint256:
    x: uint256 = 0
    y: uint256 = 1
    if a > 5:
        x = a
        if a > 10:
            y = x
    else:
        y = a
    z: uint256 = x + y
    if a % 2 == 0:
        z = z * 2
        x = z
    return x + y + z

@external
@pure
def arr_ptr(a: uint256, i: uint256) -> uint256:
    xs: uint256[3] = [a, a + 1, a + 2]
    j: uint256 = i % 3
    y: uint256 = xs[j]
    xs[(j + 1) % 3] = y * 2
    k: uint256 = xs[0] + xs[1] + xs[2]
    return k + y
''')

_add("calldata_shapes", '''
@external
@pure
def f(a: DynArray[uint256, 4], b: Bytes[33], c: uint256[2]) -> (uint256, uint256, uint256):
    t: uint256 = c[0] + c[1]
    for x: uint256 in a:
        t += x
    return t, len(b), len(a)

@external
@view
def sz() -> (uint256, bytes32):
    n: uint256 = len(msg.data)
    return n, keccak256(slice(msg.data, 0, 4))

@external
@pure
def nested(a: DynArray[DynArray[uint8, 3], 3]) -> uint256:
    t: uint256 = 0
    for r: DynArray[uint8, 3] in a:
        for v: uint8 in r:
            t = t * 7 + convert(v, uint256)
    return t

@external
@pure
def strs(s: String[20], t: String[20]) -> (String[41], bool):
    return concat(s, "|", t), keccak256(s) == keccak256(t)
''')

_add("events_raw", '''
event A:
    x: indexed(uint256)
    y: uint256
    b: Bytes[32]

event B:
    pass

n: public(uint256)

@external
def emit(x: uint256, b: Bytes[32]) -> uint256:
    self.n += 1
    log A(x=x, y=self.n, b=b)
    if x % 2 == 0:
        log B()
    raw_log([keccak256(b), convert(x, bytes32)], b)
    self.n += 1
    log A(x=self.n, y=x, b=slice(b, 0, min(len(b), 3)))
    return self.n

@external
def emit_loop(k: uint256):
    for i: uint256 in range(k, bound=4):
        self.n += i
        log A(x=i, y=self.n, b=b"")
''')

# ---------------------------------------------------------------- imported corpus (C02), with its helper
for _c in C2.CORPUS:
    CORPUS.append({"name": "c02_" + _c["name"], "src": _c["src"],
                   "helper": "std" if "def __init__(helper: address)" in _c["src"] else None,
                   "key": None, "prio": 2})

HELPERS = {"std": (C2.HELPER, False), "bp": (BLUEPRINT_HELPER, True), "peek": (PEEK_HELPER, False), "bpr": (BP_READ_HELPER, True)}


def select(tier, rnd):
    """quick: all priority-0 programs, a seeded sample of the rest; thorough: everything."""
    if tier == "thorough":
        return list(CORPUS)
    p0 = [c for c in CORPUS if c["prio"] == 0]
    p1 = [c for c in CORPUS if c["prio"] == 1]
    p2 = [c for c in CORPUS if c["prio"] == 2]
    return p0 + rnd.sample(p1, min(len(p1), 5)) + rnd.sample(p2, min(len(p2), 4))
