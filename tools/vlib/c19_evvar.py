"""C19: multi-module programs in which the same event / error NAME is declared in several modules as VARIANTS of one base
declaration: identical, differently indexed (same name, same argument types: same topic0), differently named fields (same
topic0 / selector), both, or differently typed.  Every declaration is emitted / raised from reachable code of its own module
(through an internal function called by main, or through an exported external function).  The result has the shape which
`tools/checks/c19.py: drive_modules` consumes (src, files, calls, expected) plus `blocks`: the declarations that the
`# Events` / `# Errors` sections of the `interface` output must contain.

Why a separate generator: `c19_gen.gen_module_events` draws the fields of same-named declarations independently from 12
types, so two DIFFERENT declarations with equal name + argument types (equal topic0 / selector) practically never occur;
anything that identifies an event by its event id (and not by the declaration) was invisible."""
from vlib.c19_gen import ME_TYPES, abi_canon, ann

INDEXABLE = ("int", "bool", "address", "bytesM")
EV_NAMES = ["Moved", "Ping", "Note", "Transfer"]
ER_NAMES = ["Denied", "Bad"]
VARIANTS = ["identical", "reindexed", "renamed", "reindexed+renamed", "retyped"]
# field-name families: the base uses family 0
FAMILIES = [["who", "amount", "memo"], ["sender", "value", "data"], ["a0", "a1", "a2"]]


def _layouts(fields):
    """boundary-biased `indexed` layouts of a field list: none, all (at most 3), each single one, all but one"""
    idxable = [i for i, (_, t) in enumerate(fields) if t[0] in INDEXABLE]
    outs = [frozenset(), frozenset(idxable[:3])]
    outs += [frozenset([i]) for i in idxable]
    outs += [frozenset(idxable[:3]) - {i} for i in idxable[:3]]
    seen, res = set(), []
    for o in outs:
        if o not in seen:
            seen.add(o)
            res.append(o)
    return res


def gen_event_variants(rnd):
    nmod = rnd.randint(2, 3)
    names = [("event", n) for n in rnd.sample(EV_NAMES, rnd.randint(1, 2))] + [("error", n) for n in rnd.sample(ER_NAMES, 1)]
    mods = [{"name": f"l{m}", "decls": []} for m in range(nmod)]
    for kind, nm in names:
        nf = rnd.randint(1, 3)
        base = [(FAMILIES[0][j], rnd.choice(ME_TYPES)) for j in range(nf)]
        if kind == "event" and not any(t[0] in INDEXABLE for _, t in base):
            j = rnd.randrange(nf)
            base[j] = (base[j][0], rnd.choice([t for t in ME_TYPES if t[0] in INDEXABLE]))
        lays = _layouts(base) if kind == "event" else [frozenset()]
        base_lay = rnd.choice(lays)
        # every name gets at least one variant which shares the id (topic0 / selector) with the base and differs from it
        order = list(range(nmod))
        rnd.shuffle(order)
        forced = rnd.choice(["reindexed", "renamed", "reindexed+renamed"] if kind == "event" and len(lays) > 1 else ["renamed"])
        for pos, m in enumerate(order):
            v = "base" if pos == 0 else forced if pos == 1 else rnd.choice(VARIANTS)
            fields, lay = list(base), base_lay
            if v == "retyped":
                j = rnd.randrange(nf)
                fields[j] = (fields[j][0], rnd.choice([t for t in ME_TYPES if t != fields[j][1]]))
                lay = frozenset(i for i in lay if fields[i][1][0] in INDEXABLE)
            if "reindexed" in v and kind == "event":
                others = [x for x in lays if x != base_lay]
                if others:
                    lay = rnd.choice(others)
            if "renamed" in v:
                fam = rnd.choice(FAMILIES[1:])
                if rnd.random() < 0.5:      # all fields renamed / only one
                    fields = [(fam[j], t) for j, (_, t) in enumerate(fields)]
                else:
                    j = rnd.randrange(nf)
                    fields[j] = (fam[j], fields[j][1])
            mods[m]["decls"].append({"kind": kind, "name": nm, "mod": m, "variant": v,
                                     "fields": [(n, t, (i in lay) and kind == "event") for i, (n, t) in enumerate(fields)]})

    def sig(d):
        return d["name"] + "(" + ",".join(abi_canon(t) for _, t, _ in d["fields"]) + ")"

    def params(d):
        # parameter names are independent of the field names (`value` is a legal field name but not a legal parameter)
        return ", ".join(f"p{j}: {ann(t)}" for j, (_, t, _) in enumerate(d["fields"]))

    def kwargs(d):
        return ", ".join(f"{n}=p{j}" for j, (n, _, _) in enumerate(d["fields"]))

    def argnames(d):
        return ", ".join(f"p{j}" for j in range(len(d["fields"])))

    def decl_src(d):
        if d["kind"] == "event":
            return f"event {d['name']}:\n" + "".join(f"    {n}: {'indexed(' + ann(t) + ')' if ix else ann(t)}\n" for n, t, ix in d["fields"])
        return f"error {d['name']}:\n" + "".join(f"    {n}: {ann(t)}\n" for n, t, _ in d["fields"])

    def act(d):
        return f"log {d['name']}({kwargs(d)})" if d["kind"] == "event" else f"raise {d['name']}({kwargs(d)})"

    files, entry = {}, []      # entry: (text of main's external function or None, exported name or None, decl)
    for M in mods:
        src = [decl_src(d) for d in M["decls"]]
        for d in M["decls"]:
            fn = f"{M['name']}_{d['kind']}_{d['name']}"
            if rnd.random() < 0.3:
                d["exported"] = fn
                src.append(f"@external\ndef {fn}({params(d)}):\n    {act(d)}\n")
            else:
                d["exported"] = None
                src.append(f"@internal\ndef {fn}({params(d)}):\n    {act(d)}\n")
            entry.append(d)
        files[f"{M['name']}.vy"] = "\n".join(src)
    local = {"kind": "event", "name": "Local", "mod": None, "variant": "local", "exported": None,
             "fields": [("who", ("address",), rnd.random() < 0.5), ("amount", ("int", False, 256), rnd.random() < 0.5)]}
    # the order of main's entry points decides which declaration is reached first
    rnd.shuffle(entry)
    main = [f"import {M['name']}\n" for M in mods]
    exported = [d for d in entry if d["exported"]]
    if exported:
        main.append("exports: (" + ", ".join(f"l{d['mod']}.{d['exported']}" for d in exported) + ")\n")
    main.append(decl_src(local))
    calls = []
    k = 0
    for d in [local] + entry:
        if d["exported"]:
            fn = d["exported"]
        else:
            fn = f"c{k}"
            k += 1
            body = act(d) if d["mod"] is None else f"l{d['mod']}.l{d['mod']}_{d['kind']}_{d['name']}({argnames(d)})"
            main.append(f"@external\ndef {fn}({params(d)}):\n    {body}\n")
        calls.append({"fn": fn, "decl": d, "sig": sig(d),
                      "fsig": fn + "(" + ",".join(abi_canon(t) for _, t, _ in d["fields"]) + ")"})
    # some declarations are reached a second time, through another entry point (the listed set must not grow)
    again = []
    for d in entry:
        if not d["exported"] and rnd.random() < 0.3:
            fn = f"c{k}"
            k += 1
            main.append(f"@external\ndef {fn}({params(d)}):\n    l{d['mod']}.l{d['mod']}_{d['kind']}_{d['name']}({argnames(d)})\n")
            calls.append({"fn": fn, "decl": d, "sig": sig(d),
                          "fsig": fn + "(" + ",".join(abi_canon(t) for _, t, _ in d["fields"]) + ")"})
            again.append(d)
    rnd.shuffle(calls)
    # input of the Coq model (coq/C19/EventSet.v): declarations with an identity, in reachability order: exported functions
    # first (order of the `exports:` line), then main's external functions in source order
    for u, d in enumerate([local] + [d for M in mods for d in M["decls"]]):
        d["uid"] = u
    reach = exported + [d for d in [local] + entry if not d["exported"]] + again
    model = {"local_ev": [local], "emitted_ev": [d for d in reach if d["kind"] == "event"],
             "local_er": [], "raised_er": [d for d in reach if d["kind"] == "error"]}
    expected = {"event": set(), "error": set()}
    blocks = {"event": set(), "error": set()}
    for d in [local] + entry:
        ixs = tuple(bool(ix) for _, _, ix in d["fields"]) if d["kind"] == "event" else ()
        expected[d["kind"]].add((sig(d), tuple(n for n, _, _ in d["fields"]), ixs))
        blocks[d["kind"]].add((d["name"], tuple((n, ann(t), bool(ix)) for n, t, ix in d["fields"])))
    return {"src": "\n".join(main), "files": files, "calls": calls, "expected": expected, "blocks": blocks, "model": model,
            "variants": sorted({d["variant"] for d in entry})}


def parse_decl_blocks(text):
    """{"event": {(name, ((field, type, indexed), ...))}, "error": {...}} of the event / error blocks of an interface text"""
    import re
    out = {"event": set(), "error": set()}
    cur = None
    lines = text.splitlines() + [""]
    for l in lines:
        m = re.match(r"^(event|error) (\w+):\s*$", l)
        if m:
            if cur:
                out[cur[0]].add((cur[1], tuple(cur[2])))
            cur = [m.group(1), m.group(2), []]
        elif cur is not None and l.startswith(" ") and l.strip():
            s = l.strip()
            if s == "pass":
                continue
            n, t = [x.strip() for x in s.split(":", 1)]
            mi = re.fullmatch(r"indexed\((.*)\)", t)
            cur[2].append((n, mi.group(1) if mi else t, bool(mi)))
        elif l.strip():
            if cur:
                out[cur[0]].add((cur[1], tuple(cur[2])))
            cur = None
    if cur:
        out[cur[0]].add((cur[1], tuple(cur[2])))
    return out


def coq_decl(d):
    fs = "; ".join(f'mkfield "{n}" "{abi_canon(t)}" {"true" if ix else "false"}' for n, t, ix in d["fields"])
    return f'(mkdecl {d["uid"]} "{d["name"]}" [{fs}])'


def coq_abi_part(model):
    ls = ["[" + "; ".join(coq_decl(d) for d in model[k]) + "]" for k in ("local_ev", "emitted_ev", "local_er", "raised_er")]
    return "show_part (abi_part " + " ".join(ls) + ")"


def show_real_part(abi, jsig):
    """the event / error entries of the real ABI json, printed like EventSet.show_part"""
    out = []
    for e in abi:
        if e["type"] in ("event", "error"):
            out.append(e["name"] + "(" + ",".join(i["name"] + ":" + jsig(i) + ("!" if i.get("indexed") else "") for i in e["inputs"]) + ")")
    return ";".join(out)
