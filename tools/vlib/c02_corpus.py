"""C02 feature corpus: small Vyper contracts covering language features outside the VyCore fragment."""
# Conventions:
#  * HELPER is deployed first; any corpus contract whose constructor is `def __init__(helper: address)` receives its
#    address (ABI-encoded, appended to the initcode).  All other contracts have no constructor arguments.
#  * min_evm == "cancun" marks contracts that need transient storage (skip london/paris/shanghai configs).
#  * No contract returns or logs anything that depends on the *bytecode* of a contract (codesize, codehash, msg.gas,
#    CREATE2 address of a code copy), so (ok, returndata, logs) are comparable across compiler configurations.
#  * decimals: compiled with enable_decimals=True (the default of vlib.configs.Config); ABI type fixed168x10.

HELPER = '''
# callee used by the corpus: every state-changing entry point logs, so outgoing calls are recorded
interface Reenter:
    def reenter(x: uint256) -> uint256: nonpayable

interface Observed:
    def seen() -> uint256: view
    def seen_t() -> uint256: view
    def note(tag: uint256) -> uint256: nonpayable

event Called:
    sender: address
    x: uint256

event Paid:
    sender: address
    value: uint256

event Fallback:
    sender: address
    value: uint256
    datalen: uint256

stored: public(uint256)
ncalls: public(uint256)

@external
@pure
def add(a: uint256, b: uint256) -> uint256:
    return a + b

@external
def store(x: uint256):
    self.stored = x
    self.ncalls += 1
    log Called(sender=msg.sender, x=x)

@external
@view
def get() -> uint256:
    return self.stored

@external
def fail():
    raise "helper failed"

@external
@view
def ret_bytes(n: uint256) -> Bytes[64]:
    b: Bytes[64] = b"0123456789abcdefghijklmnopqrstuvwxyzABCDEFGHIJKLMNOPQRSTUVWXYZ+/"
    return slice(b, 0, n)

@external
@view
def pair(x: uint256) -> (uint256, bool):
    return x + self.stored, x % 2 == 0

@external
@payable
def pay() -> uint256:
    self.ncalls += 1
    log Paid(sender=msg.sender, value=msg.value)
    return msg.value

@external
def callback(target: address, x: uint256) -> uint256:
    r: uint256 = extcall Reenter(target).reenter(x)
    log Called(sender=target, x=r)
    return r

@external
def forward(target: address, data: Bytes[100]) -> Bytes[64]:
    log Called(sender=target, x=len(data))
    return raw_call(target, data, max_outsize=64)

@external
@view
def peek(target: address) -> uint256:
    # calls back into the CALLER's public view function while the caller is in the middle of its own function
    return staticcall Observed(target).seen()

@external
@view
def peek_t(target: address) -> uint256:
    return staticcall Observed(target).seen_t()

@external
def poke(target: address, tag: uint256) -> uint256:
    r: uint256 = extcall Observed(target).note(tag)
    log Called(sender=target, x=r)
    return r

@external
@payable
def __default__():
    log Fallback(sender=msg.sender, value=msg.value, datalen=len(msg.data))
'''

_IFACE = '''
interface Helper:
    def add(a: uint256, b: uint256) -> uint256: pure
    def store(x: uint256): nonpayable
    def get() -> uint256: view
    def fail(): nonpayable
    def ret_bytes(n: uint256) -> Bytes[64]: view
    def pair(x: uint256) -> (uint256, bool): view
    def pay() -> uint256: payable
    def callback(target: address, x: uint256) -> uint256: nonpayable
    def forward(target: address, data: Bytes[100]) -> Bytes[64]: nonpayable
    def peek(target: address) -> uint256: view
    def peek_t(target: address) -> uint256: view
    def poke(target: address, tag: uint256) -> uint256: nonpayable
'''

CORPUS = []


def _add(name, src, min_evm=None):
    CORPUS.append({"name": name, "src": src, "min_evm": min_evm})


# ---------------------------------------------------------------- (1) Bytes
_add("bytes_ops", '''
event Pushed:
    n: uint256
    h: bytes32

last: public(Bytes[32])
buf: public(Bytes[64])
count: public(uint256)

@external
def push(b: Bytes[32]) -> uint256:
    self.buf = concat(self.last, b)
    self.last = b
    self.count += 1
    log Pushed(n=len(self.buf), h=keccak256(self.buf))
    return len(self.buf)

@external
@pure
def cut(b: Bytes[64], start: uint256, n: uint256) -> Bytes[64]:
    s: uint256 = start % (len(b) + 1)
    m: uint256 = min(n, len(b) - s)
    return slice(b, s, m)

@external
@view
def head4() -> Bytes[4]:
    padded: Bytes[68] = concat(self.buf, b"\\x00\\x00\\x00\\x00")
    return slice(padded, 0, 4)

@external
@pure
def hashes(b: Bytes[64]) -> (bytes32, bytes32):
    return keccak256(b), sha256(b)

@external
@pure
def to_uint(b: Bytes[32]) -> uint256:
    return convert(b, uint256)

@external
@pure
def to_b32(b: Bytes[32]) -> bytes32:
    return convert(b, bytes32)

@external
@pure
def from_uint(x: uint256) -> Bytes[40]:
    return concat(b"uint:", convert(x, bytes32), b"...")

@external
@pure
def ext32(b: Bytes[64], i: uint256) -> (bytes32, uint256):
    if len(b) < 32:
        return empty(bytes32), 0
    pos: uint256 = i % (len(b) - 31)
    return extract32(b, pos), extract32(b, pos, output_type=uint256)

@external
@view
def same_as_buf(b: Bytes[64]) -> bool:
    return b == self.buf or (len(b) > 0 and keccak256(b) == keccak256(self.last))
''')

# ---------------------------------------------------------------- (2) String
_add("string_ops", '''
event Greeting:
    who: String[16]
    full: String[40]

name: public(String[16])
log_: public(String[40])
n: public(uint256)

@external
def greet(who: String[16]) -> String[40]:
    self.name = who
    self.log_ = concat("hello, ", who, "!")
    self.n += 1
    log Greeting(who=who, full=self.log_)
    return self.log_

@external
@pure
def cut(s: String[32], start: uint256, n: uint256) -> String[32]:
    st: uint256 = start % (len(s) + 1)
    return slice(s, st, min(n, len(s) - st))

@external
@pure
def length(s: String[32]) -> uint256:
    return len(s)

@external
@view
def numbered(x: uint256) -> String[174]:
    return concat(self.name, "#", uint2str(x), "/", uint2str(self.n))

@external
@pure
def u8str(x: uint8) -> String[3]:
    return uint2str(x)

@external
@view
def is_name(s: String[16]) -> (bool, bool):
    return keccak256(s) == keccak256(self.name), s == self.name

@external
@pure
def as_bytes(s: String[32]) -> Bytes[32]:
    return convert(s, Bytes[32])

@external
@pure
def from_bytes(b: Bytes[32]) -> String[32]:
    return convert(b, String[32])

@external
@pure
def repeat3(s: String[8]) -> String[26]:
    return concat(s, "-", s, "-", s)
''')

# ---------------------------------------------------------------- (3) HashMap
_add("hashmaps", '''
struct Acct:
    bal: uint256
    nonce: uint64
    active: bool

event Set:
    key: indexed(uint256)
    val: uint256

simple: public(HashMap[uint256, uint256])
nested: public(HashMap[address, HashMap[uint256, int128]])
accts: public(HashMap[address, Acct])
names: public(HashMap[bytes32, String[16]])
bykey: HashMap[String[8], uint256]
total: public(uint256)

@external
def put(k: uint256, v: uint256) -> uint256:
    old: uint256 = self.simple[k]
    self.simple[k] = v
    self.total = self.total + v - old
    log Set(key=k, val=v)
    return old

@external
def put_nested(a: address, k: uint256, v: int128) -> int128:
    self.nested[a][k] += v
    self.nested[msg.sender][k + 1] -= v
    return self.nested[a][k] + self.nested[msg.sender][k + 1]

@external
def deposit(a: address, amt: uint256) -> Acct:
    self.accts[a].bal += amt
    self.accts[a].nonce += 1
    self.accts[a].active = True
    return self.accts[a]

@external
def close(a: address) -> uint256:
    b: uint256 = self.accts[a].bal
    self.accts[a] = empty(Acct)
    return b

@external
def name_it(s: String[16]) -> bytes32:
    h: bytes32 = keccak256(s)
    self.names[h] = s
    return h

@external
def tag(k: String[8], v: uint256) -> uint256:
    self.bykey[k] += v
    return self.bykey[k]

@external
@view
def lookup(a: address, k: uint256) -> (uint256, int128, bool):
    return self.simple[k], self.nested[a][k], self.accts[a].active
''')

# ---------------------------------------------------------------- (4) structs
_add("structs", '''
struct Point:
    x: int128
    y: int128

struct Rect:
    a: Point
    b: Point
    label: String[10]
    tags: uint256[2]

event Moved:
    dx: int128
    dy: int128

r: public(Rect)
p: public(Point)
history: Point[3]
hidx: uint256

@external
def set_point(p: Point) -> Point:
    self.history[self.hidx % 3] = self.p
    self.hidx += 1
    self.p = p
    return self.history[(self.hidx - 1) % 3]

@external
def set_rect(a: Point, b: Point, label: String[10]) -> Rect:
    self.r = Rect(a=a, b=b, label=label, tags=[len(label), self.hidx])
    return self.r

@external
def move(dx: int128, dy: int128) -> Rect:
    self.r.a.x += dx
    self.r.a.y += dy
    self.r.b.x += dx
    self.r.b.y += dy
    self.r.tags[1] += 1
    log Moved(dx=dx, dy=dy)
    return self.r

@internal
@pure
def _area(r: Rect) -> int128:
    return (r.b.x - r.a.x) * (r.b.y - r.a.y)

@external
@view
def area() -> int128:
    return self._area(self.r)

@external
@pure
def area_of(r: Rect) -> int128:
    return self._area(r)

@external
def swap() -> (Point, Point):
    t: Point = self.r.a
    self.r.a = self.r.b
    self.r.b = t
    return self.r.a, self.r.b

@external
@view
def past(i: uint256) -> Point:
    return self.history[i % 3]
''')

# ---------------------------------------------------------------- (5) DynArray of structs
_add("dynarray_structs", '''
struct Item:
    id: uint256
    qty: uint128
    name: String[8]

event Added:
    id: indexed(uint256)
    name: String[8]

items: public(DynArray[Item, 8])
nextid: uint256

@external
def add(qty: uint128, name: String[8]) -> uint256:
    if len(self.items) == 8:
        self.items.pop()
    self.nextid += 1
    self.items.append(Item(id=self.nextid, qty=qty, name=name))
    log Added(id=self.nextid, name=name)
    return len(self.items)

@external
def remove() -> Item:
    if len(self.items) == 0:
        return empty(Item)
    return self.items.pop()

@external
def bump(delta: uint128) -> uint256:
    total: uint256 = 0
    for i: uint256 in range(len(self.items), bound=8):
        self.items[i].qty += delta
        total += convert(self.items[i].qty, uint256)
    return total

@external
@view
def total() -> uint256:
    t: uint256 = 0
    for it: Item in self.items:
        t += convert(it.qty, uint256) * it.id
    return t

@external
@view
def find(name: String[8]) -> int256:
    idx: int256 = 0
    for it: Item in self.items:
        if it.name == name:
            return idx
        idx += 1
    return -1

@external
def rename(i: uint256, name: String[8]) -> bool:
    if i >= len(self.items):
        return False
    self.items[i].name = name
    return True

@external
def bulk(xs: DynArray[Item, 4]) -> uint256:
    n: uint256 = 0
    for x: Item in xs:
        if len(self.items) < 8:
            self.items.append(x)
            n += 1
    return n

@external
@view
def everything() -> DynArray[Item, 8]:
    return self.items
''')

# ---------------------------------------------------------------- (6) interface calls
_add("iface_calls", _IFACE + '''
interface Loose:
    def store(x: uint256) -> bool: nonpayable
    def get() -> uint256: view

event Remote:
    x: uint256
    got: uint256

helper: public(Helper)
last: public(uint256)

@deploy
def __init__(helper: address):
    self.helper = Helper(helper)

@external
@view
def sum3(a: uint256, b: uint256, c: uint256) -> uint256:
    return staticcall self.helper.add(staticcall self.helper.add(a, b), c)

@external
def set_remote(x: uint256) -> uint256:
    extcall self.helper.store(x)
    self.last = staticcall self.helper.get()
    log Remote(x=x, got=self.last)
    return self.last

@external
def set_loose(x: uint256) -> bool:
    return extcall Loose(self.helper.address).store(x, default_return_value=True)

@external
@view
def get_checked(a: address) -> uint256:
    return staticcall Loose(a).get()

@external
@view
def get_unchecked(a: address) -> uint256:
    return staticcall Loose(a).get(skip_contract_check=True, default_return_value=77)

@external
def store_unchecked(a: address, x: uint256):
    extcall Helper(a).store(x, skip_contract_check=True)
    self.last = x

@external
def try_fail(x: uint256) -> uint256:
    self.last = x
    if x % 2 == 1:
        extcall self.helper.fail()
    return self.last

@external
@view
def remote_bytes(n: uint256) -> Bytes[64]:
    return staticcall self.helper.ret_bytes(n % 65)

@external
@view
def remote_pair(x: uint256) -> (uint256, bool):
    a: uint256 = 0
    b: bool = False
    a, b = staticcall self.helper.pair(x)
    return a + 1, not b
''')

# ---------------------------------------------------------------- (7) raw_call
_add("raw_calls", '''
event Raw:
    ok: bool
    outlen: uint256

helper: public(address)
n: public(uint256)

@deploy
def __init__(helper: address):
    self.helper = helper

@external
@view
def call_add(a: uint256, b: uint256) -> uint256:
    res: Bytes[32] = raw_call(
        self.helper,
        abi_encode(a, b, method_id=method_id("add(uint256,uint256)")),
        max_outsize=32,
        is_static_call=True,
    )
    return convert(res, uint256)

@external
def call_store(x: uint256):
    raw_call(self.helper, concat(method_id("store(uint256)"), convert(x, bytes32)))
    self.n += 1

@external
def try_fail() -> (bool, Bytes[128]):
    ok: bool = False
    res: Bytes[128] = b""
    ok, res = raw_call(self.helper, method_id("fail()"), max_outsize=128, revert_on_failure=False)
    self.n += 1
    log Raw(ok=ok, outlen=len(res))
    return ok, res

@external
def try_fail_noout() -> bool:
    ok: bool = raw_call(self.helper, method_id("fail()"), revert_on_failure=False)
    return ok

@external
@payable
def pay_helper() -> uint256:
    res: Bytes[32] = raw_call(self.helper, method_id("pay()"), max_outsize=32, value=msg.value)
    return convert(res, uint256)

@external
@payable
def to_any(a: address, data: Bytes[64]) -> bool:
    ok: bool = raw_call(a, data, value=msg.value, revert_on_failure=False)
    log Raw(ok=ok, outlen=0)
    return ok

@external
def to_zero(data: Bytes[64]) -> uint256:
    res: Bytes[32] = raw_call(empty(address), data, max_outsize=32)
    return len(res)

@external
@view
def static_any(a: address, data: Bytes[36]) -> (bool, Bytes[64]):
    ok: bool = False
    res: Bytes[64] = b""
    ok, res = raw_call(a, data, max_outsize=64, is_static_call=True, revert_on_failure=False)
    return ok, res

@external
def helper_fallback(data: Bytes[40]) -> uint256:
    res: Bytes[8] = raw_call(self.helper, concat(b"\\xff\\xff\\xff\\xff", data), max_outsize=8)
    return len(res)
''')

# ---------------------------------------------------------------- (8) create
_add("create_ops", _IFACE + '''
event Created:
    addr: address
    kind: uint256

helper: public(address)
created: public(DynArray[address, 16])

@deploy
def __init__(helper: address):
    self.helper = helper

@internal
def _note(a: address, kind: uint256):
    if len(self.created) == 16:
        self.created.pop()
    self.created.append(a)
    log Created(addr=a, kind=kind)

@external
def make_proxy(x: uint256) -> address:
    a: address = create_minimal_proxy_to(self.helper)
    extcall Helper(a).store(x)
    self._note(a, 1)
    return a

@external
def make_proxy_salt(salt: bytes32, x: uint256) -> uint256:
    s: bytes32 = keccak256(concat(salt, convert(len(self.created), bytes32)))
    a: address = create_minimal_proxy_to(self.helper, salt=s)
    extcall Helper(a).store(x)
    self._note(a, 2)
    return staticcall Helper(a).get()

@external
def make_copy(x: uint256) -> uint256:
    a: address = create_copy_of(self.helper)
    extcall Helper(a).store(x)
    self._note(a, 3)
    return staticcall Helper(a).add(staticcall Helper(a).get(), 1)

@external
@payable
def make_copy_value() -> uint256:
    a: address = create_copy_of(self.helper, value=msg.value, revert_on_failure=False)
    self._note(a, 4)
    return a.balance

@external
@view
def get_at(i: uint256) -> uint256:
    if len(self.created) == 0:
        return max_value(uint256)
    return staticcall Helper(self.created[i % len(self.created)]).get()

@external
def poke(i: uint256, x: uint256) -> address:
    if len(self.created) == 0:
        return empty(address)
    a: address = self.created[i % len(self.created)]
    extcall Helper(a).store(x)
    return a
''')

# ---------------------------------------------------------------- (9) default arguments
_add("default_args", '''
event Seen:
    a: uint256
    b: uint256
    who: address

acc: public(uint256)

@external
def f1(a: uint256, b: uint256 = 7) -> uint256:
    self.acc += a * b
    log Seen(a=a, b=b, who=msg.sender)
    return self.acc

@external
@pure
def f2(a: int128, b: bool = True, c: Bytes[8] = b"dflt") -> (int128, bool, Bytes[8]):
    if b:
        return -a, not b, c
    return a, b, slice(concat(c, b"12345678"), 0, 8)

@external
def f3(a: address = msg.sender, n: uint8 = 3, s: String[5] = "abc") -> (address, uint256, String[5]):
    self.acc += convert(n, uint256) + len(s)
    log Seen(a=convert(n, uint256), b=len(s), who=a)
    return a, self.acc, s

@external
@payable
def f4(x: uint256 = 1, y: int256 = -1, z: bytes32 = 0x00000000000000000000000000000000000000000000000000000000000000ff) -> int256:
    self.acc += x + msg.value
    return y * convert(x, int256) + convert(convert(z, uint256) % 1000, int256)

@external
@view
def f5(xs: DynArray[uint256, 3] = [1, 2, 3], k: uint256 = 2) -> uint256:
    t: uint256 = self.acc
    for x: uint256 in xs:
        t += x * k
    return t
''')

# ---------------------------------------------------------------- (10) nonreentrant
_add("nonreentrant", _IFACE + '''
event Entered:
    x: uint256
    counter: uint256

helper: public(Helper)
counter: public(uint256)

@deploy
def __init__(helper: address):
    self.helper = Helper(helper)

@external
@nonreentrant
def reenter(x: uint256) -> uint256:
    self.counter += x
    log Entered(x=x, counter=self.counter)
    return self.counter

@external
@nonreentrant
def attack(x: uint256) -> uint256:
    # helper calls back self.reenter while the lock is held: must revert
    self.counter += 1
    return extcall self.helper.callback(self, x)

@external
def via_helper(x: uint256) -> uint256:
    # not locked: the callback into reenter() succeeds
    self.counter += 1
    return extcall self.helper.callback(self, x) + 1000

@external
@nonreentrant
def normal(x: uint256) -> uint256:
    extcall self.helper.store(x)
    self.counter += staticcall self.helper.get()
    return self.counter

@external
@view
@nonreentrant
def peek() -> uint256:
    return self.counter * 2

@external
@nonreentrant
def attack_view() -> uint256:
    # locked, and the helper calls the nonreentrant view: must revert
    res: Bytes[64] = extcall self.helper.forward(self, method_id("peek()"))
    return len(res)

@external
def view_via_helper() -> uint256:
    res: Bytes[64] = extcall self.helper.forward(self, method_id("peek()"))
    return convert(slice(res, 0, 32), uint256)

@external
@nonreentrant
def locked_internal(x: uint256) -> uint256:
    return self._bump(x) + self._bump(x)

@internal
def _bump(x: uint256) -> uint256:
    self.counter += x
    return self.counter
''')

# ---------------------------------------------------------------- (11) events
_add("events", '''
struct Info:
    a: uint256
    b: bool

event E0:
    pass

event E1:
    who: indexed(address)
    n: indexed(uint256)
    h: indexed(bytes32)
    rest: uint256

event E2:
    data: Bytes[40]
    s: String[20]
    arr: DynArray[uint256, 4]

event E3:
    k: indexed(uint256)
    info: Info
    fixed: uint256[2]
    flag: bool

event E4:
    a: indexed(int128)
    b: indexed(bool)
    c: indexed(bytes4)
    d: int256

event E5:
    s: indexed(String[20])
    b: indexed(Bytes[40])
    n: uint256

seq: public(uint256)

@external
def e0() -> uint256:
    self.seq += 1
    log E0()
    return self.seq

@external
def e1(who: address, n: uint256, h: bytes32) -> uint256:
    self.seq += 1
    log E1(who=who, n=n, h=h, rest=self.seq)
    return self.seq

@external
def e2(data: Bytes[40], s: String[20], arr: DynArray[uint256, 4]) -> uint256:
    self.seq += 1
    log E2(data=data, s=s, arr=arr)
    return len(data) + len(s) + len(arr)

@external
def e3(k: uint256, info: Info, flag: bool) -> uint256:
    self.seq += 1
    log E3(k=k, info=info, fixed=[k, self.seq], flag=flag)
    log E3(k=self.seq, info=Info(a=k, b=not info.b), fixed=[0, 1], flag=not flag)
    return self.seq

@external
def e4(a: int128, b: bool, c: bytes4) -> uint256:
    self.seq += 1
    log E4(a=a, b=b, c=c, d=convert(a, int256) * -3)
    return self.seq

@external
def e5(s: String[20], b: Bytes[40]) -> uint256:
    self.seq += 1
    log E5(s=s, b=b, n=self.seq)
    return self.seq

@external
def many(n: uint256) -> uint256:
    for i: uint256 in range(n, bound=5):
        log E1(who=msg.sender, n=i, h=keccak256(convert(i, bytes32)), rest=n - i)
    self.seq += n
    return self.seq

@external
def raw(t: bytes32, data: Bytes[40]):
    raw_log([t, convert(self.seq, bytes32)], data)
''')

# ---------------------------------------------------------------- (12) flags
_add("flags", '''
flag Perm:
    READ
    WRITE
    EXEC
    ADMIN

event Granted:
    who: indexed(address)
    p: Perm

perms: public(HashMap[address, Perm])
mask: public(Perm)

@external
def grant(a: address, p: Perm) -> Perm:
    self.perms[a] |= p
    log Granted(who=a, p=self.perms[a])
    return self.perms[a]

@external
def revoke(a: address, p: Perm) -> Perm:
    self.perms[a] &= ~p
    return self.perms[a]

@external
def toggle(p: Perm) -> Perm:
    self.mask ^= p
    return self.mask

@external
@view
def can(a: address, p: Perm) -> (bool, bool):
    return p in self.perms[a], p not in self.perms[a]

@external
@view
def is_exact(a: address, p: Perm) -> (bool, bool):
    return self.perms[a] == p, self.perms[a] != self.mask

@external
@pure
def combine(p: Perm, q: Perm) -> (Perm, Perm, Perm, Perm):
    return p | q, p & q, p ^ q, ~p

@external
@pure
def to_int(p: Perm) -> uint256:
    return convert(p, uint256)

@external
@pure
def from_int(x: uint256) -> Perm:
    return convert(x % 16, Perm)

@external
@view
def is_rw(a: address) -> bool:
    return self.perms[a] in (Perm.READ | Perm.WRITE)

@external
@pure
def pick(i: uint256) -> Perm:
    p: Perm = Perm.READ
    if i % 4 == 1:
        p = Perm.WRITE
    elif i % 4 == 2:
        p = Perm.EXEC | Perm.READ
    elif i % 4 == 3:
        p = ~Perm.ADMIN
    return p
''')

# ---------------------------------------------------------------- (13) decimals
_add("decimals", '''
import math

event Acc:
    v: decimal

acc: public(decimal)

@external
def add(x: decimal) -> decimal:
    self.acc += x
    log Acc(v=self.acc)
    return self.acc

@external
def sub_scaled(x: decimal) -> decimal:
    self.acc -= x * 0.5
    return self.acc

@external
@pure
def mul_div(x: decimal, y: decimal) -> (decimal, decimal):
    return x * y, x / (y + 1.5)

@external
@pure
def from_int(i: int128) -> decimal:
    return convert(i, decimal) / 4.0

@external
@pure
def to_ints(x: decimal) -> (int256, uint256):
    return convert(x, int256), convert(x * x, uint256)

@external
@pure
def fl_ce(x: decimal) -> (int256, int256):
    return floor(x), ceil(x)

@external
@pure
def cmp(x: decimal, y: decimal) -> (bool, bool, bool, bool):
    return x < y, x <= y, x == y, x != y

@external
@pure
def avg(a: int128, b: int128) -> decimal:
    return (convert(a, decimal) + convert(b, decimal)) / 2.0

@external
@view
def clamp(lo: decimal, hi: decimal) -> decimal:
    return min(max(self.acc, lo), hi)

@external
@pure
def neg_sqrt(x: decimal) -> (decimal, decimal):
    y: decimal = x
    if y < 0.0:
        y = -y
    return -x, math.sqrt(y)
''')

# ---------------------------------------------------------------- (14) ether
_add("ether", _IFACE + '''
event Deposit:
    sender: indexed(address)
    amount: uint256

event Sent:
    to: indexed(address)
    amount: uint256

helper: public(address)
deposits: public(HashMap[address, uint256])

@deploy
@payable
def __init__(helper: address):
    self.helper = helper

@external
@payable
def deposit() -> uint256:
    self.deposits[msg.sender] += msg.value
    log Deposit(sender=msg.sender, amount=msg.value)
    return self.balance

@external
def withdraw(amt: uint256) -> uint256:
    a: uint256 = min(amt, self.deposits[msg.sender])
    self.deposits[msg.sender] -= a
    send(msg.sender, a)
    log Sent(to=msg.sender, amount=a)
    return self.balance

@external
@payable
def split(to: address) -> uint256:
    send(to, msg.value // 2)
    log Sent(to=to, amount=msg.value // 2)
    return self.balance

@external
@payable
def pay_helper() -> uint256:
    return extcall Helper(self.helper).pay(value=msg.value)

@external
@payable
def tip_helper() -> uint256:
    raw_call(self.helper, b"", value=msg.value // 3)
    return self.helper.balance

@external
@view
def balances(a: address) -> (uint256, uint256, uint256):
    return self.balance, a.balance, self.helper.balance

@external
@view
def codeinfo(a: address) -> (bool, bool, bool):
    return a.is_contract, a.codesize > 0, a.codehash == keccak256(b"")

@external
@pure
def weis(x: uint256) -> (uint256, uint256):
    return as_wei_value(x, "gwei"), as_wei_value(2, "ether") + x

@external
@payable
def __default__():
    log Deposit(sender=msg.sender, amount=msg.value)
''')

# ---------------------------------------------------------------- (15) loops
_add("loops", '''
event Filled:
    rows: uint256
    cols: uint256

grid: public(DynArray[DynArray[uint256, 4], 4])

@external
def fill(rows: uint256, cols: uint256, seed: uint256) -> uint256:
    self.grid = []
    n: uint256 = 0
    for i: uint256 in range(rows % 5, bound=4):
        row: DynArray[uint256, 4] = []
        for j: uint256 in range(cols % 5, bound=4):
            row.append(seed + i * 4 + j)
            n += 1
        self.grid.append(row)
    log Filled(rows=rows % 5, cols=cols % 5)
    return n

@external
@view
def sum_grid() -> uint256:
    t: uint256 = 0
    for row: DynArray[uint256, 4] in self.grid:
        for v: uint256 in row:
            t += v
    return t

@external
def set_grid(g: DynArray[DynArray[uint256, 4], 4]) -> uint256:
    self.grid = g
    t: uint256 = 0
    for i: uint256 in range(len(g), bound=4):
        for j: uint256 in range(len(g[i]), bound=4):
            if g[i][j] == 0:
                continue
            t += g[i][j] * (i + 1)
    return t

@external
@pure
def range_ab(a: uint256) -> uint256:
    t: uint256 = 0
    for i: uint256 in range(a, a + 5, bound=5):
        t += i * i
    return t

@external
@pure
def first_even_gt(xs: DynArray[uint256, 8], t: uint256) -> uint256:
    found: uint256 = 0
    for x: uint256 in xs:
        if x % 2 == 1:
            continue
        if x > t:
            found = x
            break
    return found

@external
@pure
def tri(n: uint256) -> uint256:
    c: uint256 = 0
    for i: uint256 in range(n % 10, bound=10):
        for j: uint256 in range(i, bound=10):
            if j * 2 > i + 3:
                break
            c += 1
    return c

@external
@pure
def lit_range() -> int128:
    t: int128 = 0
    for i: int128 in range(-3, 9):
        if i == 5:
            continue
        if i == 8:
            break
        t += i
    return t

@external
@pure
def range_se(a: uint256, b: uint256) -> uint256:
    t: uint256 = 0
    for i: uint256 in range(a, b, bound=16):
        t = t * 3 + i
    return t
''')

# ---------------------------------------------------------------- (16) math builtins
_add("math_ops", '''
import math

event Res:
    v: uint256

acc: public(uint256)

@external
def roots(x: uint256) -> uint256:
    self.acc = math.isqrt(x) + math.isqrt(self.acc * 7 + x)
    log Res(v=self.acc)
    return self.acc

@external
@pure
def mods(a: uint256, b: uint256, m: uint256) -> (uint256, uint256, uint256):
    mm: uint256 = m + 1
    return uint256_addmod(a, b, mm), uint256_mulmod(a, b, mm), pow_mod256(a, b)

@external
@pure
def shifts(x: uint256, y: int256, n: uint256) -> (uint256, uint256, int256, int256):
    return x << (n % 300), x >> (n % 300), y << (n % 256), y >> (n % 256)

@external
@pure
def unsafe_u(a: uint256, b: uint256) -> (uint256, uint256, uint256, uint256):
    return unsafe_add(a, b), unsafe_sub(a, b), unsafe_mul(a, b), unsafe_div(a, b)

@external
@pure
def unsafe_small(a: uint8, b: uint8, c: int8, d: int8) -> (uint8, uint8, uint8, int8, int8, int8):
    return unsafe_add(a, b), unsafe_sub(a, b), unsafe_mul(a, b), unsafe_add(c, d), unsafe_sub(c, d), unsafe_mul(c, d)

@external
@pure
def unsafe_i(a: int128, b: int128) -> (int128, int128, int128, int128):
    return unsafe_add(a, b), unsafe_sub(a, b), unsafe_mul(a, b), unsafe_div(a, b)

@external
@pure
def absminmax(a: int256, b: int256) -> (int256, int256, int256):
    return abs(a - b), min(a, b), max(a, b)

@external
@pure
def pows(x: uint256, e: uint256) -> (uint256, uint256, uint256):
    return 2 ** (e % 256), (x % 1000) ** 3, 10 ** (e % 78)

@external
@pure
def ipows(x: int128, e: int128) -> (int128, int128):
    return (x % 100) ** 5, (-3) ** (e % 80)

@external
@pure
def bits(a: uint256, b: uint256) -> (uint256, uint256, uint256, uint256):
    return ~a, a & b, a | b, a ^ b

@external
@pure
def divmods(a: int256, b: int256) -> (int256, int256):
    d: int256 = b
    if d == 0:
        d = -7
    return a // d, a % d
''')

# ---------------------------------------------------------------- (17) convert matrix
_add("converts", '''
last: public(uint256)

@external
def widen(a: uint8, b: int8, c: uint128) -> (uint256, int256, int256, uint256):
    self.last = convert(a, uint256)
    return convert(a, uint256), convert(b, int256), convert(a, int256), convert(c, uint256)

@external
@pure
def narrow(x: uint256, y: int256) -> (uint8, int8, uint128, int128):
    return convert(x % 256, uint8), convert(y % 128, int8), convert(x, uint128), convert(y, int128)

@external
@pure
def sign(x: uint256, y: int256) -> (int256, uint256):
    return convert(x, int256), convert(abs(y), uint256)

@external
@pure
def bools(x: uint256, y: int128, a: address, b: bytes32, bs: Bytes[8]) -> (bool, bool, bool, bool, bool):
    return convert(x, bool), convert(y, bool), convert(a, bool), convert(b, bool), convert(bs, bool)

@external
@pure
def from_bool(b: bool) -> (uint256, int8, bytes32, bytes1):
    return convert(b, uint256), convert(b, int8), convert(b, bytes32), convert(b, bytes1)

@external
@pure
def addr(a: address, x: uint256, b: bytes32) -> (uint256, bytes32, bytes20, address, address):
    return convert(a, uint256), convert(a, bytes32), convert(a, bytes20), convert(x % 2 ** 160, address), convert(b, address)

@external
@pure
def b32(x: uint256, y: int256, b: bytes32) -> (bytes32, bytes32, uint256, int256):
    return convert(x, bytes32), convert(y, bytes32), convert(b, uint256), convert(b, int256)

@external
@pure
def b4(b: bytes4, x: uint32) -> (uint32, bytes32, bytes4, uint256, bytes8):
    return convert(b, uint32), convert(b, bytes32), convert(x, bytes4), convert(b, uint256), convert(b, bytes8)

@external
@pure
def dyn(bs: Bytes[32], short: Bytes[4]) -> (uint256, int256, bytes32, bytes4, address):
    return convert(bs, uint256), convert(bs, int256), convert(bs, bytes32), convert(short, bytes4), convert(slice(concat(bs, empty(bytes32)), 0, 20), address)

@external
@pure
def small(bs: Bytes[2]) -> (uint16, int16, bytes2):
    return convert(bs, uint16), convert(bs, int16), convert(bs, bytes2)
''')

# ---------------------------------------------------------------- (18) abi_encode / abi_decode
_add("abi_codec", '''
struct S:
    a: uint256
    b: Bytes[6]

event Encoded:
    n: uint256
    h: bytes32

blob: public(Bytes[224])
blob2: public(Bytes[128])

@external
def enc2(a: uint256, b: Bytes[10]) -> Bytes[128]:
    r: Bytes[128] = abi_encode(a, b)
    self.blob2 = r
    log Encoded(n=len(r), h=keccak256(r))
    return r

@external
@pure
def enc1(x: uint256) -> Bytes[32]:
    return abi_encode(x)

@external
@pure
def enc1_dyn(b: Bytes[10]) -> (Bytes[96], Bytes[64]):
    return abi_encode(b), abi_encode(b, ensure_tuple=False)

@external
@pure
def enc_mid(a: uint256, b: bool) -> Bytes[68]:
    return abi_encode(a, b, method_id=method_id("foo(uint256,bool)"))

@external
def enc_struct(s: S, xs: DynArray[uint256, 2]) -> uint256:
    self.blob = slice(abi_encode(s, xs), 0, 224)
    return len(self.blob)

@external
@view
def dec_blob2() -> (uint256, Bytes[10]):
    a: uint256 = 0
    b: Bytes[10] = b""
    a, b = abi_decode(self.blob2, (uint256, Bytes[10]))
    return a, b

@external
@pure
def dec2(data: Bytes[128]) -> (uint256, Bytes[10]):
    a: uint256 = 0
    b: Bytes[10] = b""
    a, b = abi_decode(data, (uint256, Bytes[10]))
    return a, b

@external
@pure
def dec1(data: Bytes[32]) -> uint256:
    return abi_decode(data, uint256)

@external
@pure
def dec_notuple(data: Bytes[64]) -> Bytes[10]:
    return abi_decode(data, Bytes[10], unwrap_tuple=False)

@external
@pure
def roundtrip(xs: DynArray[uint256, 4], s: String[8], k: int128) -> (DynArray[uint256, 4], String[8], int128):
    enc: Bytes[320] = abi_encode(xs, s, k)
    ys: DynArray[uint256, 4] = []
    t: String[8] = ""
    j: int128 = 0
    ys, t, j = abi_decode(enc, (DynArray[uint256, 4], String[8], int128))
    return ys, t, j

@external
@pure
def roundtrip_struct(s: S) -> S:
    return abi_decode(abi_encode(s), S)

@external
@pure
def mids() -> (Bytes[4], bytes4, bool):
    a: Bytes[4] = method_id("transfer(address,uint256)")
    b: bytes4 = method_id("transfer(address,uint256)", output_type=bytes4)
    return a, b, convert(a, bytes4) == b
''')

# ---------------------------------------------------------------- (19) immutables / constants
_add("immutables", '''
struct Cfg:
    fee: uint256
    on: bool

event Booted:
    helper: address
    seed: bytes32

HELPER_ADDR: public(immutable(address))
START: immutable(uint256)
OWNER: public(immutable(address))
SEED: immutable(bytes32)
WEIGHTS: immutable(uint256[3])
LABEL: immutable(String[12])

MAXN: constant(uint256) = 10
TABLE: constant(uint256[4]) = [1, 10, 100, 1000]
DEFAULT_CFG: constant(Cfg) = Cfg(fee=30, on=True)
NAME: public(constant(String[8])) = "corpus"
MASK: constant(bytes4) = 0xdeadbeef
BIG: constant(uint256) = 2**64 + MAXN
NEG: constant(int128) = -5 * 4
ZERO: constant(address) = empty(address)

cfg: public(Cfg)
nuses: public(uint256)

@deploy
def __init__(helper: address):
    self.HELPER_ADDR = helper
    self.OWNER = msg.sender
    self.START = block.number * 100 + MAXN
    s: bytes32 = keccak256(convert(helper, bytes32))
    w: uint256[3] = [0, 0, 0]
    for i: uint256 in range(3):
        w[i] = TABLE[i + 1] + convert(s, uint256) % 7
        s = keccak256(s)
    self.SEED = s
    self.WEIGHTS = w
    self.LABEL = concat(NAME, "-", "v10")
    self.cfg = DEFAULT_CFG
    log Booted(helper=helper, seed=s)

@external
def use(i: uint256) -> uint256:
    self.nuses += 1
    return self.WEIGHTS[i % 3] * TABLE[i % 4] + self.START + self.nuses

@external
@view
def consts() -> (uint256, int128, bytes4, address, uint256):
    return BIG, NEG, MASK, ZERO, DEFAULT_CFG.fee

@external
@view
def imms() -> (address, address, uint256, bytes32, String[12]):
    return self.HELPER_ADDR, self.OWNER, self.START, self.SEED, self.LABEL

@external
def set_fee(f: uint256) -> Cfg:
    if f > MAXN * TABLE[2]:
        self.cfg = DEFAULT_CFG
    else:
        self.cfg.fee = f
        self.cfg.on = f != 0
    return self.cfg

@external
@view
def masked(b: bytes4) -> (bytes4, bool):
    return b & MASK, b == MASK

@external
@view
def table_sum(n: uint256) -> uint256:
    t: uint256 = 0
    for i: uint256 in range(n % 5, bound=4):
        t += TABLE[i] * self.WEIGHTS[i % 3]
    return t
''')

# ---------------------------------------------------------------- (20) tuples
_add("tuples", '''
event Pair:
    a: uint256
    b: int128

x: public(uint256)
y: public(int128)
tag: public(Bytes[10])

@internal
@pure
def _divmod(a: uint256, b: uint256) -> (uint256, uint256):
    return a // (b + 1), a % (b + 1)

@internal
@view
def _triple(k: uint256) -> (uint256, Bytes[10], bool):
    return self.x + k, slice(concat(self.tag, b"0123456789"), 0, 10), k % 2 == 0

@internal
def _swap_store(a: uint256, b: int128) -> (int128, uint256):
    self.x = a
    self.y = b
    return b, a

@external
@pure
def divmod(a: uint256, b: uint256) -> (uint256, uint256):
    q: uint256 = 0
    r: uint256 = 0
    q, r = self._divmod(a, b)
    return r, q

@external
@view
def triple(k: uint256) -> (uint256, Bytes[10], bool):
    return self._triple(k)

@external
def store(a: uint256, b: int128, t: Bytes[10]) -> (int128, uint256):
    self.tag = t
    log Pair(a=a, b=b)
    return self._swap_store(a, b)

@external
def rotate() -> (uint256, int128):
    u: uint256 = 0
    b: Bytes[10] = b""
    f: bool = False
    u, b, f = self._triple(3)
    q: uint256 = 0
    r: uint256 = 0
    q, r = self._divmod(u, self.x)
    self.y = convert(q % 100, int128) - self.y
    self.x = r + 1
    if f:
        self.tag = b
    return self.x, self.y

@external
@view
def nested(a: uint256) -> (uint256, (uint256, uint256), bool):
    return a, self._divmod(a, self.x), a > self.x
''')

# ---------------------------------------------------------------- (21) hashing / ecrecover
_add("crypto", '''
event Recovered:
    signer: address

H: constant(bytes32) = 0x2447a872bffebfe92c0eaef20ee850808da0d60e410570cf8093763eac6ffdb4
R: constant(bytes32) = 0x7f577382e7bebff07908840c5eb944ac6a063ce72696bb3f03024cddaac89ba7
S: constant(bytes32) = 0x45dbed0d1d6cab902f0bd343bc8fb0e516dc93384c72783a313ec24496afbd51

signers: public(HashMap[address, uint256])
chain_hash: public(bytes32)

@external
@pure
def rec(h: bytes32, v: uint8, r: bytes32, s: bytes32) -> address:
    return ecrecover(h, v, r, s)

@external
@pure
def rec_u(h: bytes32, v: uint256, r: uint256, s: uint256) -> address:
    return ecrecover(h, v, r, s)

@external
def rec_known(flip: bool) -> address:
    v: uint8 = 27
    if flip:
        v = 28
    a: address = ecrecover(H, v, R, S)
    self.signers[a] += 1
    log Recovered(signer=a)
    return a

@external
@pure
def rec_msg(msg_: Bytes[32], v: uint8) -> address:
    return ecrecover(keccak256(msg_), v, R, S)

@external
@pure
def hashes(b: Bytes[50], s: String[20], w: bytes32) -> (bytes32, bytes32, bytes32, bytes32, bytes32):
    return keccak256(b), sha256(b), keccak256(s), sha256(s), keccak256(w)

@external
def extend(w: bytes32) -> bytes32:
    self.chain_hash = sha256(concat(self.chain_hash, keccak256(w)))
    return self.chain_hash

@external
@pure
def lit_hashes() -> (bytes32, bytes32):
    return keccak256("corpus"), sha256(b"corpus")
''')

# ---------------------------------------------------------------- (22) environment
_add("environment", '''
event Env:
    sender: indexed(address)
    origin: address
    number: uint256

calls: public(uint256)
last_sender: public(address)

@external
def touch() -> (address, address, address):
    self.calls += 1
    self.last_sender = msg.sender
    log Env(sender=msg.sender, origin=tx.origin, number=block.number)
    return msg.sender, tx.origin, self

@external
@view
def blockinfo() -> (uint256, uint256, uint256, address, uint256):
    return block.timestamp, block.number, chain.id, block.coinbase, block.gaslimit

@external
@view
def fees() -> (uint256, uint256):
    return block.basefee, tx.gasprice

@external
@view
def prev_hash() -> bytes32:
    return blockhash(block.number - 1)

@external
@view
def data_len(pad: Bytes[40]) -> (uint256, uint256):
    return len(msg.data), len(pad)

@external
@view
def selector(x: uint256) -> (Bytes[4], Bytes[32]):
    return slice(msg.data, 0, 4), slice(msg.data, 4, 32)

@external
@payable
def value_and_self(x: uint256) -> (uint256, uint256, bool):
    self.calls += x
    return msg.value, self.balance, msg.sender == tx.origin

@external
@view
def time_math(d: uint256) -> (uint256, bool):
    return block.timestamp + d * 86400, block.timestamp > d
''')

# ---------------------------------------------------------------- (23) transient storage
_add("transient", _IFACE + '''
event T:
    depth: uint256
    total: uint256

helper: public(address)
t_depth: transient(uint256)
t_total: transient(uint256)
t_seen: transient(HashMap[uint256, bool])
t_arr: transient(DynArray[uint256, 4])
perm: public(uint256)

@deploy
def __init__(helper: address):
    self.helper = helper

@external
def reenter(x: uint256) -> uint256:
    # called back by the helper within the same transaction: transient state is visible
    self.t_depth += 1
    self.t_total += x
    self.t_seen[x] = True
    return self.t_total

@external
def run(x: uint256) -> (uint256, uint256, bool):
    self.t_total = 100
    r: uint256 = extcall Helper(self.helper).callback(self, x)
    r = extcall Helper(self.helper).callback(self, x + 1)
    self.perm += self.t_total
    log T(depth=self.t_depth, total=self.t_total)
    res: (uint256, uint256, bool) = (self.t_depth, r, self.t_seen[x] and not self.t_seen[x + 2])
    self._clear(x)
    return res

@internal
def _clear(x: uint256):
    self.t_depth = 0
    self.t_total = 0
    self.t_seen[x] = False
    self.t_seen[x + 1] = False
    self.t_arr = []

@external
@nonreentrant
def locked(x: uint256) -> uint256:
    self.t_arr.append(x)
    self.t_arr.append(x * 2)
    n: uint256 = self._sum()
    self.perm += n
    self.t_arr = []
    return n

@internal
@view
def _sum() -> uint256:
    t: uint256 = 0
    for v: uint256 in self.t_arr:
        t += v
    return t

@external
@nonreentrant
def locked_attack(x: uint256) -> uint256:
    self.t_total = x
    res: Bytes[64] = extcall Helper(self.helper).forward(self, abi_encode(x, method_id=method_id("locked(uint256)")))
    return len(res)

@external
@view
def peek() -> (uint256, uint256, uint256):
    return self.t_depth, self.t_total, len(self.t_arr)
''', "cancun")

# ---------------------------------------------------------------- (24) bytesM
_add("bytesm_ops", '''
event Mark:
    m: indexed(bytes32)
    tag: bytes4

marks: public(HashMap[bytes4, bytes32])
cur: public(bytes32)
small: public(bytes8)

@external
def mark(tag: bytes4, m: bytes32) -> bytes32:
    old: bytes32 = self.marks[tag]
    self.marks[tag] = m ^ self.cur
    self.cur = m
    log Mark(m=m, tag=tag)
    return old

@external
@pure
def cmp(a: bytes32, b: bytes32) -> (bool, bool, bool):
    return a == b, a != b, a == empty(bytes32)

@external
@pure
def bitwise(a: bytes32, b: bytes32) -> (bytes32, bytes32, bytes32, bytes32):
    return a & b, a | b, a ^ b, ~a

@external
@pure
def shifts(a: bytes32, n: uint256) -> (bytes32, bytes32):
    x: uint256 = convert(a, uint256)
    return convert(x << (n % 256), bytes32), convert(x >> (n % 256), bytes32)

@external
@pure
def pieces(a: bytes32, start: uint256) -> (Bytes[8], bytes4, bytes1):
    s: uint256 = start % 24
    chunk: Bytes[8] = slice(a, s, 8)
    return chunk, convert(slice(a, s, 4), bytes4), convert(slice(a, 31, 1), bytes1)

@external
def set_small(b: bytes8) -> (bytes8, bytes32, uint64):
    self.small = b
    return self.small, convert(b, bytes32), convert(b, uint64)

@external
@pure
def join(a: bytes4, b: bytes4, c: bytes8) -> (Bytes[16], bytes16):
    j: Bytes[16] = concat(a, b, c)
    return j, convert(j, bytes16)

@external
@view
def is_cur(m: bytes32, tag: bytes4) -> (bool, bool):
    return m == self.cur, self.marks[tag] == empty(bytes32)
''')

# ---------------------------------------------------------------- (25) static arrays
_add("arrays", '''
event Cell:
    i: uint256
    j: uint256
    v: int128

m: public(int128[3][2])
cube: uint8[2][2][2]
owners: public(address[3])
nset: public(uint256)

@external
def set_cell(i: uint256, j: uint256, v: int128) -> int128:
    old: int128 = self.m[i % 2][j % 3]
    self.m[i % 2][j % 3] = v
    self.cube[i % 2][j % 2][(i + j) % 2] = convert(convert(abs(convert(v, int256)), uint256) % 256, uint8)
    self.nset += 1
    log Cell(i=i % 2, j=j % 3, v=v)
    return old

@external
def set_all(a: int128[3][2]) -> int128[3][2]:
    old: int128[3][2] = self.m
    self.m = a
    return old

@external
@view
def row_sum(i: uint256) -> int128:
    t: int128 = 0
    for v: int128 in self.m[i % 2]:
        t += v
    return t

@external
@view
def transpose() -> int128[2][3]:
    out: int128[2][3] = empty(int128[2][3])
    for i: uint256 in range(2):
        for j: uint256 in range(3):
            out[j][i] = self.m[i][j]
    return out

@external
def set_owner(i: uint256, a: address) -> bool:
    was_in: bool = a in self.owners
    self.owners[i % 3] = a
    return was_in

@external
@view
def membership(a: address, x: int128) -> (bool, bool, bool):
    return a in self.owners, a not in self.owners, x in self.m[0]

@external
@pure
def lit_in(x: uint256) -> (bool, bool):
    return x in [1, 3, 5, 7], x not in [2, 4, 6]

@external
def clear() -> uint8[2][2][2]:
    old: uint8[2][2][2] = self.cube
    self.m = empty(int128[3][2])
    self.cube = empty(uint8[2][2][2])
    self.owners = empty(address[3])
    return old

@external
@pure
def dot(a: uint256[4], b: uint256[4]) -> uint256:
    t: uint256 = 0
    for i: uint256 in range(4):
        t += a[i] * b[i]
    return t
''')

# ---------------------------------------------------------------- (26) assert / raise
_add("asserts", '''
event Ok:
    x: uint256

limit: public(uint256)
msg_: String[24]

@deploy
def __init__():
    self.limit = 10
    self.msg_ = "over the limit"

@external
def check(x: uint256) -> uint256:
    assert x <= self.limit, "too big"
    assert x != 7  # dev: seven is unlucky
    self.limit += 1
    log Ok(x=x)
    return self.limit - x

@external
def check_dyn(x: uint256) -> uint256:
    assert x % 4 != 0, self.msg_
    self.limit += x
    return self.limit

@external
@pure
def check_built(x: uint256) -> uint256:
    reason: String[88] = concat("bad value ", uint2str(x % 256))
    if x % 2 == 0:
        raise reason
    return x // 2

@external
@pure
def bare(x: uint256) -> uint256:
    if x > 15:
        raise
    if x == 9:
        raise "nine"  # dev: nine
    return x

@external
@pure
def unreach(x: uint256) -> uint256:
    assert x < 18, UNREACHABLE
    if x == 13:
        raise UNREACHABLE
    return 18 - x

@external
def set_msg(s: String[24], lim: uint256):
    assert len(s) > 0, "empty reason"
    self.msg_ = s
    self.limit = lim

@external
@view
def chained(a: uint256, b: uint256) -> uint256:
    assert a + b <= self.limit * 4, "sum"
    assert a * b != 20
    return self._inner(a) + self._inner(b)

@internal
@view
def _inner(x: uint256) -> uint256:
    assert x != self.limit, "inner"
    return self.limit - x % (self.limit + 1)

@external
@pure
def raw_rev(data: Bytes[36], go: bool) -> bool:
    if go:
        raw_revert(data)
    return go
''')

# ---------------------------------------------------------------- (27) internal functions with many args
_add("internal_many", '''
struct Cfg:
    k: uint256
    name: String[6]
    on: bool

struct Out:
    total: uint256
    digest: bytes32
    parts: DynArray[uint256, 6]

event Done:
    total: uint256

acc: public(uint256)
last: public(Out)

@internal
@pure
def _mix(a: uint256, b: int128, c: Bytes[12], d: DynArray[uint256, 4], e: Cfg, f: bool, g: bytes32) -> Out:
    parts: DynArray[uint256, 6] = [a, len(c)]
    t: uint256 = a + len(c) + e.k
    for v: uint256 in d:
        t += v
        parts.append(v)
    if f and e.on:
        t += convert(abs(convert(b, int256)), uint256)
    return Out(total=t, digest=keccak256(concat(g, c, convert(e.name, Bytes[6]))), parts=parts)

@internal
@pure
def _weigh(o: Out, w: uint256[2], tag: String[6], d: DynArray[uint256, 4], x: uint8, y: int256) -> (uint256, String[12]):
    t: uint256 = o.total * w[0] + len(o.parts) * w[1] + convert(x, uint256)
    if y < 0:
        t += len(d)
    return t, concat(tag, ":", slice(uint2str(x), 0, 1))

@internal
def _store(o: Out, a: uint256, b: uint256, c: uint256, d: uint256, e: uint256, f: uint256) -> uint256:
    self.last = o
    self.acc += a + 2 * b + 3 * c + 4 * d + 5 * e + 6 * f
    return self.acc

@external
def run(a: uint256, c: Bytes[12], d: DynArray[uint256, 4], e: Cfg, f: bool) -> (uint256, String[12]):
    o: Out = self._mix(a, -5, c, d, e, f, keccak256(c))
    n: uint256 = self._store(o, a, len(c), len(d), e.k, o.total, self.acc % 10)
    log Done(total=n)
    return self._weigh(self._mix(n % 50, 3, c, d, e, not f, o.digest), [2, 3], e.name, d, 7, -1)

@external
@view
def mix_only(a: uint256, b: int128, d: DynArray[uint256, 4]) -> Out:
    return self._mix(
        a + self.acc % 7, b, b"const", d, Cfg(k=len(d), name="cfg", on=b < 0), True, convert(a, bytes32)
    )

@external
@view
def nested_calls(a: uint256, d: DynArray[uint256, 4]) -> uint256:
    return self._mix(
        self._mix(a, 1, b"x", d, Cfg(k=1, name="a", on=True), True, empty(bytes32)).total,
        2, b"yy", d, Cfg(k=2, name="b", on=False), False, self.last.digest,
    ).total
''')

# ---------------------------------------------------------------- (28) fallback + selector table
# Regression for "venom-sparse-empty-bucket-fallback-stack": with venom at gas/O3 the sparse selector table sent
# empty buckets straight to the fallback block with the selector still on the stack, so `len(msg.data) >= 4` in
# __default__ (CSE'd with the dispatcher's calldatasize check) was evaluated on the selector.  Probe with 5-byte
# calldata whose selector falls into an empty bucket (e.g. 0x1234567800): `sel` must be 0x12345678 in every config.
_add("fallback_selectors", '''
event Fell:
    sender: indexed(address)
    value: uint256
    datalen: uint256
    sel: Bytes[4]

event Hit:
    which: uint256

hits: public(HashMap[uint256, uint256])
fallbacks: public(uint256)

@internal
def _hit(i: uint256) -> uint256:
    self.hits[i] += 1
    log Hit(which=i)
    return self.hits[i] * 100 + i

@external
def transfer(to: address, amt: uint256) -> uint256:
    return self._hit(1) + amt

@external
def transfer1(to: address, amt: uint256) -> uint256:
    return self._hit(2) + amt

@external
def transfer2(amt: uint256) -> uint256:
    return self._hit(3) + amt

@external
def transferFrom(a: address, b: address, amt: uint256) -> uint256:
    return self._hit(4) + amt

@external
def approve(a: address, amt: uint256) -> bool:
    return self._hit(5) > amt

@external
@view
def balanceOf(a: address) -> uint256:
    return self.hits[convert(a, uint256) % 16]

@external
@view
def allowance(a: address, b: address) -> uint256:
    return self.hits[1] + self.hits[2]

@external
@pure
def name() -> String[8]:
    return "selector"

@external
@pure
def symbol() -> String[3]:
    return "SEL"

@external
@pure
def decimals() -> uint8:
    return 18

@external
@payable
def mint(amt: uint256) -> uint256:
    return self._hit(6) + amt + msg.value

@external
def burn(amt: uint256) -> uint256:
    return self._hit(7) + amt

@external
def f0() -> uint256:
    return self._hit(8)

@external
def f1(x: uint8) -> uint256:
    return self._hit(9) + convert(x, uint256)

@external
def f2(x: int8, y: bool) -> uint256:
    return self._hit(10)

@external
@payable
def __default__():
    self.fallbacks += 1
    sel: Bytes[4] = b""
    if len(msg.data) >= 4:
        sel = slice(msg.data, 0, 4)
    log Fell(sender=msg.sender, value=msg.value, datalen=len(msg.data), sel=sel)
''')


# --- method ids ending in zero bytes: calldata that is a proper prefix of such an id must not reach the function ---
_ZERO_SEL = '''
event Fell:
    datalen: uint256

event Hit:
    which: uint256

n: public(uint256)

@external
def gh() -> uint256:          # 0x33b10800
    log Hit(which=1)
    return 1

@external
def sb() -> uint256:          # 0xd4e32100
    log Hit(which=2)
    return 2

@external
def yk() -> uint256:          # 0x944f1000
    self.n += 1
    return 3

@external
def dein() -> uint256:        # 0x0afe0000
    log Hit(which=4)
    return 4

@external
def dgur() -> uint256:        # 0x9c700000
    self.n += 10
    return 5

@external
def abo(x: uint256) -> uint256:      # 0x7c936c00
    return x + 6

@external
def askv(x: uint256) -> uint256:     # 0x462c0000
    return x + 7

@external
@payable
def pay() -> uint256:
    return msg.value

@external
def plain(x: uint256) -> uint256:
    return x * 2
'''
_add("fallback_zero_selectors", _ZERO_SEL + '''
@external
@payable
def __default__():
    self.n += 100
    log Fell(datalen=len(msg.data))
''')
_add("zero_selectors_no_default", _ZERO_SEL)


# --- the callee observes the caller's INTERMEDIATE state: a store before an external call must not be elided / delayed ---
_add("callback_storage", _IFACE + '''
event Obs:
    tag: uint256
    v: uint256

x: public(uint256)
arr: public(uint256[3])
helper: address

@deploy
def __init__(helper: address):
    self.helper = helper

@external
@view
def seen() -> uint256:
    return self.x + self.arr[1] * 1000

@external
@view
def seen_t() -> uint256:
    return 0

@external
def note(tag: uint256) -> uint256:
    log Obs(tag=tag, v=self.x)
    return self.x

@external
def static_between(a: uint256, b: uint256) -> uint256:
    self.x = a
    r: uint256 = staticcall Helper(self.helper).peek(self)
    self.x = b
    return r

@external
def ext_between(a: uint256, b: uint256) -> uint256:
    self.x = a
    r: uint256 = extcall Helper(self.helper).poke(self, 7)
    self.x = b
    return r

@external
def raw_static_between(a: uint256, b: uint256) -> uint256:
    self.x = a
    res: Bytes[32] = raw_call(self.helper, abi_encode(self, method_id=method_id("peek(address)")), max_outsize=32, is_static_call=True)
    self.x = b
    return convert(res, uint256)

@external
def raw_between(a: uint256, b: uint256) -> uint256:
    self.x = a
    res: Bytes[32] = raw_call(self.helper, abi_encode(self, convert(9, uint256), method_id=method_id("poke(address,uint256)")), max_outsize=32)
    self.x = b
    return convert(res, uint256)

@external
def loop_between(a: uint256) -> uint256:
    acc: uint256 = 0
    for i: uint256 in range(3):
        self.x = a % 1000 + i
        acc += staticcall Helper(self.helper).peek(self)
    self.x = 0
    return acc

@external
def aug_between(a: uint256) -> uint256:
    self.x = 1
    self.x += a % 1000
    r: uint256 = staticcall Helper(self.helper).peek(self)
    self.x += a % 1000
    return r * 1000000 + self.x

@external
def array_between(a: uint256, b: uint256) -> uint256:
    self.arr[1] = a % 1000
    r: uint256 = staticcall Helper(self.helper).peek(self)
    self.arr[1] = b % 1000
    self.arr[1] = 0
    return r

@external
def branch_between(a: uint256, c: bool) -> uint256:
    self.x = a
    r: uint256 = 0
    if c:
        r = staticcall Helper(self.helper).peek(self)
    else:
        r = extcall Helper(self.helper).poke(self, 3)
    self.x = a + 1
    return r
''')

_add("callback_transient", _IFACE + '''
event Obs:
    tag: uint256
    v: uint256

t: public(transient(uint256))
x: public(uint256)
helper: address

@deploy
def __init__(helper: address):
    self.helper = helper

@external
@view
def seen() -> uint256:
    return self.x

@external
@view
def seen_t() -> uint256:
    return self.t

@external
def note(tag: uint256) -> uint256:
    log Obs(tag=tag, v=self.t)
    return self.t

@external
def static_between(a: uint256, b: uint256) -> uint256:
    self.t = a
    r: uint256 = staticcall Helper(self.helper).peek_t(self)
    self.t = b
    return r

@external
def ext_between(a: uint256, b: uint256) -> uint256:
    self.t = a
    r: uint256 = extcall Helper(self.helper).poke(self, 5)
    self.t = b
    return r

@external
def loop_between(a: uint256) -> uint256:
    acc: uint256 = 0
    for i: uint256 in range(3):
        self.t = a % 1000 + i
        acc += staticcall Helper(self.helper).peek_t(self)
    self.t = 0
    return acc

@external
def mixed_between(a: uint256, b: uint256) -> uint256:
    self.x = a
    self.t = b
    r: uint256 = staticcall Helper(self.helper).peek(self) + 1000003 * staticcall Helper(self.helper).peek_t(self)
    self.x = 0
    self.t = 0
    return r
''', min_evm="cancun")


# --- range-narrowed arithmetic: operands narrowed by % & min / comparisons / asserts, then + - * on them.  The optimiser may
#     drop overflow checks only when the ranges prove them redundant; inputs around the narrowing bounds decide. ---
_add("range_narrowing", '''
event R:
    v: uint256

last: public(uint256)

@external
def sub_mod(a: uint256, b: uint256) -> uint256:
    r: uint256 = (a % 100) - (b % 50)
    self.last = r
    return r

@external
def sub_mod_small(a: uint256, b: uint256) -> uint256:
    return (a % 7) - (b % 7)

@external
def sub_and(a: uint256, b: uint256) -> uint256:
    return (a & 255) - (b & 127)

@external
def sub_min(a: uint256, b: uint256) -> uint256:
    return min(a, 1000) - min(b, 10)

@external
def sub_guard(a: uint256, b: uint256) -> uint256:
    if a < 128 and b <= 256:
        return a - b
    return 0

@external
def sub_assert(a: uint256, b: uint256) -> uint256:
    assert a < 100
    assert b < 50
    return a - b

@external
def sub_ge_guard(a: uint256, b: uint256) -> uint256:
    if a >= b:
        return a - b
    return b - a

@external
def add_mod_u8(a: uint8, b: uint8) -> uint8:
    return (a % 200) + (b % 100)

@external
def mul_mod_u8(a: uint8, b: uint8) -> uint8:
    return (a % 20) * (b % 20)

@external
def sub_signed(a: int128, b: int128) -> int128:
    return (a % 100) - (b % 50)

@external
def sub_signed_guard(a: int256, b: int256) -> int256:
    if a > -10 and a < 10 and b > -5:
        return a - b
    return 0

@external
def add_signed_i8(a: int8, b: int8) -> int8:
    return (a % 100) + (b % 100)

@external
def loop_sub(a: uint256, n: uint256) -> uint256:
    x: uint256 = a % 10
    for i: uint256 in range(n % 5, bound=5):
        x = x - (i % 3)
        log R(v=x)
    return x

@external
def sub_convert(a: uint8, b: uint16) -> uint256:
    return convert(a, uint256) - convert(b, uint256)
''')
