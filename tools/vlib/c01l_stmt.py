"""C01 (legacy code generator): O-tie for the statement model coq/C01V/LStmt.v, and the bridge to the Venom model.

The random function bodies of c01v_stmt (same generator, same Python meaning) are compiled by the LEGACY pipeline at
-O none (`CompilerData.ir_runtime`).  The IR of the body is walked together with the source: frame addresses are mapped
to the source names per scope (sibling scopes reuse addresses), the cache flags the code generator chose are read off
the IR (c01_exprtie.annotate), loop index variables `range_ixN` are renamed by order of creation; single-child `seq`
wrappers are stripped, `(if (iszero c) <... revert ...>)` (assert with reason) is exported as `(assert c)`, `exit_to` as
LSRetVar / LSRetVal.  The exported `lstmt` is compared syntactically, in Coq (vm_compute), with `LStmt.llower body`
(`ltie_ok`, which also evaluates the static side conditions `lok_list`).  The SAME body term is then checked against the
real Venom front end's blocks (`VStmt.stie_ok`), so that `legacy_venom_agree` applies to the sample.  Every sample is run
through the whole legacy pipeline on pyrevm against the Python meaning.
Theorems: coq/C01V/PropsLStmt.v."""
import re

from vlib import c01_exprtie as E
from vlib import c01v_stmt as VS
from vlib import coqrun
from vlib.c01_exprtie import bounds, nty, ty_vy
from vlib.c01v_part import ExportError, real_venom
from vlib.c03_export import zl

PROOF_FILES = ["C01V/LStmt.v", "C01V/LStmtProofs.v", "C01V/PropsLStmt.v"]
DEPS = VS.DEPS + VS.PROOF_FILES
IMPORTS = ("From Coq Require Import String List.\nImport ListNotations.\nFrom Verif Require Import Base.Word256 C03.LIR C03.ArithSpec "
           "C03.VSL C01.ExprCompile C01V.VExpr C01V.VBlocks C01V.VStmt C01V.LStmt.\nOpen Scope string_scope.\nOpen Scope Z_scope.\n"
           "Open Scope list_scope.\n")


def build(ctx, deps=None):
    import os
    files = [f for f in PROOF_FILES if os.path.exists(str(coqrun.COQ / f))]
    return ctx.coq_build_cached(files, deps=list(deps) if deps is not None else DEPS, timeout=900)


def prebuild(ctx):
    build(ctx)


# ------------------------------------------------------------------ walking source and IR together
class Walker:
    def __init__(self):
        self.ix = {}          # real loop index name -> rank

    def names(self, term, addr):
        inv = {}
        for n, a in addr.items():
            inv[a] = n          # later declarations of a scope win (addresses are reused by sibling scopes only)

        def rep(m):
            a = int(m.group(1))
            if a not in inv:
                raise ExportError(f"memory word {a} is not a local in scope")
            return '"' + inv[a] + '"'
        term = re.sub(r'"m(\d+)"', rep, term)

        def rix(m):
            if m.group(1) not in self.ix:
                raise ExportError(f"loop index {m.group(1)} out of scope")
            return f"(ixn {self.ix[m.group(1)]})"
        return re.sub(r'"(range_ix\d+)"', rix, term)

    def lir(self, node, addr):
        try:
            return self.names(E.lir_term(node), addr)
        except E.ExportError as ex:
            raise ExportError(str(ex))

    def sx(self, e, node, addr):
        try:
            return self.names(E.annotate(e, node, addr), addr)
        except E.Mismatch as ex:
            raise ExportError(f"expression shape: {ex}")

    def store(self, node):
        node = E.strip_seq(node)
        if not (node.value == "mstore" and len(node.args) == 2 and isinstance(node.args[0].value, int) and not node.args[0].args):
            raise ExportError(f"expected a store to a local, got {str(node)[:80]}")
        return node.args[0].value, node.args[1]

    def block(self, stmts, children, addr):
        """-> (source term, [target terms])"""
        if len(children) != len(stmts) + 1 or children[-1].value != "pass":
            raise ExportError(f"block shape: {len(stmts)} statements, {len(children)} IR children")
        addr = dict(addr)
        src, tgt = [], []
        for s, n in zip(stmts, children):
            a, b = self.stmt(s, n, addr)
            src.append(a)
            tgt.append(b)
        return "[" + "; ".join(src) + "]", "[" + "; ".join(tgt + ["LSPass"]) + "]"

    def seq_children(self, node):
        if node.value != "seq":
            raise ExportError(f"expected a seq, got {str(node)[:60]}")
        return node.args

    def stmt(self, s, n, addr):
        k = s.k
        if k in ("decl", "assign", "aug", "augbit"):
            a, val = self.store(n)
            if k == "decl":
                addr[s.x] = a
            elif addr.get(s.x) != a:
                raise ExportError(f"store to {a}, expected the word of {s.x}")
            e = s.e if k in ("decl", "assign") else VS.aug_expr(s)
            return f'SAssign "{s.x}" {self.sx(e, val, addr)}', f'LSStore "{s.x}" {self.lir(val, addr)}'
        n = E.strip_seq(n)
        if k == "assert":
            if n.value == "assert" and len(n.args) == 1 and not s.msg:
                c = n.args[0]
            elif n.value == "if" and len(n.args) == 2 and n.args[0].value == "iszero" and s.msg and "revert" in str(n.args[1]):
                c = n.args[0].args[0]
            else:
                raise ExportError(f"assert shape: {str(n)[:80]}")
            return f"SAssert {self.sx(s.c, c, addr)}", f"LSAssert {self.lir(c, addr)}"
        if k in ("pass", "break", "continue"):
            if n.value != k or n.args:
                raise ExportError(f"expected {k}, got {str(n)[:60]}")
            return {"pass": "SPass", "break": "SBreak", "continue": "SContinue"}[k], {"pass": "LSPass", "break": "LSBreak", "continue": "LSContinue"}[k]
        if k == "return":
            ch = list(self.seq_children(n))
            # [pass <fill return buffer>, seq | cleanup_repeat (inside loops: pops the loop counters), exit_to]
            if not (len(ch) == 3 and ch[0].value == "pass" and ch[1].value in ("seq", "cleanup_repeat") and not ch[1].args
                    and ch[2].value == "exit_to" and len(ch[2].args) == 3):
                raise ExportError(f"return shape: {str(n)[:120]}")
            _, ofst, ln = ch[2].args
            if isinstance(ln.value, int) and ln.value == 32 and not ln.args and isinstance(ofst.value, int) and not ofst.args:
                if s.e.k != "var" or addr.get(s.e.name) != ofst.value:
                    raise ExportError("return of a memory word that is not the returned local")
                return f"SReturn {self.sx(s.e, None, addr) if False else VS.coq_expr(s.e)}", f'LSRetVar "{s.e.name}"'
            x = ln
            depth = 0
            while x.value == "seq" and len(x.args) in (1, 2) and depth < 4:
                if len(x.args) == 2:
                    if not (isinstance(x.args[1].value, int) and x.args[1].value == 32):
                        raise ExportError("return length")
                x = x.args[0]
                depth += 1
            if not (x.value == "mstore" and len(x.args) == 2 and x.args[0].value == "add" and isinstance(x.args[0].args[0].value, int)
                    and x.args[0].args[0].value == ofst.value and x.args[0].args[1].value == 0):
                raise ExportError(f"return buffer shape: {str(ln)[:120]}")
            val = x.args[1]
            return f"SReturn {self.sx(s.e, val, addr)}", f"LSRetVal {self.lir(val, addr)}"
        if k == "if":
            if n.value != "if" or len(n.args) not in (2, 3) or (len(n.args) == 3) != bool(s.b):
                raise ExportError(f"if shape: {str(n)[:80]}")
            c = self.sx(s.c, n.args[0], addr)
            ct = self.lir(n.args[0], addr)
            sa, ta = self.block(s.a, self.seq_children(n.args[1]), addr)
            if s.b:
                sb, tb = self.block(s.b, self.seq_children(n.args[2]), addr)
                return f"SIf {c} {sa} {sb}", f"LSIfElse {ct} (LSSeq {ta}) (LSSeq {tb})"
            return f"SIf {c} {sa} []", f"LSIf {ct} (LSSeq {ta})"
        if k in ("for", "forb"):
            start_bound = None
            if n.value == "with":
                if not (len(n.args) == 3 and n.args[0].value == "start" and k == "forb"):
                    raise ExportError(f"loop shape: {str(n)[:80]}")
                start_bound = n.args[1]
                n = E.strip_seq(n.args[2])
            if n.value != "repeat" or len(n.args) != 5:
                raise ExportError(f"loop shape: {str(n)[:80]}")
            ixv, st, rd, bd, body = n.args
            if not isinstance(ixv.value, str) or ixv.value in self.ix:
                raise ExportError(f"loop index {ixv.value!r} is not fresh")
            rank = len(self.ix)
            self.ix[ixv.value] = rank
            bch = self.seq_children(body)
            if len(bch) != 2:
                raise ExportError("loop body shape")
            ia, iv = self.store(bch[0])
            if iv.value != ixv.value:
                raise ExportError("the loop variable is not initialized from the index")
            addr2 = dict(addr)
            addr2[s.i] = ia
            sb, tb = self.block(s.body, self.seq_children(bch[1]), addr2)
            tbody = f'(LSSeq [LSStore "{s.i}" (LVar (ixn {rank})); LSSeq {tb}])'
            if not isinstance(bd.value, int):
                raise ExportError("loop bound")
            if k == "for":
                rep = f"LSRepeat (ixn {rank}) {self.lir(st, addr)} {self.lir(rd, addr)} {zl(bd.value)} {tbody}"
                del self.ix[ixv.value]
                self.ix[ixv.value + "#done"] = rank
                return f'SFor "{s.i}" {zl(s.lo)} {s.rounds} {sb}', rep
            # bound= : the end expression sits in (with end <b> (sub end (seq (assert (le start end)) start)))
            if not (rd.value == "with" and len(rd.args) == 3 and rd.args[0].value == "end"):
                raise ExportError(f"rounds shape: {str(rd)[:100]}")
            b_s = self.sx(s.b, rd.args[1], addr)
            if start_bound is not None:
                a_s = self.sx(s.a, start_bound, addr)
            else:
                a_s = VS.coq_expr(s.a)
            rep = f"LSRepeat (ixn {rank}) {self.lir(st, addr)} {self.lir(rd, addr)} {zl(bd.value)} {tbody}"
            if start_bound is not None:
                rep = f'LSWith "start" {self.lir(start_bound, addr)} ({rep})'
            del self.ix[ixv.value]
            self.ix[ixv.value + "#done"] = rank
            return f'SForB "{s.i}" {nty(s.t)} {a_s} {b_s} {zl(s.bound)} {sb}', rep
        raise ValueError(k)


def find_body(ir, nloc):
    """the seq whose first nloc children initialize the locals v0.. in consecutive words"""
    found = []

    def rec(n):
        if n.value == "seq" and len(n.args) > nloc:
            ok, addrs = True, []
            for c in n.args[:nloc]:
                c = E.strip_seq(c)
                if c.value == "mstore" and len(c.args) == 2 and isinstance(c.args[0].value, int) and not c.args[0].args:
                    addrs.append(c.args[0].value)
                else:
                    ok = False
                    break
                if c.args[1].value not in ("calldataload", "mload"):      # `v_i: T = p_i` copies a parameter
                    ok = False
                    break
            if ok and all(addrs[i + 1] - addrs[i] == 32 for i in range(nloc - 1)):
                found.append((n, addrs))
        for a in n.args:
            rec(a)
    rec(ir)
    if not found:
        raise ExportError("body node not found")
    return found[0]          # pre-order: the function body encloses every user block


def sample(rng, depth):
    from vlib.c01_exprtie import TYPES
    nloc = rng.randrange(2, 5)
    tys = [rng.choice(TYPES) for _ in range(rng.randrange(1, 3))]
    locals_ = [(f"v{i}", rng.choice(tys + (["bool"] if rng.random() < 0.3 else []))) for i in range(nloc)]
    if all(t == "bool" for _, t in locals_):
        locals_[0] = ("v0", tys[0])
    g = VS.StmtGen(rng, locals_)
    ret_ty = rng.choice(g.int_types() + ["bool"])
    body = g.block(depth, False, n=rng.randint(1, 4), ret_ty=ret_ty, must_return=True)
    src = VS.source_of(locals_, body, ret_ty)
    try:
        ir = E.real_ir(src)
    except Exception as ex:  # noqa
        return {"src": src, "rejected": f"{type(ex).__name__}: {str(ex)[:200]}"}
    out = {"src": src, "body": body, "locals": locals_, "ret_ty": ret_ty}
    try:
        node, addrs = find_body(ir, nloc)
        addr = {n: a for (n, _), a in zip(locals_, addrs)}
        w = Walker()
        s_term, t_term = w.block(body, node.args[nloc:], addr)
    except ExportError as ex:
        return dict(out, error=str(ex))
    out["coq_s"] = s_term
    out["coq_t"] = f"(LSSeq {t_term})"
    # the Venom front end's blocks for the same source (for the bridge)
    try:
        vb = VS.export_body(real_venom(src), locals_, g.declared)
        out["coq_b"] = "[" + ";\n   ".join(vb) + "]"
    except Exception as ex:  # noqa
        out["venom_error"] = f"{type(ex).__name__}: {str(ex)[:160]}"
    return out


def differential(s, rnd, tries=6):
    """legacy pipeline + EVM against the python meaning"""
    import warnings
    from vyper.compiler import compile_code
    from vyper.compiler.settings import OptimizationLevel, Settings
    from vyper.utils import method_id_int
    from vlib import c14_pass_sem as SEM
    locals_, body, rt = s["locals"], s["body"], s["ret_ty"]
    with warnings.catch_warnings():
        warnings.simplefilter("ignore")
        try:
            out = compile_code(s["src"], output_formats=["bytecode_runtime"],
                               settings=Settings(experimental_codegen=False, optimize=OptimizationLevel.NONE))
        except Exception:  # noqa
            return None, 0
    code = bytes.fromhex(out["bytecode_runtime"][2:])
    sel = method_id_int("f(" + ",".join(ty_vy(t) for _, t in locals_) + ")").to_bytes(4, "big")
    n = 0
    for _ in range(tries):
        vals = []
        for _, t in locals_:
            if t == "bool":
                vals.append(rnd.choice([0, 1]))
            else:
                lo, hi = bounds(t)
                vals.append(min(max(rnd.choice([0, 1, 2, 3, 7, lo, hi, lo + 1, hi - 1, rnd.randrange(lo, hi + 1)]), lo), hi))
        env = {n_: v for (n_, _), v in zip(locals_, vals)}
        exp = VS.py_exec(body, env)
        data = sel + b"".join((v % 2 ** 256).to_bytes(32, "big") for v in vals)
        r = SEM.evm_run(code, {"data": data.hex(), "value": 0, "sender": "0x" + "11" * 20})
        if r is None:
            return None, n
        n += 1
        if r["ok"]:
            w = int.from_bytes(r["out"], "big")
            got = w - 2 ** 256 if (rt != "bool" and rt[1] and w >= 2 ** 255) else w
        else:
            got = None
        if got != exp:
            return {"source": s["src"], "arguments": {k: str(v) for k, v in env.items()}, "expected": "revert" if exp is None else str(exp),
                    "evm": "revert" if got is None else str(got), "pipeline": "legacy, -O none"}, n
    return None, n


def part_lstmt(ctx, deps=None):
    b = build(ctx, deps)
    stats = {"samples": 0, "rejected_by_compiler": 0, "export_errors": 0, "equal": 0, "different": 0, "evm_runs": 0, "evm_mismatches": 0,
             "venom_bridge_equal": 0, "venom_bridge_different": 0, "venom_export_errors": 0}
    if not b["ok"]:
        ctx.violation("theorem-broken", f"{b.get('failed_lemma')} in {b['file']}",
                      {"theorem": b.get("failed_lemma"), "file": b["file"], "coq_output": b["out"][-1500:]})
    rng = ctx.rng("lstmt")
    want = 60 if ctx.tier == "quick" else 600
    samples, kinds, tries = [], {}, 0
    while len(samples) < want and tries < 6 * want:
        tries += 1
        s = sample(rng, rng.choice([1, 2, 2, 3]))
        if "rejected" in s:
            stats["rejected_by_compiler"] += 1
            stats.setdefault("first_rejection", s["rejected"][:160])
            continue
        if "error" in s:
            stats["export_errors"] += 1
            stats.setdefault("first_export_error", s["error"][:200])
            ff = None
            if stats["export_errors"] <= 8 and stats["evm_mismatches"] < 2:
                # the IR does not have the expected shape: is the program also miscompiled?
                try:
                    ff, n = differential(s, ctx.rng("lstmt-err:" + s["src"]), tries=8)
                    stats["evm_runs"] += n
                except Exception:  # noqa
                    ff = None
                if ff is not None:
                    stats["evm_mismatches"] += 1
                    ctx.violation("failing-input", "the legacy pipeline miscompiles a function body (statements over int/bool locals)",
                                  dict(ff, export_error=s["error"][:200]), key="lstmt:" + str(hash(s["src"]) % 10 ** 8))
            if ff is None and stats["export_errors"] <= 2:
                ctx.violation("correspondence-broken", "the legacy IR of a function body of the fragment could not be exported: " + s["error"],
                              {"source": s["src"]})
            continue
        samples.append(s)
        VS.count_stmts(s["body"], kinds)
    stats["samples"] = len(samples)
    stats["stmt_kinds"] = kinds
    if stats["rejected_by_compiler"] > 3 * max(1, len(samples)):
        ctx.violation("correspondence-broken", "the compiler rejects most generated function bodies", dict(stats))
    found = stats["evm_mismatches"]
    for s in samples:
        try:
            ff, n = differential(s, ctx.rng("lstmt-evm:" + s["src"]), tries=4 if ctx.tier == "quick" else 6)
        except Exception as ex:  # noqa
            ff, n = None, 0
            stats.setdefault("first_evm_error", repr(ex)[:200])
        stats["evm_runs"] += n
        if ff is not None:
            stats["evm_mismatches"] += 1
            if found < 2:
                found += 1
                ctx.violation("failing-input", "the legacy pipeline miscompiles a function body (statements over int/bool locals)", ff,
                              key="lstmt:" + str(hash(s["src"]) % 10 ** 8))
    if samples and b["ok"]:
        exprs = [f"[if ltie_ok {s['coq_s']} {s['coq_t']} then 1 else 0]" for s in samples]
        bridge = [s for s in samples if "coq_b" in s]
        stats["venom_export_errors"] = len(samples) - len(bridge)
        exprs += [f"[if stie_ok {s['coq_s']} {s['coq_b']} then 1 else 0]" for s in bridge]
        try:
            res = coqrun.eval_zlists(IMPORTS, exprs, "c01lstmt", shard=max(1, len(exprs) // 6), timeout=600)
        except RuntimeError as ex:
            res = None
            ctx.violation("correspondence-broken", "the legacy statement tie could not be evaluated in Coq", {"error": str(ex)[-1500:]})
        if res is not None:
            bad = [s for s, r in zip(samples, res[:len(samples)]) if r != [1]]
            stats["equal"] = len(samples) - len(bad)
            stats["different"] = len(bad)
            badb = [s for s, r in zip(bridge, res[len(samples):]) if r != [1]]
            stats["venom_bridge_equal"] = len(bridge) - len(badb)
            stats["venom_bridge_different"] = len(badb)
            for s in ([] if found else sorted(bad, key=lambda s_: len(s_["src"]))[:8]):
                if found >= 2:
                    break
                try:
                    ff, n = differential(s, ctx.rng("lstmt-search:" + s["src"]), tries=24)
                except Exception:  # noqa
                    ff, n = None, 0
                stats["evm_runs"] += n
                if ff is not None:
                    found += 1
                    stats["evm_mismatches"] += 1
                    ctx.violation("failing-input", "the legacy pipeline miscompiles a function body (statements over int/bool locals)", ff,
                                  key="lstmt:" + str(hash(s["src"]) % 10 ** 8))
            for s in ([] if found else sorted(bad, key=lambda s_: len(s_["src"]))[:2]):
                ctx.violation("theorem-broken", "lstmt_compile_correct does not apply: the legacy IR of a function body differs from the "
                              "model LStmt.llower (or a static side condition fails)",
                              {"theorem": "lstmt_compile_correct (llower body <> real IR)", "source": s["src"],
                               "real_ir": s["coq_t"][:4000], "body": s["coq_s"][:2000]})
            for s in ([] if (found or bad) else badb[:2]):
                ctx.violation("theorem-broken", "legacy_venom_agree does not apply: the body term read off the legacy IR is not the one "
                              "the Venom front end's blocks correspond to",
                              {"theorem": "legacy_venom_agree (stie_ok on the legacy-annotated body)", "source": s["src"],
                               "body": s["coq_s"][:2000]})
    ctx.corr["lstmt_tie"] = stats
    ctx.log("lstmt " + " ".join(f"{k}={v}" for k, v in stats.items()))
    if samples:
        ctx.samples.append({"lstmt": samples[0]["src"][:400]})
    return stats["equal"] + stats["different"] + stats["evm_runs"] + stats["venom_bridge_equal"]
