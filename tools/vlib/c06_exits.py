"""C06 tie: push (type, value) pairs through the real compiler + pyrevm via the ABI exits
(return data, event data/topics, abi_encode builtin, outgoing call calldata, revert payloads)
after a memory-dirtying prelude, and return the observed bytes."""
import traceback

from . import c06_abi as A

ECHO_RUNTIME = bytes.fromhex("366000600037366000a000")  # calldatacopy(0,0,cds); log0(0,cds); stop
B5 = ("bytes", 5)
S5 = ("string", 5)
ADDR = ("address",)
METHOD_ID = 0xDEADBEEF
# the 4-byte prefix of `abi_encode(..., method_id=M)`: a family (the all-zero selector is legal and FALSY in Python; single low /
# high bytes; all ones), chosen per type so that every run uses every member
METHOD_IDS = [0xDEADBEEF, 0x00000000, 0x000000FF, 0xFF000000, 0x80000000, 0xFFFFFFFF, 0x00000001]


def method_id_for(t):
    import zlib
    return METHOD_IDS[zlib.crc32(repr(t).encode()) % len(METHOD_IDS)]


def prelude(k):
    return (f"    if self.idx != 77:\n"
            f"        d0: uint256[{k}] = empty(uint256[{k}])\n"
            f"        for i0: uint256 in range({k}):\n"
            f"            d0[i0] = max_value(uint256)\n"
            f"        self.sink = d0[self.idx]\n")


def build_source(t):
    d = A.Decls()
    T = d.vy(t)
    sb = A.size_bound(t)
    k = min(max((sb + 400) // 32, 24), 160)
    P = prelude(k)
    n0 = A.size_bound(("tuple", (t,)))
    n1 = A.size_bound(t)
    n2 = A.size_bound(("tuple", (t, B5))) + 4
    indexed = t[0] in A.SCALARS
    MID = "0x%08x" % method_id_for(t)
    src = d.text()
    src += f"""
event E:
    a: {T}
    i: indexed(uint256)
    b: String[5]
"""
    if indexed:
        src += f"""
event EI:
    a: indexed({T})
    c: uint8
"""
    src += f"""
error Err:
    a: {T}
    b: Bytes[5]

interface Echo:
    def echo(x: {T}): nonpayable
    def echo2(x: {T}, b: Bytes[5]): nonpayable

s: {T}
sink: uint256
idx: uint256

@external
def ret_cd(x: {T}) -> {T}:
{P}    return x

@external
def ret_mem(x: {T}) -> {T}:
{P}    y: {T} = x
    return y

@external
def ret_sto(x: {T}) -> {T}:
    self.s = x
{P}    return self.s

@external
def ret2(x: {T}, b: Bytes[5]) -> ({T}, Bytes[5]):
{P}    return x, b

@external
def ev(x: {T}, b: String[5]):
{P}    log E(a=x, i=7, b=b)

@external
def enc0(x: {T}) -> Bytes[{n0}]:
{P}    return abi_encode(x)

@external
def enc1(x: {T}) -> Bytes[{n1}]:
{P}    return abi_encode(x, ensure_tuple=False)

@external
def enc2(x: {T}, b: Bytes[5]) -> Bytes[{n2}]:
{P}    return abi_encode(x, b, method_id={MID})

@external
def ext(a: address, x: {T}):
{P}    extcall Echo(a).echo(x)

@external
def ext2(a: address, x: {T}, b: Bytes[5]):
{P}    extcall Echo(a).echo2(x, b)

@external
def cerr(x: {T}, b: Bytes[5]):
{P}    raise Err(a=x, b=b)
"""
    if indexed:
        src += f"""
@external
def evi(x: {T}):
{P}    log EI(a=x, c=9)
"""
    return src, {"n0": n0, "n1": n1, "n2": n2, "indexed": indexed, "mid": method_id_for(t)}


def coq_pack_expr(t, v, b5, addr, info):
    """one Coq expression (string) packing all encodings needed for (t, v):
       A|B|C|D|D2|WA|WB|WC"""
    ct, cv = A.coq_ty(t), A.coq_val(t, v)
    cb = f"(VBytes {A.coq_bytes(b5)})"
    ca = f"(VInt {hex(addr)})"
    mid = A.coq_bytes(info.get("mid", METHOD_ID).to_bytes(4, "big"))
    return (f"let t := {ct} in let v := {cv} in "
            f"let eA := enc (TTuple [t]) (VList [v]) in let eB := enc t v in "
            f"let eC := enc (TTuple [t; TBytes 5]) (VList [v; {cb}]) in "
            f"pack [eA; eB; eC; enc (TTuple [TAddress; t]) (VList [{ca}; v]); "
            f"enc (TTuple [TAddress; t; TBytes 5]) (VList [{ca}; v; {cb}]); "
            f"enc (TTuple [TBytes {info['n0']}]) (VList [VBytes eA]); "
            f"enc (TTuple [TBytes {info['n1']}]) (VList [VBytes eB]); "
            f"enc (TTuple [TBytes {info['n2']}]) (VList [VBytes ({mid} ++ eC)])]")


# printed as a list of short strings (one long concatenated string overflows coqc's stack in vm_compute/printing)
PACK_DEF = 'Definition pack (l : list (list Z)) : list string := map hex_of_bytes l.\n'


def unpack(o):
    import re
    return [bytes.fromhex(x) for x in re.findall(r'"([0-9a-f]*)"', o)]



def sig(name, tys):
    return f"{name}(" + ",".join(A.eth_ty(x) for x in tys) + ")"


def selector(s):
    from vyper.utils import keccak256
    return keccak256(s.encode())[:4]


def observe(ch, addr, calldata, exit_name):
    """call and extract the bytes that leave the contract through the named exit (None = not produced)"""
    from .evm import log_tuple
    exit_name = exit_name.replace("+dirty_input", "")
    exit_name = {"storage_return": "ret_cd", "storage_event": "lit_event", "storage_abi_encode": "ret_cd",
                 "storage_custom_error": "custom_error_revert", "raw_return": "ret_cd",
                 "raw_revert": "custom_error_revert", "raw_log": "lit_event"}.get(exit_name, exit_name)
    r = ch.call(addr, calldata)
    if exit_name in ("ret_cd", "ret_mem", "ret_sto", "ret2", "abi_encode", "abi_encode_no_tuple", "abi_encode_method_id",
                     "lit_darr", "lit_darr1", "lit_struct", "lit_tuple", "lit_abi_encode"):
        return r.out if r.ok else None
    if exit_name == "lit_event":
        return log_tuple(r.logs[0])[2] if r.ok and len(r.logs) == 1 else None
    if exit_name == "event_data":
        if r.ok and len(r.logs) == 1:
            _, topics, data = log_tuple(r.logs[0])
            if len(topics) != 2 or topics[1] != (7).to_bytes(32, "big"):
                return b"bad topics " + b"".join(topics)
            return data
        return None
    if exit_name == "event_indexed_topic":
        if r.ok and len(r.logs) == 1:
            _, topics, data = log_tuple(r.logs[0])
            return (topics[1] if len(topics) == 2 else b"") + data
        return None
    if exit_name in ("extcall_calldata", "extcall2_calldata"):
        if r.ok and len(r.logs) == 1:
            return log_tuple(r.logs[0])[2]
        return None
    if exit_name in ("custom_error_revert", "r_raise", "r_assert"):
        return None if r.ok else r.out
    raise ValueError(exit_name)


def replay_one(src, cfg, calldata, exit_name):
    """re-execute one recorded case: same deployment order as run_type_config (main contract, then echo callee)"""
    from .configs import compile_src
    from .evm import Chain
    c = compile_src(src, cfg, formats=("bytecode",))
    ch = Chain(cfg.evm)
    addr = ch.deploy(bytes.fromhex(c["bytecode"][2:]))
    ch.set_code(None, ECHO_RUNTIME)
    return observe(ch, addr, calldata, exit_name)


def run_type_config(job):
    """job = (src, cfg, t, cases) with cases = list of dict(enc=[A,B,C,D,D2,WA,WB,WC] bytes).
    Returns list (per case) of dict exit -> (observed bytes | None, expected bytes) mismatches only,
    plus count of comparisons.  Runs in a worker process."""
    src, cfg, t, cases, echo_evms = job
    from .configs import compile_src
    from .evm import Chain, log_tuple
    out = {"cfg": cfg.name, "mismatch": [], "n": 0, "error": None}
    try:
        c = compile_src(src, cfg, formats=("bytecode", "bytecode_runtime", "method_identifiers"))
    except Exception as e:  # noqa
        out["error"] = f"compile: {type(e).__name__}: {e}"[:600]
        if too_deep(out["error"]):
            out["skipped"], out["error"] = out["error"][:120], None
        return out
    if (len(c["bytecode_runtime"]) - 2) // 2 > 24576:
        out["skipped"] = "runtime code larger than the EIP-170 limit under this configuration"
        return out
    try:
        mids = {k.split("(")[0]: int(v, 16).to_bytes(4, "big") for k, v in c["method_identifiers"].items()}
        ch = Chain(cfg.evm)
        addr = ch.deploy(bytes.fromhex(c["bytecode"][2:]))
        if addr is None:
            out["error"] = "deploy failed"
            return out
        echo = ch.set_code(None, ECHO_RUNTIME)
        echo_int = int(echo, 16)
        indexed = t[0] in A.SCALARS
        sel_echo = selector(sig("echo", [t]))
        sel_echo2 = selector(sig("echo2", [t, B5]))
        sel_err = selector(sig("Err", [t, B5]))
        for ci, case in enumerate(cases):
            eA, eB, eC, eD, eD2, wA, wB, wC = case["enc"]
            # the address inside D/D2 was a placeholder: patch the real echo address in
            eD = echo_int.to_bytes(32, "big") + eD[32:]
            eD2 = echo_int.to_bytes(32, "big") + eD2[32:]
            plan = [("ret_cd", "ret_cd", eA, eA), ("ret_mem", "ret_mem", eA, eA), ("ret_sto", "ret_sto", eA, eA),
                    ("ret2", "ret2", eC, eC), ("event_data", "ev", eC, eC)]
            if indexed:
                plan.append(("event_indexed_topic", "evi", eA, eA + (9).to_bytes(32, "big")))
            plan += [("abi_encode", "enc0", eA, wA), ("abi_encode_no_tuple", "enc1", eA, wB),
                     ("abi_encode_method_id", "enc2", eC, wC), ("extcall_calldata", "ext", eD, sel_echo + eA),
                     ("extcall2_calldata", "ext2", eD2, sel_echo2 + eC), ("custom_error_revert", "cerr", eC, sel_err + eC)]
            for name, fn, data, exp in plan:
                got = observe(ch, addr, mids[fn] + data, name)
                out["n"] += 1
                if got != exp:
                    out["mismatch"].append({"case": ci, "exit": name, "observed": None if got is None else got.hex(),
                                            "expected": exp.hex(), "calldata": (mids[fn] + data).hex()})
            # the same exits fed with NON-ZERO byte-string padding in the calldata (accepted input; the emitted
            # bytes must still be canonical).  dirty = {A, C, D, D2 variants}
            dz = case.get("dirty")
            if dz:
                dA, dC, dD, dD2 = dz
                dD = echo_int.to_bytes(32, "big") + dD[32:]
                dD2 = echo_int.to_bytes(32, "big") + dD2[32:]
                sub = {"ret_cd": dA, "ret_mem": dA, "ret_sto": dA, "ret2": dC, "ev": dC, "enc0": dA, "enc1": dA, "enc2": dC,
                       "ext": dD, "ext2": dD2, "cerr": dC}
                for name, fn, data, exp in plan:
                    if fn not in sub:
                        continue
                    got = observe(ch, addr, mids[fn] + sub[fn], name)
                    out["n"] += 1
                    if got != exp:
                        out["mismatch"].append({"case": ci, "exit": name + "+dirty_input",
                                                "observed": None if got is None else got.hex(), "expected": exp.hex(),
                                                "calldata": (mids[fn] + sub[fn]).hex()})
    except Exception as e:  # noqa
        out["error"] = f"run: {type(e).__name__}: {e} {traceback.format_exc()[-800:]}"
    return out


# ---------------------------------------------------------------- revert reason strings
def reason_source(n):
    P = prelude(24)
    return f"""
sink: uint256
idx: uint256

@external
def r_raise(x: String[{n}]):
{P}    raise x

@external
def r_assert(c: bool, x: String[{n}]):
{P}    assert c, x

rs: String[{n}]

@external
def r_sto(x: String[{n}]):
    self.rs = x
{P}    raise self.rs
"""


def run_reason_config(job):
    src, cfg, n, cases = job   # cases: list of (encS = enc((string)), encBS = enc((bool,string)) with bool=0, dirty encS)
    from .configs import compile_src
    from .evm import Chain
    out = {"cfg": cfg.name, "mismatch": [], "n": 0, "error": None}
    try:
        c = compile_src(src, cfg, formats=("bytecode", "method_identifiers"))
        mids = {k.split("(")[0]: int(v, 16).to_bytes(4, "big") for k, v in c["method_identifiers"].items()}
        ch = Chain(cfg.evm)
        addr = ch.deploy(bytes.fromhex(c["bytecode"][2:]))
        err_sel = bytes.fromhex("08c379a0")
        for ci, (eS, eBS, dS) in enumerate(cases):
            for fn, data in (("r_raise", eS), ("r_assert", eBS), ("r_sto", eS), ("r_raise+dirty_input", dS),
                             ("r_sto+dirty_input", dS)):
                r = ch.call(addr, mids[fn.split("+")[0]] + data)
                got = None if r.ok else r.out
                out["n"] += 1
                if got != err_sel + eS:
                    out["mismatch"].append({"case": ci, "exit": fn, "observed": None if got is None else got.hex(),
                                            "expected": (err_sel + eS).hex(), "calldata": (mids[fn.split("+")[0]] + data).hex()})
    except Exception as e:  # noqa
        out["error"] = f"{type(e).__name__}: {e}"[:600]
    return out


# ---------------------------------------------------------------- literal / `multi` sources
def build_source_lit(t):
    """values built from list / tuple / struct LITERALS (IR `multi` nodes) instead of variables"""
    d = A.Decls()
    T = d.vy(t)
    tl = ("darr", t, 2)
    nL = A.size_bound(("tuple", (("tuple", (t, ("uint", 8))),)))
    nS = A.size_bound(("tuple", (t,)))
    k = min(max((A.size_bound(t) * 2 + 400) // 32, 24), 160)
    P = prelude(k)
    src = d.text() + f"""
struct W:
    a: {T}
    b: uint8

event EL:
    a: DynArray[{T}, 2]

event ES:
    a: {T}

error ErrS:
    a: {T}

st: {T}
sink: uint256
idx: uint256

@external
def sto_ret(x: {T}) -> {T}:
    self.st = x
{P}    return self.st

@external
def sto_log(x: {T}):
    self.st = x
{P}    log ES(a=self.st)

@external
def sto_enc(x: {T}) -> Bytes[{nS}]:
    self.st = x
{P}    return abi_encode(self.st)

@external
def sto_err(x: {T}):
    self.st = x
{P}    raise ErrS(a=self.st)

@external
@raw_return
def raw_ret(x: {T}) -> Bytes[{nS}]:
{P}    return abi_encode(x)

@external
def raw_rev(x: {T}):
{P}    raw_revert(abi_encode(x))

@external
def raw_lg(x: {T}):
{P}    raw_log([0x0000000000000000000000000000000000000000000000000000000000000007], abi_encode(x))

@external
def lit_darr(x: {T}) -> DynArray[{T}, 2]:
{P}    return [x, x]

@external
def lit_darr1(x: {T}) -> DynArray[{T}, 2]:
{P}    return [x]

@external
def lit_struct(x: {T}) -> W:
{P}    return W(a=x, b=7)

@external
def lit_tuple(x: {T}) -> (uint8, {T}):
{P}    return 7, x

@external
def lit_enc(x: {T}) -> Bytes[{nL}]:
{P}    return abi_encode(W(a=x, b=7))

@external
def lit_log(x: {T}):
{P}    log EL(a=[x, x])
"""
    return src, {"nL": nL, "nS": nS}


def coq_pack_expr_lit(t, v, info):
    ct, cv = A.coq_ty(t), A.coq_val(t, v)
    return (f"let t := {ct} in let v := {cv} in "
            f"let eL := enc (TTuple [TDArr t 2]) (VList [VList [v; v]]) in "
            f"let eW := enc (TTuple [TTuple [t; TUInt 8]]) (VList [VList [v; VInt 7]]) in "
            f"pack [enc (TTuple [t]) (VList [v]); eL; enc (TTuple [TDArr t 2]) (VList [VList [v]]); eW; "
            f"enc (TTuple [TUInt 8; t]) (VList [VInt 7; v]); "
            f"enc (TTuple [TBytes {info['nL']}]) (VList [VBytes eW]); "
            f"enc (TTuple [TBytes {info['nS']}]) (VList [VBytes (enc (TTuple [t]) (VList [v]))])]")


def run_lit_config(job):
    src, cfg, t, cases = job
    from .configs import compile_src
    from .evm import Chain
    out = {"cfg": cfg.name, "mismatch": [], "n": 0, "error": None}
    try:
        c = compile_src(src, cfg, formats=("bytecode", "bytecode_runtime", "method_identifiers"))
    except Exception as e:  # noqa
        out["error"] = f"compile: {type(e).__name__}: {e}"[:600]
        if too_deep(out["error"]):
            out["skipped"], out["error"] = out["error"][:120], None
        return out
    if (len(c["bytecode_runtime"]) - 2) // 2 > 24576:
        out["skipped"] = "too large"
        return out
    try:
        mids = {k.split("(")[0]: int(v, 16).to_bytes(4, "big") for k, v in c["method_identifiers"].items()}
        ch = Chain(cfg.evm)
        addr = ch.deploy(bytes.fromhex(c["bytecode"][2:]))
        for ci, case in enumerate(cases):
            eA, eL, eL1, eW, eT, wL, wS = case["enc"]
            sel_errs = selector(sig("ErrS", [t]))
            plan = [("lit_darr", "lit_darr", "ret_cd", eL), ("lit_darr1", "lit_darr1", "ret_cd", eL1),
                    ("lit_struct", "lit_struct", "ret_cd", eW), ("lit_tuple", "lit_tuple", "ret_cd", eT),
                    ("lit_abi_encode", "lit_enc", "ret_cd", wL), ("lit_event", "lit_log", "lit_event", eL),
                    ("storage_return", "sto_ret", "ret_cd", eA), ("storage_event", "sto_log", "lit_event", eA),
                    ("storage_abi_encode", "sto_enc", "ret_cd", wS),
                    ("storage_custom_error", "sto_err", "custom_error_revert", sel_errs + eA),
                    ("raw_return", "raw_ret", "ret_cd", eA), ("raw_revert", "raw_rev", "custom_error_revert", eA),
                    ("raw_log", "raw_lg", "lit_event", eA)]
            # every exit once with the canonical calldata and once with NON-ZERO padding in the calldata
            # (accepted by the decoder; what is emitted must still be canonical)
            inputs = [("", eA)] + ([("+dirty_input", case["dirty"])] if case.get("dirty") else [])
            for tag, data in inputs:
                for name, fn, kind, exp in plan:
                    got = observe(ch, addr, mids[fn] + data, kind)
                    out["n"] += 1
                    if got != exp:
                        out["mismatch"].append({"case": ci, "exit": name + tag, "observed": None if got is None else got.hex(),
                                                "expected": exp.hex(), "calldata": (mids[fn] + data).hex()})
    except Exception as e:  # noqa
        out["error"] = f"run: {type(e).__name__}: {e} {traceback.format_exc()[-800:]}"
    return out


# ---------------------------------------------------------------- narrower -> wider type scenarios
# (python type tree of the NARROW type, vyper narrow, vyper wide, value)
WIDEN = [
    (("darr", ("darr", ("uint", 256), 2), 3), "DynArray[DynArray[uint256, 2], 3]", "DynArray[DynArray[uint256, 4], 3]",
     [[11], [12, 13], [14]]),
    (("darr", ("bytes", 2), 3), "DynArray[Bytes[2], 3]", "DynArray[Bytes[40], 3]", [b"a", b"bc", b""]),
    (("darr", ("uint", 256), 2), "DynArray[uint256, 2]", "DynArray[uint256, 5]", [1, 2]),
    (("sarr", ("darr", ("uint", 256), 2), 2), "DynArray[uint256, 2][2]", "DynArray[uint256, 4][2]", [[1], [2, 3]]),
    (("string", 3), "String[3]", "String[50]", b"abc"),
    (("darr", ("string", 3), 2), "DynArray[String[3], 2]", "DynArray[String[3], 4]", [b"ab", b"c"]),
]


def widen_source(kind, narrow, wide):
    if kind == "storage":
        return f"""
s: {narrow}
@external
def f(x: {narrow}) -> {wide}:
    self.s = x
    return self.s
@external
def g(x: {narrow}) -> {wide}:
    self.s = x
    y: {wide} = self.s
    return y
"""
    if kind == "internal":
        return f"""
@internal
def _p(x: {narrow}) -> {narrow}:
    return x
@external
def f(x: {narrow}) -> {wide}:
    return self._p(x)
@external
def g(x: {narrow}) -> {wide}:
    y: {wide} = self._p(x)
    return y
"""
    if kind == "internal_tuple":
        return f"""
@internal
def _p(x: {narrow}) -> ({narrow}, uint256):
    return x, 5
@external
def f(x: {narrow}) -> ({wide}, uint256):
    return self._p(x)
@external
def g(x: {narrow}) -> ({wide}, uint256):
    a: {wide} = empty({wide})
    b: uint256 = 0
    a, b = self._p(x)
    return a, b
"""
    if kind == "ternary":
        return f"""
a: {narrow}
@external
def f(x: {narrow}) -> {wide}:
    y: {narrow} = x
    z: {narrow} = x
    w: {wide} = y if len(x) > 0 else z
    return w
@external
def g(x: {narrow}) -> {wide}:
    self.a = x
    return self.a if len(x) > 0 else x
"""
    if kind == "memory":
        return f"""
@external
def f(x: {narrow}) -> {wide}:
    y: {narrow} = x
    return y
@external
def g(x: {narrow}) -> {wide}:
    y: {narrow} = x
    z: {wide} = y
    return z
"""
    raise ValueError(kind)


def too_deep(msg):
    """compile failures that are capacity limits of the legacy back end for large generated types
    (`With statement too deep`, stack too deep): the scenario is skipped and counted, not alarmed"""
    m = msg.lower()
    return "too deep" in m or "stacktoodeep" in m


def run_widen_config(job):
    cfg, items = job     # items: list of (idx, kind, src, calldata_args, expected)
    from .configs import compile_src
    from .evm import Chain
    out = {"cfg": cfg.name, "mismatch": [], "n": 0, "error": None}
    for idx, kind, src, data, exp in items:
        try:
            c = compile_src(src, cfg, formats=("bytecode", "method_identifiers"))
            ch = Chain(cfg.evm)
            addr = ch.deploy(bytes.fromhex(c["bytecode"][2:]))
            for k, v in c["method_identifiers"].items():
                fn = k.split("(")[0]
                cd = int(v, 16).to_bytes(4, "big") + data
                r = ch.call(addr, cd)
                got = r.out if r.ok else None
                out["n"] += 1
                if got != exp:
                    out["mismatch"].append({"idx": idx, "kind": kind, "fn": fn, "source": src, "calldata": cd.hex(),
                                            "observed": None if got is None else got.hex(), "expected": exp.hex()})
        except Exception as e:  # noqa
            msg = f"{kind}#{idx}: {type(e).__name__}: {e}"[:500]
            if too_deep(msg):
                out.setdefault("skipped", []).append(msg[:120])     # legacy back-end capacity limit, not an ABI matter
            else:
                out["error"] = msg
    return out
