"""C01/C02/C08 harness: run VyCore (Coq, vm_compute) and the real compiler + pyrevm on the same programs/calls."""
import math

import eth_abi
from eth_utils import keccak

from vlib import coqrun
from vlib.c01_ast import ty_abi, ty_coq, val_coq, UNIT
from vlib.configs import compile_src
from vlib.evm import Chain, log_tuple, DEPLOYER, SENDER2

W = 2 ** 256
IMPORTS = "From Verif Require Import C01.VyCore C01.VyShow.\n"


class Call:
    """one external call.  args: python values; for primitive parameter types an int is the raw
    ABI word (so out-of-range words can be sent); for composite types a python value tree."""
    def __init__(self, fidx, args, sender=DEPLOYER, value=0, given=None):
        self.fidx, self.args, self.sender, self.value = fidx, list(args), sender, value
        self.given = given       # number of arguments actually sent (the rest are the function's defaults); None = all
        self.deploy = False      # the constructor "call": performed by deploying with these arguments

    def __repr__(self):
        return f"Call(f={self.fidx}, args={self.args}, sender={self.sender}, value={self.value})"


def is_prim(t):
    return t[0] in ("int", "bool", "addr", "flag", "dec", "bytesm")


def ceil32(n):
    return (n + 31) // 32 * 32


def word_to_model(w, t):
    """raw ABI word -> Coq value (out-of-range words become values that fail has_type)"""
    if t[0] in ("int", "dec"):
        return val_coq(w - W if (t[2] and w >= W // 2) else w)
    if t[0] == "bool":
        return val_coq(bool(w)) if w in (0, 1) else val_coq(int(w))
    if t[0] == "bytesm":
        # bytesM arguments are VALUES (the M bytes as a number); ("raw", word) is a deliberately malformed ABI word
        if isinstance(w, tuple):
            sh = 8 * (32 - t[1])       # left-aligned; dirty low bytes make the word invalid
            return val_coq(w[1] >> sh) if w[1] % (1 << sh) == 0 else val_coq(1 << (8 * t[1]))
        return val_coq(int(w))
    return val_coq(int(w))


def tree_to_model(v, t):
    if t[0] in ("bytes", "string"):
        return val_coq(bytes(v))
    if is_prim(t):
        if t[0] == "bool":
            return val_coq(bool(v))
        return val_coq(int(v))
    if t[0] in ("sarr", "darr"):
        return "(VList [" + "; ".join(tree_to_model(x, t[1]) for x in v) + "])"
    return "(VList [" + "; ".join(tree_to_model(x, ft) for x, (_, ft) in zip(v, t[2])) + "])"


def tree_to_abi(v, t):
    if t[0] == "bytesm":
        return int(v).to_bytes(t[1], "big")
    if t[0] == "bytes":
        return bytes(v)
    if t[0] == "string":
        return bytes(v).decode("latin-1")
    if is_prim(t):
        if t[0] == "addr":
            return "0x" + int(v).to_bytes(20, "big").hex()
        return v
    if t[0] in ("sarr", "darr"):
        return [tree_to_abi(x, t[1]) for x in v]
    return tuple(tree_to_abi(x, ft) for x, (_, ft) in zip(v, t[2]))


def is_dyn(t):
    if t[0] in ("darr", "bytes", "string"):
        return True
    if t[0] == "sarr":
        return is_dyn(t[1])
    if t[0] == "struct":
        return any(is_dyn(ft) for _, ft in t[2])
    return False


def enc_tuple(vals, tys):
    """ABI head/tail encoding; primitive leaves are raw words (may be out of range on purpose)"""
    heads, tails = [], []
    head_len = sum(32 if is_dyn(t) else 32 * static_words(t) for t in tys)
    for v, t in zip(vals, tys):
        if is_dyn(t):
            heads.append((head_len + sum(len(x) for x in tails)).to_bytes(32, "big"))
            tails.append(enc_val(v, t))
        else:
            heads.append(enc_val(v, t))
    return b"".join(heads) + b"".join(tails)


def static_words(t):
    if is_prim(t):
        return 1
    if t[0] == "sarr":
        return t[2] * static_words(t[1])
    return sum(static_words(ft) for _, ft in t[2])


def enc_val(v, t):
    if t[0] == "bytesm" and isinstance(v, tuple):      # ("raw", word): a deliberately dirty word
        return (int(v[1]) % W).to_bytes(32, "big")
    if t[0] in ("bytes", "string"):
        v = bytes(v)
        return len(v).to_bytes(32, "big") + v + b"\0" * (ceil32(len(v)) - len(v))
    if t[0] == "bytesm":
        return ((int(v) << (8 * (32 - t[1]))) % W).to_bytes(32, "big")
    if is_prim(t):
        return (int(v) % W).to_bytes(32, "big")
    if t[0] == "sarr":
        return enc_tuple(v, [t[1]] * t[2])
    if t[0] == "darr":
        return len(v).to_bytes(32, "big") + enc_tuple(v, [t[1]] * len(v))
    return enc_tuple(v, [ft for _, ft in t[2]])


def calldata(fun, call):
    g = getattr(call, "given", None)
    n = len(fun.params) if g is None else g
    sel = keccak(fun.abi_sig(n).encode())[:4]
    return sel + enc_tuple(call.args[:n], [t for _, t in fun.params][:n])


def fun_of(prog, call):
    return prog.ctor if getattr(call, "deploy", False) else prog.exts[call.fidx]


def call_coq(prog, call):
    fun = fun_of(prog, call)
    args = []
    for a, (_, t) in zip(call.args, fun.params):
        args.append(word_to_model(a, t) if is_prim(t) else tree_to_model(a, t))
    idx = len(prog.exts) if getattr(call, "deploy", False) else call.fidx     # the constructor is the last entry of p_ext
    return f"(mkCall {idx} {coqrun.hexlit(int(call.sender, 16))} {coqrun.hexlit(call.value)} [{'; '.join(args)}])"


def run_expr(prog, calls, full=False):
    return (f"(show_run {'true' if full else 'false'} {prog.coq()} "
            f"[{'; '.join(call_coq(prog, c) for c in calls)}])")


# ---------------------------------------------------------------- parsing the model's output
class Cur:
    def __init__(self, zs):
        self.z, self.i = zs, 0

    def next(self):
        v = self.z[self.i]
        self.i += 1
        return v


def p_value(c):
    tag = c.next()
    if tag == 0:
        return c.next()
    if tag == 1:
        return bool(c.next())
    if tag == 2:
        n = c.next()
        return [p_value(c) for _ in range(n)]
    if tag == 4:
        n = c.next()
        return bytes(c.next() for _ in range(n))
    if tag == 3:
        n = c.next()
        d = {}
        for _ in range(n):
            k = c.next()
            d[k] = p_value(c)
        return d
    raise ValueError(f"bad value tag {tag}")


def p_values(c):
    return [p_value(c) for _ in range(c.next())]


def p_event(c):
    tag = c.next()
    if tag == 0:
        return ("log", c.next(), p_values(c))
    if tag == 1:
        tr, x = c.next(), c.next()
        p = [c.next() for _ in range(c.next())]
        return ("store", tr, x, p, p_value(c))
    if tag == 2:
        return ("call", c.next(), p_values(c))
    if tag == 3:
        return ("ret", c.next())
    raise ValueError(f"bad event tag {tag}")


def parse_run(zs):
    """-> (results, final_storage); result = ('ok', value, events) | ('revert',) | ('error', code)"""
    c = Cur(zs)
    wf = c.next()
    if wf != 1:
        raise ValueError("generated program is not well-formed (wf_prog = false): call graph not ordered")
    res = []
    for _ in range(c.next()):
        st = c.next()
        if st == 1:
            v = p_value(c)
            evs = [p_event(c) for _ in range(c.next())]
            res.append(("ok", v, evs))
        elif st == 0:
            res.append(("revert",))
        elif st == 3:
            res.append(("revert", c.next()))
        else:
            res.append(("error", {0: "revert", 1: "out-of-fuel", 2: "stuck"}[c.next()]))
    fin = p_values(c)
    assert c.i == len(zs), "trailing output"
    return res, fin


def model_eval(jobs, name, full=False, procs=3):
    """jobs: [(prog, calls)] -> [(results, final_storage)]"""
    if not jobs:
        return []
    exprs = [run_expr(p, cs, full) for p, cs in jobs]
    shard = max(1, math.ceil(len(exprs) / procs))
    outs = coqrun.eval_zlists(IMPORTS, exprs, name, shard=shard, timeout=600)
    return [parse_run(o) for o in outs]


# ---------------------------------------------------------------- expected observables from model values
def expected_return(v, t):
    if t is None:
        return b""
    return eth_abi.encode([ty_abi(t)], [tree_to_abi(v, t)])


def expected_logs(prog, events):
    out = []
    for ev in events:
        if ev[0] != "log":
            continue
        name, fields = prog.events[ev[1]]
        name = name.lstrip("$")
        from vlib.c01_ast import ty_sig
        sig = name + "(" + ",".join(ty_sig(ft) for _, ft in fields) + ")"
        data = eth_abi.encode([ty_abi(ft) for _, ft in fields], [tree_to_abi(a, ft) for a, (_, ft) in zip(ev[2], fields)])
        out.append(((keccak(sig.encode()),), data))
    return out


def n_slots(t):
    if is_prim(t) or t[0] == "map":
        return 1
    if t[0] in ("bytes", "string"):
        return 1 + ceil32(t[1]) // 32
    if t[0] == "sarr":
        return t[2] * n_slots(t[1])
    if t[0] == "darr":
        return 1 + t[2] * n_slots(t[1])
    return sum(n_slots(ft) for _, ft in t[2])


def map_slots(base, v, t):
    """expected (slot, word) pairs of a HashMap value {key: value} whose own slot is `base`:
    the element for key k lives at keccak256(pad32(base) ++ pad32(k)) (vyper: sha3_64(slot, key))"""
    out = []
    for k, x in v.items():
        slot = int.from_bytes(keccak(base.to_bytes(32, "big") + (int(k) % W).to_bytes(32, "big")), "big")
        vt = t[2]
        if vt[0] == "map":
            out += map_slots(slot, x, vt)
        else:
            for i, w in enumerate(flat_slots(x, vt)):
                if w is not None:
                    out.append(((slot + i) % W, w))
    return out


def flat_slots(v, t):
    """expected slot words (None = not determined by the source semantics / checked elsewhere)"""
    if t[0] == "map":
        return [None]
    if t[0] == "bytesm":
        return [(int(v) << (8 * (32 - t[1]))) % W]
    if t[0] in ("bytes", "string"):
        v = bytes(v)
        out = [len(v)]
        for k in range(0, len(v), 32):
            chunk = v[k:k + 32]
            # a partial last word is determined only in its first len(chunk) bytes
            out.append(int.from_bytes(chunk, "big") if len(chunk) == 32 else ("prefix", chunk))
        return out + [None] * (n_slots(t) - len(out))
    if is_prim(t):
        return [int(v) % W]
    if t[0] == "sarr":
        return [w for x in v for w in flat_slots(x, t[1])]
    if t[0] == "darr":
        out = [len(v)] + [w for x in v for w in flat_slots(x, t[1])]
        return out + [None] * (n_slots(t) - len(out))
    return [w for x, (_, ft) in zip(v, t[2]) for w in flat_slots(x, ft)]


# ---------------------------------------------------------------- the real compiler + EVM
class TargetOpcodeError(Exception):
    """the compiler emitted an opcode that does not exist on the selected EVM target (pyrevm does not gate opcodes by
    fork, so this is checked statically on the assembly output)"""


NOT_BEFORE = {"PUSH0": "shanghai", "TLOAD": "cancun", "TSTORE": "cancun", "MCOPY": "cancun", "BLOBHASH": "cancun",
              "BLOBBASEFEE": "cancun"}
FORKS = ["london", "paris", "shanghai", "cancun", "prague"]


def check_target_opcodes(out, evm):
    if evm not in FORKS:
        return
    for fmt in ("asm", "asm_runtime"):
        for tok in str(out.get(fmt, "")).split():
            since = NOT_BEFORE.get(tok)
            if since is not None and FORKS.index(evm) < FORKS.index(since):
                raise TargetOpcodeError(f"opcode {tok} (available from {since}) emitted for evm_version={evm} ({fmt})")


class Deployed:
    def __init__(self, prog, cfg, src=None, ctor_call=None):
        self.prog, self.cfg = prog, cfg
        self.src = src if src is not None else prog.vy()
        # no `abi` output: under experimental_codegen it runs the legacy generator as well (gas estimates)
        self.out = compile_src(self.src, cfg, formats=("bytecode", "layout", "asm", "asm_runtime"))
        check_target_opcodes(self.out, cfg.evm)
        self.chain = Chain(cfg.evm)
        self.helper = None
        if getattr(prog, "uses_ext", False):
            from vlib import c01_exthelper as X
            hinit, self.helper_slot = X.helper_initcode(cfg.evm)
            self.chain.evm.set_balance(X.HELPER_DEPLOYER, 10 ** 20)
            self.helper = self.chain.deploy(hinit, sender=X.HELPER_DEPLOYER)
            if self.helper is None or self.helper.lower() != X.HELPER_ADDR.lower():
                raise RuntimeError(f"scripted callee not at the expected address: {self.helper}")
        init = bytes.fromhex(self.out["bytecode"][2:])
        if ctor_call is not None:
            init += enc_tuple(ctor_call.args, [t for _, t in prog.ctor.params])
        self.deploy_out = b""        # revert data of a failed deployment
        self.deploy_logs = []        # events emitted by the constructor
        try:
            self.addr = self.chain.evm.deploy(ctor_call.sender if ctor_call is not None else DEPLOYER, init, 0, None)
            for l in self.chain.evm.result.logs:
                lt = log_tuple(l)
                self.deploy_logs.append((lt[1], lt[2]))
        except RuntimeError as e:
            self.addr = None
            import re
            m = re.match(r"Revert \{ gas_used: (\d+), output: 0x([0-9a-f]*) }", e.args[0] if e.args else "")
            if m:
                self.deploy_out = bytes.fromhex(m.group(2))
        if self.addr is None and ctor_call is None:
            raise RuntimeError("deployment reverted")
        self.layout = self.out["layout"].get("storage_layout", {})

    def call(self, call):
        if getattr(call, "deploy", False):
            return (self.addr is not None, self.deploy_out, list(self.deploy_logs))
        if self.addr is None:
            return (False, b"", [])
        fun = self.prog.exts[call.fidx]
        r = self.chain.call(self.addr, calldata(fun, call), value=call.value, sender=call.sender)
        try:
            self.chain.reset_transient()
        except Exception:
            pass
        logs = []
        for l in r.logs:
            lt = log_tuple(l)
            logs.append((lt[1], lt[2]))
        return (r.ok, r.out, logs)

    def raw_storage(self, model_final=None):
        out = {}
        for name, t in self.prog.sto:
            if name == "$hstored":     # the scripted callee's state word
                out[name] = [self.chain.storage(self.helper, self.helper_slot)] if self.helper else None
                continue
            if name == "$balance":     # the contract's ether balance (a reserved cell of the reference program's state)
                out[name] = [self.chain.evm.get_balance(self.addr)] if self.addr is not None else None
                continue
            if name in self.prog.imm or self.addr is None:
                out[name] = None          # immutables live in the code, not in storage
                continue
            ent = self.layout[name]
            out[name] = [self.chain.storage(self.addr, ent["slot"] + i) for i in range(n_slots(t))]
        maps = []
        if model_final is not None:
            for (name, t), v in zip(self.prog.sto, model_final):
                if t[0] == "map" and self.addr is not None:
                    for slot, exp in map_slots(self.layout[name]["slot"], v, t):
                        maps.append((name, slot, exp, self.chain.storage(self.addr, slot)))
        out["$maps"] = maps
        return out


def observe(prog, cfg, calls, src=None, model_final=None):
    """-> (results [(ok, out, logs)], raw storage dict).  model_final (the model's final storage values) is only used to
    know WHICH HashMap element slots to read back (keys the source program wrote)."""
    ctor_call = calls[0] if (calls and getattr(calls[0], "deploy", False)) else None
    d = Deployed(prog, cfg, src, ctor_call)
    res = [d.call(c) for c in calls]
    return res, d.raw_storage(model_final)


def compare(prog, calls, model, obs, unordered=()):
    """first difference (or None)"""
    ds = compare_all(prog, calls, model, obs, unordered, first_only=True)
    return ds[0] if ds else None


def compare_all(prog, calls, model, obs, unordered=(), first_only=False):
    """model = (results, final) from parse_run; obs from observe.  Returns the list of differences (one per differing call,
    plus at most one for the final storage), each a description with expected (source rule) vs observed."""
    mres, mfin = model
    ores, osto = obs
    out = []
    for i, (m, o, c) in enumerate(zip(mres, ores, calls)):
        if out and first_only:
            return out
        fun = fun_of(prog, c)
        ok, rdata, logs = o
        if m[0] == "error":
            out.append({"call": i, "what": "model-error", "model": m[1]})
            continue
        if m[0] == "revert":
            if ok:
                out.append({"call": i, "what": "status", "expected": "revert", "observed": "success", "out": rdata.hex()})
                continue
            # revert data: Error(string) for assert/raise with a reason, empty otherwise
            exp = b""
            if len(m) > 1:
                exp = bytes.fromhex("08c379a0") + eth_abi.encode(["string"], [prog.reasons[m[1]]])
            if exp != rdata:
                out.append({"call": i, "what": "revert-data", "expected": exp.hex(), "observed": rdata.hex()})
            continue
        if not ok:
            out.append({"call": i, "what": "status", "expected": "success", "observed": "revert", "out": rdata.hex()})
            continue
        exp = expected_return(m[1], fun.ret)
        if exp != rdata:
            out.append({"call": i, "what": "return-data", "expected": exp.hex(), "observed": rdata.hex()})
            continue
        elogs = expected_logs(prog, m[2])
        olog = [(tuple(t), d) for t, d in logs]
        if i in unordered:   # documented-unspecified order (builtin / log arguments): exactly-once only
            elogs, olog = sorted(elogs), sorted(olog)
        if elogs != olog:
            out.append({"call": i, "what": "logs", "expected": [(t[0].hex()[:8], d.hex()) for t, d in elogs],
                        "observed": [([x.hex()[:8] for x in t], d.hex()) for t, d in olog]})
    if out and first_only:
        return out
    for (name, t), v in zip(prog.sto, mfin):
        exp = flat_slots(v, t)
        got = osto[name]
        if got is None:
            continue
        for k, (e, g) in enumerate(zip(exp, got)):
            if isinstance(e, tuple):       # ("prefix", bytes): only the leading bytes of the word are determined
                if g.to_bytes(32, "big")[:len(e[1])] != e[1]:
                    out.append({"what": "final-storage", "var": name, "slot_offset": k, "expected_prefix": e[1].hex(), "observed": hex(g)})
                    return out
                continue
            if e is not None and e != g:
                out.append({"what": "final-storage", "var": name, "slot_offset": k, "expected": hex(e), "observed": hex(g)})
                return out
    for name, slot, e, g in osto.get("$maps", []):
        if isinstance(e, tuple):
            if g.to_bytes(32, "big")[:len(e[1])] != e[1]:
                out.append({"what": "final-storage", "var": name, "hashmap_element_slot": hex(slot), "expected_prefix": e[1].hex(), "observed": hex(g)})
                return out
            continue
        if e != g:
            out.append({"what": "final-storage", "var": name, "hashmap_element_slot": hex(slot), "expected": hex(e), "observed": hex(g)})
            return out
    return out
