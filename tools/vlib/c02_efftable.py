"""C02: the rows of the Venom effects table (vyper/venom/effects.py, as IRInstruction.get_read_effects/get_write_effects
see it) for the instructions that hand control to foreign code, rendered as coq/C02/GenHandoverTbl.v on every run."""
HOPS = ["call", "delegatecall", "staticcall", "create", "create2"]
EFFS = ["STORAGE", "TRANSIENT", "MEMORY", "IMMUTABLES", "RETURNDATA", "LOG", "BALANCE", "EXTCODE", "FMP"]

# python mirror of coq/C02/Handover.v may_write / may_read (used only to NAME the missing entry in a report)
MAY_WRITE = {"call": "STORAGE TRANSIENT MEMORY RETURNDATA LOG BALANCE EXTCODE", "delegatecall": "STORAGE TRANSIENT MEMORY RETURNDATA LOG BALANCE EXTCODE",
             "staticcall": "MEMORY RETURNDATA", "create": "STORAGE TRANSIENT RETURNDATA LOG BALANCE EXTCODE",
             "create2": "STORAGE TRANSIENT RETURNDATA LOG BALANCE EXTCODE"}
MAY_READ = {h: "STORAGE TRANSIENT MEMORY BALANCE EXTCODE" for h in HOPS}


def extract():
    """-> {"writes": {op: [effect names]}, "reads": {...}} through the accessor the passes use"""
    from vyper.venom import effects
    from vyper.venom.basicblock import IRInstruction
    known = {e.name for e in effects.Effects}
    extra = sorted(known - set(EFFS))
    if extra:
        raise ValueError(f"effect kinds outside the model: {extra}")
    out = {"writes": {}, "reads": {}}
    for op in HOPS:
        inst = IRInstruction(op, [])
        w, r = inst.get_write_effects(), inst.get_read_effects()
        if w != effects.writes.get(op, effects.EMPTY) or r != effects.reads.get(op, effects.EMPTY):
            raise ValueError(f"get_*_effects of {op} is not the table row")
        out["writes"][op] = [e for e in EFFS if effects.Effects[e] in w]
        out["reads"][op] = [e for e in EFFS if effects.Effects[e] in r]
    return out


def render(data):
    def tbl(name, rows):
        arms = "\n".join(f"  | H_{op} => [{'; '.join(rows[op])}]" for op in HOPS)
        return f"Definition {name} (h : hop) : list eff :=\n  match h with\n{arms}\n  end.\n"
    return ("(* GENERATED on every run by tools/vlib/c02_efftable.py from vyper/venom/effects.py -- do not edit *)\n"
            "From Coq Require Import List.\nFrom Verif Require Import C02.Handover.\nImport ListNotations.\n\n"
            + tbl("tbl_writes", data["writes"]) + "\n" + tbl("tbl_reads", data["reads"]))


def missing(data):
    """[(table, op, effect)] the footprint requires and the table lacks"""
    out = []
    for op in HOPS:
        out += [("writes", op, e) for e in MAY_WRITE[op].split() if e not in data["writes"][op]]
        out += [("reads", op, e) for e in MAY_READ[op].split() if e not in data["reads"][op]]
    return out
