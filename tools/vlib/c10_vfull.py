"""C10 extension (session 3): O-tie for WHOLE venom state-variable accesses  base[k1]..[kn].f[i].g ...

For generated (key types, value type tree, access path, location) the REAL recursive lowering of
vyper/codegen_venom/expr.py is executed -- the real dispatchers Expr.lower_Subscript / Expr.lower_Attribute, the real
_lower_mapping_subscript (+ _lower_keccak256_key and the VenomCodegenContext buffer helpers), _lower_array_subscript,
_lower_struct_field and _make_ptr_value at every level; only the leaves (variable slot, key values / key pointers, index
values) are parameters -- and the emitted instruction list is compared syntactically (vm_compute, clist_eqb) with the
Coq generator C10/VFull.v `vfull`, about which PropsC10V.v proves venom_access_matches_layout / venom_accesses_disjoint.

Key-type family: a fixed sweep over EVERY HashMap key type (all 64 integer types, address, bool, bytes1..32, decimal,
flag, Bytes[n] / String[n]) on every run + random nestings (0..3 levels, mixed key kinds) over random value types / paths.

Search: on a mismatch a contract with the same access shape is compiled by the real compiler with the venom pipeline,
deployed on pyrevm and written through; the journal must show exactly the slot keccak-chained from the reported layout
slot plus the Layout offset (the property's own oracle) -> failing-input, else correspondence-broken."""
import types
import warnings

from . import coqrun
from .c03_export import ExportError, settings_ctx
from .c10_addr import vy_type
from .c10_decls import Names, T, gen_type

COQ_IMPORTS = ("From Verif Require Import C03.LIR C03.VSL C10.Layout C10.VAddrPath C10.VMapTemplates C10.VFull.\n"
               "Open Scope string_scope.\n")


# ------------------------------------------------------------------ key-type family
def key_family():
    """(source text, vyper type object, is_bytestring) for every kind of HashMap key"""
    from vyper.semantics.types import AddressT, BoolT, BytesM_T, BytesT, DecimalT, IntegerT, StringT
    fam = []
    for bits in range(8, 257, 8):
        fam.append((f"uint{bits}", IntegerT(False, bits), False))
        fam.append((f"int{bits}", IntegerT(True, bits), False))
    fam.append(("address", AddressT(), False))
    fam.append(("bool", BoolT(), False))
    fam.append(("decimal", DecimalT(), False))
    for m in range(1, 33):
        fam.append((f"bytes{m}", BytesM_T(m), False))
    try:
        from vyper.semantics.types import FlagT
        fam.append(("flag", FlagT("KF", {"A": 0, "B": 1, "C": 2}), False))
    except Exception:
        pass
    for n in (1, 7, 31, 32, 33, 100, 1024):
        fam.append((f"Bytes[{n}]", BytesT(n), True))
        fam.append((f"String[{n}]", StringT(n), True))
    for _, kt, _b in fam:
        if not getattr(kt, "_as_hashmap_key", False):
            raise ExportError(f"{kt} is no longer a HashMap key type")
    return fam


def gen_path(rnd, t):
    path, signs, cur = [], [], t
    while cur.kind in ("sarr", "darr", "struct") and len(path) < 9:
        if cur.kind == "struct":
            j = rnd.randrange(len(cur.members))
            path.append(("field", j, cur.members[j][0]))
            signs.append(False)
            cur = cur.members[j][1]
        else:
            signed = rnd.random() < 0.5
            path.append(("idx", signed, rnd.choice([8, 64, 128, 256])))
            signs.append(signed)
            cur = cur.t
        if rnd.random() < 0.15:
            break
    return path, signs


def gen_cases(rnd, n):
    """[(keys [(src, type, isbytes)], value type T, path, signs, location name)]"""
    fam = key_family()
    words = [f for f in fam if not f[2]]
    bts = [f for f in fam if f[2]]
    u = T("word", name="uint256")
    cases = []
    # sweep: every key type alone, and as inner key below a uint256 key
    for i, f in enumerate(fam):
        cases.append(([f], u, [], [], "STORAGE" if i % 2 == 0 else "TRANSIENT"))
    for f in bts + words[::9]:
        cases.append(([words[0], f], u, [], [], "STORAGE"))
        cases.append(([f, words[0]], u, [], [], "TRANSIENT"))
    cases.append(([bts[0], bts[3], bts[6]], u, [], [], "STORAGE"))
    for idx in range(n):
        names = Names(f"_w{idx}_")
        depth = rnd.choice([0, 1, 1, 2, 2, 3])
        keys = [rnd.choice(bts) if rnd.random() < 0.35 else rnd.choice(words) for _ in range(depth)]
        for _ in range(30):
            t = gen_type(rnd, names, 3, allow_map=False, big=rnd.random() < 0.3, small=rnd.random() < 0.5)
            if t.kind in ("sarr", "darr", "struct") or (depth and rnd.random() < 0.2):
                break
        path, signs = gen_path(rnd, t)
        if depth == 0 and not path:
            continue
        loc = rnd.choice(["STORAGE", "TRANSIENT"]) if depth else rnd.choice(["STORAGE", "TRANSIENT", "MEMORY", "CALLDATA", "CODE"])
        cases.append((keys, t, path, signs, loc))
    return cases


# ------------------------------------------------------------------ the real lowering
def lower_case(keys, t, path, locname):
    """-> (coq list of cinstr observed, name of the result variable as a Coq string term)"""
    from unittest import mock
    import vyper.codegen_venom.expr as VE
    from vyper import ast as vy_ast
    from vyper.codegen_venom.context import VenomCodegenContext as VCC
    from vyper.semantics.data_locations import DataLocation as DL
    from vyper.semantics.types import HashMapT, IntegerT
    from vyper.venom.basicblock import IRLiteral, IRVariable
    from vyper.venom.builder import VenomBuilder
    from vyper.venom.context import IRContext
    from .c03_export import OP1, V_OP2, V_OP3
    from .c04_export import PURE_DROP, zl_
    ns = types.SimpleNamespace
    RealExpr = VE.Expr
    loc = getattr(DL, locname)
    ictx = IRContext()
    fn = ictx.create_function("probe")
    b = VenomBuilder(ictx, fn)
    base = b.param()
    keyp = [b.param() for _ in keys]
    idxp = {k: b.param() for k, st in enumerate(path) if st[0] == "idx"}
    bb = b.current_block
    n0 = len(bb.instructions)
    fctx = ns(builder=b, _ALLOCATION_LIMIT=VCC._ALLOCATION_LIMIT, is_ctor_context=False, immutables_alloca=None)
    for m_ in ("allocate_buffer", "ptr_store", "add_offset", "store_word", "ensure_bytestring_in_memory", "bytes_data_ptr",
               "bytestring_length", "_with_byte_offset", "new_temporary_value", "load_word"):
        setattr(fctx, m_, types.MethodType(getattr(VCC, m_), fctx))
    vt = vy_type(t)
    full_t = vt
    for _, kt, _b in reversed(keys):
        full_t = HashMapT(kt, full_t)
    info, ends, order = {}, {}, []
    inner = ns(_metadata={"type": full_t})
    info[id(inner)] = ("base", -1)
    cur = full_t
    for j, (_, kt, _b) in enumerate(keys):
        node = vy_ast.Subscript.__new__(vy_ast.Subscript)
        object.__setattr__(node, "value", inner)
        sl = ns(_metadata={"type": kt})
        info[id(sl)] = ("key", j)
        object.__setattr__(node, "slice", sl)
        cur = cur.value_type
        object.__setattr__(node, "_metadata", {"type": cur})
        info[id(node)] = ("map", j)
        inner = node
    cur_t = t
    for k, st in enumerate(path):
        if st[0] == "field":
            node = vy_ast.Attribute.__new__(vy_ast.Attribute)
            object.__setattr__(node, "value", inner)
            object.__setattr__(node, "attr", st[2])
            cur_t = cur_t.members[st[1]][1]
        else:
            node = vy_ast.Subscript.__new__(vy_ast.Subscript)
            object.__setattr__(node, "value", inner)
            sl = ns(_metadata={"type": IntegerT(st[1], st[2])})
            info[id(sl)] = ("index", k)
            object.__setattr__(node, "slice", sl)
            cur_t = cur_t.t
        object.__setattr__(node, "_metadata", {"type": vy_type(cur_t)})
        info[id(node)] = (st[0], k)
        inner = node

    class FakeExpr:
        # everything below the leaves is the real code
        lower_Subscript = RealExpr.lower_Subscript
        lower_Attribute = RealExpr.lower_Attribute
        _lower_mapping_subscript = RealExpr._lower_mapping_subscript
        _lower_keccak256_key = RealExpr._lower_keccak256_key
        _lower_array_subscript = RealExpr._lower_array_subscript
        _lower_tuple_subscript = RealExpr._lower_tuple_subscript
        _lower_struct_field = RealExpr._lower_struct_field
        _make_ptr_value = RealExpr._make_ptr_value

        def __init__(s_, nd, c_):
            s_.node, s_.ctx, s_.builder = nd, fctx, b

        def lower(s_):
            kind, j = info[id(s_.node)]
            if kind == "base":
                return ns(operand=base, location=loc)
            if kind == "key":          # byte-string key: a pointer to the key in memory
                return ns(operand=keyp[j], location=DL.MEMORY)
            if kind == "index":
                raise ExportError("index lowered as a location")
            r = s_.lower_Attribute() if kind == "field" else s_.lower_Subscript()
            ends[(kind, j)] = len(bb.instructions)
            order.append((kind, j))
            return r

        def lower_value(s_):
            kind, j = info[id(s_.node)]
            if kind == "key":
                return keyp[j]
            if kind == "index":
                return idxp[j]
            raise ExportError("inner access lowered as a value")
    with mock.patch.object(VE, "Expr", FakeExpr):
        res = FakeExpr(inner, None).lower().operand
    if b.current_block is not bb:
        raise ExportError("venom access lowering is not straight-line")
    want_order = [("map", j) for j in range(len(keys))] + [(st[0], k) for k, st in enumerate(path)]
    if order != want_order:
        raise ExportError(f"unexpected lowering order {order}")
    names = {base.name: '"base"'}
    for j, p_ in enumerate(keyp):
        names[p_.name] = f"(kn {j}%nat)"
    for k, p_ in idxp.items():
        names[p_.name] = f'(tagk {k}%nat "p1")'

    def op(o, hexlit=False):
        if isinstance(o, IRLiteral):
            return f"(VLit {zl_(o.value)})"
        if isinstance(o, IRVariable) and o.name in names:
            return f"(VVar {names[o.name]})"
        raise ExportError(f"unsupported / unbound venom operand {o!r}")
    terms = []
    start = n0
    nt_map = 0
    for (kind, k) in want_order:
        end = ends[(kind, k)]
        if kind == "map":
            for ins in bb.instructions[start:end]:
                ops = [op(o) for o in reversed(ins.operands)]      # EVM order
                outs_ = ins.get_outputs()
                o_ = None
                if outs_:
                    if len(outs_) != 1:
                        raise ExportError(f"multi-output instruction {ins}")
                    o_ = f"(tn {nt_map}%nat)"
                    names[outs_[0].name] = o_
                    nt_map += 1
                opc = ins.opcode
                if opc == "alloca" and isinstance(ins.operands[0], IRLiteral):
                    terms.append(f"CH (HAlloca {o_} {ins.operands[0].value})")
                elif opc == "mstore" and len(ops) == 2:
                    terms.append(f"CH (HMstore {ops[0]} {ops[1]})")
                elif opc == "mload" and len(ops) == 1:
                    terms.append(f"CH (HMload {o_} {ops[0]})")
                elif opc == "add" and len(ops) == 2:
                    terms.append(f"CH (HAdd {o_} {ops[0]} {ops[1]})")
                elif opc == "sha3" and len(ops) == 2 and isinstance(ins.operands[0], IRLiteral) and ins.operands[0].value == 64:
                    terms.append(f"CH (HSha3_64 {o_} {ops[0]})")
                elif opc == "sha3" and len(ops) == 2:
                    terms.append(f"CH (HSha3B {o_} {ops[0]} {ops[1]})")
                else:
                    raise ExportError(f"venom instruction outside the mapping template language: {ins}")
        else:
            nt = 0
            for ins in bb.instructions[start:end]:
                outs_ = ins.get_outputs()
                opc = ins.opcode
                if opc in PURE_DROP:
                    # the DynArray length word: must be a load of this level's base pointer
                    if len(outs_) != 1 or len(ins.operands) != 1:
                        raise ExportError(f"unexpected load {ins}")
                    names[outs_[0].name] = f'(tagk {k}%nat "ld0")'
                    continue
                ops = [op(o) for o in ins.operands]
                if opc == "assert" and len(ops) == 1:
                    terms.append(f"CV (VAssert {ops[0]})")
                    continue
                if len(outs_) != 1:
                    raise ExportError(f"venom instruction outside the straight-line subset: {ins}")
                out = f'(tagk {k}%nat "t{nt}")'
                names[outs_[0].name] = out
                nt += 1
                if opc in OP1 and len(ops) == 1:
                    terms.append(f"CV (V1 {out} {OP1[opc]} {ops[0]})")
                elif opc in V_OP2 and len(ops) == 2:
                    terms.append(f"CV (V2 {out} {V_OP2[opc]} {ops[0]} {ops[1]})")
                elif opc in V_OP3 and len(ops) == 3:
                    terms.append(f"CV (V3 {out} {V_OP3[opc]} {ops[0]} {ops[1]} {ops[2]})")
                elif opc == "assign" and len(ops) == 1:
                    terms.append(f"CV (VAssign {out} {ops[0]})")
                else:
                    raise ExportError(f"venom instruction outside the straight-line subset: {ins}")
        start = end
    if start != len(bb.instructions):
        raise ExportError("instructions emitted after the last access level")
    if not isinstance(res, IRVariable) or res.name not in names:
        raise ExportError(f"result operand {res!r} is not a named variable")
    return "[" + "; ".join(terms) + "]", names[res.name]


def coq_case(keys, t, path, signs, locname):
    obs, fin = lower_case(keys, t, path, locname)
    ws = 1 if locname in ("STORAGE", "TRANSIENT") else 32
    kinds = "[" + "; ".join("true" if kb else "false" for _, _, kb in keys) + "]"
    steps = "; ".join(f"SField {st[1]}%nat" if st[0] == "field" else "SIdx 0" for st in path)
    sg = "[" + "; ".join("true" if s_ else "false" for s_ in signs) + "]"
    expr = (f"[if match vfull {ws} {kinds} {sg} {t.coq()} [{steps}] with "
            f"Some (prog, fin) => clist_eqb {obs} prog && String.eqb fin {fin} | None => false end then 1 else 0]")
    meta = {"key_types": [k[0] for k in keys], "value_type": t.src(), "location": locname,
            "path": [list(map(str, s_)) for s_ in path], "observed": obs[:1500], "result": fin}
    return expr, meta


# ------------------------------------------------------------------ Search: the same access in a real contract
STATS = {"compared": 0}


def _leaf_path(rnd, t, path):
    """extend the path down to a word leaf -> [(kind, member index / None, field name / None)], leaf type or None"""
    cur = t
    for st in path:
        cur = cur.members[st[1]][1] if st[0] == "field" else cur.t
    ext = list(path)
    while cur.kind in ("sarr", "darr", "struct"):
        if cur.kind == "struct":
            ext.append(("field", 0, cur.members[0][0]))
            cur = cur.members[0][1]
        else:
            ext.append(("idx", False, 256))
            cur = cur.t
    return ext, cur


def search_contract(ctx, keys, t, path):
    """Compile `m: HashMap[..]` with the given key types / value type through the real venom pipeline and write one word
    through the access path; the journal must show exactly keccak-chain(reported slot, keys) + Layout offset.
    Returns a failing-input detail dict, or None (also None when the shape cannot be written by a simple setter)."""
    from vyper.compiler import compile_code
    from vyper.compiler.settings import OptimizationLevel, Settings
    from vyper.utils import keccak256, method_id
    from .c10_glue import journal, keccak_slot
    from .evm import Chain
    if any(k[0] in ("flag", "decimal") for k in keys) or len(t.src()) > 400:
        return None
    rnd = ctx.rng("vfull-search")
    ext, leaf = _leaf_path(rnd, t, path)
    if leaf.kind != "word" or leaf.name not in ("uint256", "int128", "uint8", "int256", "uint160"):
        return None
    # DynArray levels must be long enough: only index 0 of static arrays / struct members is written here
    cur = t
    for st in ext:
        if cur.kind == "darr":
            return None
        cur = cur.members[st[1]][1] if st[0] == "field" else cur.t
    defs = []
    t.structs(defs)
    tsrc = t.src()
    for k in reversed(keys):
        tsrc = f"HashMap[{k[0]}, {tsrc}]"
    args, acc, kvals, call_args = [], "self.m", [], []
    from eth_abi import encode as abi_encode  # noqa
    for j, (ks, kt, kb) in enumerate(keys):
        args.append(f"k{j}: {ks}")
        acc += f"[k{j}]"
    offs = 0
    cur = t
    for st in ext:
        if st[0] == "field":
            acc += f".{st[2]}"
            offs += sum(_words(m) for _, m in cur.members[:st[1]])
            cur = cur.members[st[1]][1]
        else:
            acc += "[0]"
            cur = cur.t
    src = "".join(d.defsrc() for d in defs) + f"g0: uint256\nm: {tsrc}\ng1: uint256\n\n@external\ndef w({', '.join(args)}):\n    {acc} = 77\n"
    abi_types, abi_vals, hkeys = [], [], []
    for ks, kt, kb in keys:
        if kb:
            val = b"a" if ks.startswith("Bytes") else "a"
            abi_types.append("bytes" if ks.startswith("Bytes") else "string")
            abi_vals.append(val)
            hkeys.append(int.from_bytes(keccak256(b"a"), "big"))
        elif ks.startswith("bytes"):
            m = int(ks[5:])
            abi_types.append(ks)
            abi_vals.append(b"\x05" * m)
            hkeys.append(int.from_bytes((b"\x05" * m).ljust(32, b"\0"), "big"))
        elif ks == "address":
            abi_types.append("address")
            abi_vals.append("0x" + "00" * 19 + "07")
            hkeys.append(7)
        elif ks == "bool":
            abi_types.append("bool")
            abi_vals.append(True)
            hkeys.append(1)
        else:
            abi_types.append(ks)
            abi_vals.append(3)
            hkeys.append(3)
    sig = "w(" + ",".join(abi_types) + ")"
    for evm, lvl in (("cancun", OptimizationLevel.GAS), ("cancun", OptimizationLevel.NONE)):
        try:
            with warnings.catch_warnings():
                warnings.simplefilter("ignore")
                out = compile_code(src, output_formats=["bytecode", "layout"],
                                   settings=Settings(evm_version=evm, experimental_codegen=True, optimize=lvl))
        except Exception:
            return None
        slot = out["layout"]["storage_layout"]["m"]["slot"]
        want = slot
        for hk in hkeys:
            want = keccak_slot(want, hk)
        want = (want + offs) % 2**256
        ch = Chain(evm)
        addr = ch.deploy(bytes.fromhex(out["bytecode"][2:]))
        if addr is None:
            return None
        data = method_id(sig) + abi_encode(abi_types, abi_vals)
        r = ch.call(addr, data)
        st, _tr = journal(ch, addr)
        changed = sorted(s for s, (a, b_) in st.items() if a != b_)
        if not r.ok:
            return None        # inconclusive (a revert is not aliasing)
        STATS["compared"] += 1
        if changed != [want]:
            return {"source": src, "evm_version": evm, "optimize": str(lvl), "experimental_codegen": True, "call": sig,
                    "args": [repr(v) for v in abi_vals], "reported_slot_of_m": slot,
                    "expected_changed_slots": [hex(want)], "changed_slots": [hex(s) for s in changed], "call_ok": r.ok,
                    "how": "compile_code(source, settings=Settings(experimental_codegen=True, ...)), deploy on pyrevm, call w(..), "
                           "read the storage journal: only keccak-chain(layout slot of m, keys) + member offset may change"}
    return None


def _words(t):
    k = t.kind
    if k in ("word", "flag"):
        return 1
    if k == "bytes":
        return 1 + (t.n + 31) // 32
    if k == "sarr":
        return _words(t.t) * t.n
    if k == "darr":
        return 1 + _words(t.t) * t.n
    if k == "struct":
        return sum(_words(m) for _, m in t.members)
    raise ValueError(k)


# ------------------------------------------------------------------ entry
def run(ctx, model_ok, n):
    """-> (number of distinct cases matched, found)"""
    rnd = ctx.rng("vfull")
    exprs, metas, cases = [], [], []
    with warnings.catch_warnings():
        warnings.simplefilter("ignore")
        with settings_ctx():
            for case in gen_cases(rnd, n):
                try:
                    e, m = coq_case(*case)
                except ExportError as ex:
                    m = {"key_types": [k[0] for k in case[0]], "value_type": case[1].src(), "location": case[4],
                         "path": [list(map(str, s_)) for s_ in case[2]], "export_error": str(ex)}
                    return _report(ctx, case, m, "the real venom lowering of a whole access left the template language: " + str(ex), len(exprs))
                exprs.append(e)
                metas.append(m)
                cases.append(case)
    ctx.corr["venom_whole_accesses"] = {"cases": len(exprs), "with_maps": sum(1 for c in cases if c[0]),
                                        "bytestring_key_levels": sum(1 for c in cases for k in c[0] if k[2]),
                                        "key_types_swept": len(key_family())}
    if not (model_ok and exprs):
        return 0, False
    outs = coqrun.eval_zlists(COQ_IMPORTS, exprs, "c10vfull", shard=max(40, len(exprs) // 3 + 1))
    for case, m, o in zip(cases, metas, outs):
        if o != [1]:
            return _report(ctx, case, m, "venom code of a whole access (HashMap levels + array/struct steps) differs from the template "
                                         "VFull.vfull (theorems venom_access_matches_layout / venom_accesses_disjoint no longer apply)", len(exprs))
    # always-on differential (model-free oracle): a seeded sample of the HashMap shapes compiled by the real venom pipeline,
    # written through on pyrevm; the journal must show exactly keccak-chain(reported slot, keys) + member offset
    STATS["compared"] = 0
    mapc = [(c, m) for c, m in zip(cases, metas) if c[0]]
    rnd.shuffle(mapc)
    for c, m in mapc[:(40 if n <= 200 else 300)]:
        fail = search_contract(ctx, c[0], c[1], c[2])
        if fail is not None:
            ctx.violation("failing-input", "venom: a HashMap write changes a slot that is not hashed from the variable's reported slot",
                          dict(fail, access=m))
            return len(set(exprs)), True
    ctx.corr["venom_whole_accesses"]["real_contract_writes_compared"] = STATS["compared"]
    if cases:
        ctx.samples.append({"venom_whole_access": metas[min(len(metas) - 1, 150)]})
    ctx.extra["family_size"] = ctx.extra.get("family_size", 0) + len(exprs)
    ctx.extra["syntactic_matches"] = ctx.extra.get("syntactic_matches", 0) + len(exprs)
    return len(set(exprs)), False


def _report(ctx, case, meta, msg, n_done):
    fail = None
    try:
        if case[0]:
            fail = search_contract(ctx, case[0], case[1], case[2])
    except Exception as ex:  # the search is best effort; the mismatch itself is reported below
        meta = dict(meta, search_error=f"{type(ex).__name__}: {ex}"[:300])
    if fail is not None:
        ctx.violation("failing-input", "venom: a HashMap write changes a slot that is not hashed from the variable's reported slot "
                                       "(found after a template mismatch)", dict(fail, template_mismatch=meta))
    else:
        ctx.violation("correspondence-broken", msg, meta)
    return n_done, True
