"""C20 part: calculate_largest_power / calculate_largest_base.
 * regenerate coq/C20/GenPow.v from /repo (py2coq + while loops; the Decimal/math guess abstracted),
 * compile the proofs (PowGuards.v, PropsPow.v),
 * translation validation: model (vm_compute) vs the real functions, feeding the model the REAL guess,
 * check the theorems' hypotheses about the guess on the real code: exhaustively for calculate_largest_base
   (its whole domain is finite), on a boundary grid for calculate_largest_power."""
import decimal
import math

from vlib import coqrun
from vlib.common import COQ
from vlib.py2coq import Unsupported

WINDOW = 4000


def types():
    return [(bits, sg) for bits in range(8, 257, 8) for sg in (False, True)]


def iroot(n, b):
    """largest R >= 0 with R**b <= n"""
    lo, hi = 0, 1
    while hi ** b <= n:
        hi *= 2
    while lo + 1 < hi:
        mid = (lo + hi) // 2
        if mid ** b <= n:
            lo = mid
        else:
            hi = mid
    return lo


def real_guess(src_line, ns):
    ns = dict(ns, decimal=decimal, math=math)
    exec(src_line, ns)
    return ns


def run(ctx):
    from vlib import c20_pow2coq
    try:
        text, guesses = c20_pow2coq.generate()
    except Unsupported as e:
        ctx.violation("translator-rejected", "py2coq cannot translate calculate_largest_power/base: " + str(e), {"error": str(e)})
        return 0
    (COQ / "C20" / "GenPow.v").write_text(text)
    b = ctx.coq_build(["C20/Loop.v", "C20/GenPow.v", "C20/PowGuards.v", "C20/PropsPow.v"], timeout=240)
    model_ok = (COQ / "C20" / "GenPow.vo").exists() and (b["ok"] or "GenPow" not in b.get("file", ""))
    from vyper.codegen.arithmetic import calculate_largest_base, calculate_largest_power
    rnd = ctx.rng("pow")
    n_cases = 0
    found = False
    # ---------------- calculate_largest_base: the whole domain
    base_cases = []
    for bits, sg in types():
        V = bits - (1 if sg else 0)
        bs = range(2, V + 1) if ctx.tier == "thorough" else sorted(set(list(range(2, 12)) + [V, V - 1, V // 2, V // 2 + 1, V // 3, 16, 32, 64, 128]
                                                                   + [rnd.randint(2, V) for _ in range(3)]))
        for bb in bs:
            if not 2 <= bb <= V:
                continue
            try:
                g = real_guess(guesses["calculate_largest_base"], {"value_bits": V, "b": bb})["a"]
            except Exception as e:  # noqa
                ctx.violation("correspondence-broken", "cannot evaluate the abstracted guess line of calculate_largest_base",
                              {"line": guesses["calculate_largest_base"], "error": str(e)})
                return n_cases
            R = iroot(2 ** V - 1, bb)
            if not (g >= 0 and abs(g - R) <= WINDOW) and not found:
                # hypothesis of largest_base_total violated by the real guess: does the real function still behave?
                try:
                    out = calculate_largest_base(bb, bits, sg)
                    ok = out[1] == R
                except AssertionError:
                    ok = False
                    out = "AssertionError"
                if not ok:
                    found = True
                    ctx.violation("failing-input", "calculate_largest_base: initial guess too far from the root",
                                  {"call": f"calculate_largest_base({bb}, {bits}, {sg})", "guess": str(g), "root": str(R), "result": str(out)},
                                  key="C20:largest_base-guess")
                else:
                    ctx.violation("correspondence-broken", "largest_base_total hypothesis (guess within 4000 of the root) fails for the real guess",
                                  {"b": bb, "bits": bits, "signed": sg, "guess": str(g), "root": str(R)})
            base_cases.append((bb, bits, sg, g, R))
    # ---------------- calculate_largest_power: boundary grid
    pow_cases = []
    for bits, sg in types():
        V = bits - (1 if sg else 0)
        cand = {2, 3, 4, 5, 7, 10, 15, 16, 17, 255, 256, 257, 2 ** V - 1, 2 ** (V - 1), 2 ** (V // 2), 2 ** (V // 2) + 1, 2 ** (V // 2) - 1,
                math.isqrt(2 ** V), math.isqrt(2 ** V) + 1, math.isqrt(2 ** V) - 1, iroot(2 ** V, 3), iroot(2 ** V, 3) + 1, iroot(2 ** V, 5),
                rnd.randrange(2, 2 ** V), rnd.randrange(2, 2 ** min(V, 20))}
        for a in sorted(cand):
            for s in ((1, -1) if sg else (1,)):
                av = s * a
                if av in (-1, 0, 1) or not (-(2 ** V) <= av < 2 ** V):
                    continue
                pow_cases.append((av, bits, sg))
        if sg:
            pow_cases.append((-(2 ** V), bits, sg))
    if ctx.tier == "quick":
        pow_cases = rnd.sample(pow_cases, min(len(pow_cases), 600))
    pcs = []
    for av, bits, sg in pow_cases:
        V = bits - (1 if sg else 0)
        try:
            g = real_guess(guesses["calculate_largest_power"], {"value_bits": V, "a": abs(av)})["b"]
        except Exception as e:  # noqa
            ctx.violation("correspondence-broken", "cannot evaluate the abstracted guess line of calculate_largest_power",
                          {"line": guesses["calculate_largest_power"], "error": str(e)})
            return n_cases
        hyp = 0 <= g <= WINDOW and (g > 1 or 2 ** V <= av * av)
        if not hyp and not found:
            # the unchecked early return `if b <= 1: return 1` would be wrong here
            truth = max(p for p in range(0, 300) if (-(2 ** V) if sg else 0) <= av ** p < 2 ** V)
            try:
                out = calculate_largest_power(av, bits, sg)
            except AssertionError:
                out = "AssertionError"
            if out != truth:
                found = True
                ctx.violation("failing-input", "calculate_largest_power returns a non-maximal/incorrect power (initial guess outside the proved window)",
                              {"call": f"calculate_largest_power({av}, {bits}, {sg})", "guess": str(g), "expected": truth, "result": str(out)},
                              key="C20:largest_power-guess")
            else:
                ctx.violation("correspondence-broken", "largest_power_total hypothesis on the guess fails for the real guess",
                              {"a": str(av), "bits": bits, "signed": sg, "guess": str(g)})
        pcs.append((av, bits, sg, g))
    # ---------------- model vs real (translation validation + independent expected value)
    if model_ok and not found:
        imports = ("From Verif Require Import Base.PyInt C20.GenPow.\n"
                   "Definition showp (r : res Z) : Z := match r with Ok v => v | Err _ => -1 end.\n"
                   "Definition showb (r : res (Z * Z)) : list Z := match r with Ok (l, h) => [l; h] | Err _ => [-1; -1] end.\n")
        bq = base_cases if ctx.tier == "thorough" else rnd.sample(base_cases, min(len(base_cases), 500))
        e1 = "flat_map (fun c => match c with (b, nb, sg, g) => showb (calculate_largest_base b nb sg g) end) [" + \
             "; ".join(f"({coqrun.hexlit(bb)}, {bits}, {'true' if sg else 'false'}, {coqrun.hexlit(g)})" for bb, bits, sg, g, R in bq) + "]"
        e2 = "map (fun c => match c with (a, nb, sg, g) => showp (calculate_largest_power a nb sg g) end) [" + \
             "; ".join(f"({coqrun.hexlit(av)}, {bits}, {'true' if sg else 'false'}, {coqrun.hexlit(g)})" for av, bits, sg, g in pcs) + "]"
        try:
            o1, o2 = coqrun.eval_zlists(imports, [e1, e2], "c20pow", shard=1, timeout=200)
        except RuntimeError as e:
            ctx.violation("correspondence-broken", "evaluating the translated calculate_largest_* in Coq failed / timed out",
                          {"error": str(e)[-400:]})
            bq, pcs, o1, o2 = [], [], [], []
        for i, (bb, bits, sg, g, R) in enumerate(bq):
            model = (o1[2 * i], o1[2 * i + 1])
            try:
                real = tuple(calculate_largest_base(bb, bits, sg))
            except AssertionError:
                real = ("AssertionError",)
            n_cases += 1
            V = bits - (1 if sg else 0)
            lo = 0 if not sg else (-(R + 1) if (R + 1) ** bb == 2 ** V else -R)
            if real != (lo, R):
                found = True
                ctx.violation("failing-input", "calculate_largest_base returns a wrong interval",
                              {"call": f"calculate_largest_base({bb}, {bits}, {sg})", "expected": str((lo, R)), "result": str(real)},
                              key="C20:largest_base-wrong")
                break
            if model != real:
                ctx.violation("correspondence-broken", "GenPow.calculate_largest_base differs from CPython",
                              {"args": [bb, bits, sg, str(g)], "model": str(model), "real": str(real)})
                break
        for i, (av, bits, sg, g) in enumerate(pcs):
            try:
                real = calculate_largest_power(av, bits, sg)
            except AssertionError:
                real = "AssertionError"
            n_cases += 1
            V = bits - (1 if sg else 0)
            lo_t = -(2 ** V) if sg else 0
            truth, q = 0, av
            for pp in range(1, 260):
                if lo_t <= q < 2 ** V:
                    truth = pp
                elif abs(q) >= 2 ** (V + 1):
                    break
                q *= av
            if real != truth:
                found = True
                ctx.violation("failing-input", "calculate_largest_power returns a wrong power",
                              {"call": f"calculate_largest_power({av}, {bits}, {sg})", "expected": truth, "result": str(real)},
                              key="C20:largest_power-wrong")
                break
            if o2[i] != real:
                ctx.violation("correspondence-broken", "GenPow.calculate_largest_power differs from CPython",
                              {"args": [str(av), bits, sg, str(g)], "model": str(o2[i]), "real": str(real)})
                break
    if not b["ok"] and not found:
        ctx.violation("theorem-broken", f"{b.get('failed_lemma')} in {b['file']}",
                      {"theorem": b.get("failed_lemma"), "file": b["file"], "coq_output": b["out"][-1500:]})
    ctx.corr["pow_base_guess_checked"] = len(base_cases)
    ctx.corr["pow_power_guess_checked"] = len(pcs)
    ctx.corr["pow_model_vs_real"] = n_cases
    ctx.extra["abstracted_guess_lines"] = guesses
    return n_cases + len(base_cases) + len(pcs)
