"""C10 directed family: RUN-TIME indices of every integer width at the boundaries of the index type and of the array.

A state variable `table: T[N]` sits between two neighbours (`before`, `after`); `put(i: IT, v)` writes `self.table[i]`,
`get(i: IT)` reads it.  For every index type IT (narrow and wide, signed and unsigned) N is chosen at and around the largest
value of IT (an index that cannot exceed N by its type is where a bounds check is tempting to drop), and i sweeps
{0, 1, N-1, N, N+1, max(IT), min(IT), -1}.  Oracle (the property's own, no model): the layout output gives slot(before),
slot(table), n_slots(table), slot(after); a call with 0 <= i < N succeeds and changes exactly slot(table)+i*words(T); any other
call reverts and changes nothing — `before`, `after` and the first slot past `after` are read back after every call.
Storage and transient storage, both code generators, the core configurations."""
from .configs import core_configs, compile_src
from .evm import Chain

ITYPES = [("uint8", 0, 255), ("int8", -128, 127), ("uint16", 0, 65535), ("int16", -32768, 32767), ("uint256", 0, 2 ** 256 - 1),
          ("int128", -2 ** 127, 2 ** 127 - 1), ("uint32", 0, 2 ** 32 - 1)]
SENTINEL_B, SENTINEL_A = 0xB0B0B0B0B0B0B0B0, 0xA1A1A1A1A1A1A1A1


def source(it, n, loc, elem_words):
    elem = "uint256" if elem_words == 1 else f"uint256[{elem_words}]"
    val = "v" if elem_words == 1 else "[" + ", ".join(["v"] * elem_words) + "]"
    rd = f"self.table[i]" if elem_words == 1 else f"self.table[i][{elem_words - 1}]"
    decl = (lambda t: f"transient({t})") if loc == "transient" else (lambda t: t)
    return f"""
before: {decl('uint256')}
table: {decl(f'{elem}[{n}]')}
after: {decl('uint256')}

@external
def arm():
    self.before = {SENTINEL_B}
    self.after = {SENTINEL_A}

@external
def put(i: {it}, v: uint256) -> (uint256, uint256):
    self.before = {SENTINEL_B}
    self.after = {SENTINEL_A}
    self.table[i] = {val}
    return self.before, self.after

@external
def get(i: {it}) -> uint256:
    return {rd}

@external
def roundtrip(i: {it}, v: uint256) -> (uint256, uint256, uint256):
    self.before = {SENTINEL_B}
    self.after = {SENTINEL_A}
    self.table[i] = {val}
    return self.before, {rd}, self.after
"""


def sizes_for(lo, hi):
    out = {3}
    for n in (hi - 1, hi, hi + 1):
        if 1 <= n <= 70000:
            out.add(n)
    return sorted(out)


def run(ctx, quick=True):
    """-> (evaluations, found)"""
    from eth_abi import encode
    from vyper.utils import method_id
    rnd = ctx.rng("rtindex")
    cfgs = core_configs()
    n_eval = 0
    stats = {"contracts": 0, "calls": 0, "in_range": 0, "rejected": 0}
    combos = []
    for it, lo, hi in ITYPES:
        for n in sizes_for(lo, hi):
            for loc in ("storage", "transient"):
                for ew in (1, 2):
                    combos.append((it, lo, hi, n, loc, ew))
    if quick:
        # every (index type, boundary size) once per run, location / element width rotating with the seed
        keep = {}
        rnd.shuffle(combos)
        for c in combos:
            keep.setdefault((c[0], c[3]), c)
        combos = sorted(keep.values())
    for k, (it, lo, hi, n, loc, ew) in enumerate(combos):
        src = source(it, n, loc, ew)
        # quick: one legacy and one venom configuration per contract (core_configs = legacy-gas, venom-gas, legacy-none, venom-O3)
        use = cfgs if not quick else [cfgs[0 if k % 2 == 0 else 2], cfgs[1 if (k // 2) % 2 == 0 else 3]]
        for cfg in use:
            if loc == "transient" and cfg.evm in ("london", "paris", "shanghai"):
                continue
            try:
                out = compile_src(src, cfg)
            except Exception as e:  # noqa: compile failures are C20's business
                stats["compile_failed"] = stats.get("compile_failed", 0) + 1
                continue
            stats["contracts"] += 1
            lay = out["layout"].get("transient_storage_layout" if loc == "transient" else "storage_layout", {})
            base, nsl = lay["table"]["slot"], lay["table"]["n_slots"]
            ch = Chain(cfg.evm)
            addr = ch.deploy(bytes.fromhex(out["bytecode"][2:]))
            if addr is None:
                continue
            abi_it = it
            probes = sorted({p for p in (0, 1, n - 1, n, n + 1, hi, lo, -1, hi - 1, rnd.randrange(0, n)) if lo <= p <= hi})
            for i in probes:
                v = rnd.randrange(1, 2 ** 255)
                data = method_id(f"roundtrip({abi_it},uint256)") + encode([abi_it, "uint256"], [i, v])
                r = ch.call(addr, data)
                stats["calls"] += 1
                n_eval += 1
                ok_expected = 0 <= i < n
                prob = None
                if r.ok != ok_expected:
                    prob = ("index %d outside [0, %d) was ACCEPTED" % (i, n)) if r.ok else ("index %d inside [0, %d) was rejected" % (i, n))
                elif r.ok:
                    stats["in_range"] += 1
                    b, x, a = (int.from_bytes(r.out[j:j + 32], "big") for j in (0, 32, 64))
                    if (b, x, a) != (SENTINEL_B, v, SENTINEL_A):
                        prob = f"write through table[{i}] then read back: before={b:#x} value={x:#x} after={a:#x}"
                    elif loc == "storage":
                        w = ch.storage(addr, base + i * ew + (ew - 1))
                        if w != v:
                            prob = f"slot {base + i * ew + ew - 1} (reported slot of table[{i}]) holds {w:#x}, expected the value written"
                else:
                    stats["rejected"] += 1
                if prob is None and loc == "storage" and r.ok != ok_expected:
                    pass
                if prob:
                    # which neighbour took the write?
                    detail = {"source": src, "config": cfg.name, "call": f"roundtrip({i}, {v:#x})", "calldata": data.hex(),
                              "layout": lay, "index_type": it, "array_length": n, "location": loc, "problem": prob,
                              "returned": r.out.hex() if r.ok else "REVERT"}
                    ctx.violation("failing-input", "run-time index at a type/array boundary: " + prob, detail,
                                  key=f"C10:rtindex:{it}:{n}:{loc}")
                    ctx.corr["rtindex"] = stats
                    return n_eval, True
    ctx.corr["rtindex"] = stats
    return n_eval, False


# ------------------------------------------------------------------ DynArray mutators x location (session 3, seeded change C10_m7)
# Storage and transient storage number their slots independently: a transient variable and a storage variable legitimately
# carry the SAME slot numbers.  Every mutator of a DynArray (append, pop, element write, whole assignment) on the variable of one
# address space must leave every variable of the other one alone and read back what was written -- for one-slot and multi-slot
# element types.  All observations come back as return values (source-level oracle, no journal).
_ELEMS = [("uint256", "v", "uint256", lambda v: [v]),
          ("uint256[2]", "[v, v + 1]", "uint256[2]", lambda v: [v, v + 1]),
          ("P", "P(a=v, b=v + 2)", "P", lambda v: [v, v + 2]),
          ("Q", "Q(a=v)", "Q", lambda v: [v])]


def _mut_source(k):
    ety, mk, _, _ = _ELEMS[k]
    if ety == "uint256":
        rd = lambda e: [e]                                                        # noqa
    elif ety == "uint256[2]":
        rd = lambda e: [f"{e}[0]", f"{e}[1]"]                                      # noqa
    elif ety == "P":
        rd = lambda e: [f"{e}.a", f"{e}.b"]                                        # noqa
    else:
        rd = lambda e: [f"{e}.a"]                                                  # noqa
    w = len(rd("x"))
    obs_t = ", ".join(["uint256"] * (6 + 2 * w))

    def body(loc, op):
        me, other = ("self.tarr", "self.sarr") if loc == "t" else ("self.sarr", "self.tarr")
        lines = ["    self.sb = 11", "    self.sa = 12", "    self.tb = 21", "    self.ta = 22",
                 f"    self.sarr = [{mk.replace('v', '100')}, {mk.replace('v', '200')}]",
                 f"    self.tarr = [{mk.replace('v', '300')}, {mk.replace('v', '400')}]"]
        if op == "append":
            lines.append(f"    {me}.append({mk})")
        elif op == "pop":
            lines.append(f"    {me}.pop()")
        elif op == "set":
            lines.append(f"    {me}[1] = {mk}")
        elif op == "assign":
            lines.append(f"    {me} = [{mk}]")
        lines.append("    n_s: uint256 = len(self.sarr)")
        lines.append("    n_t: uint256 = len(self.tarr)")
        last_s = rd("self.sarr[n_s - 1]")
        last_t = rd("self.tarr[n_t - 1]")
        lines.append("    return self.sb, self.sa, self.tb, self.ta, n_s, n_t, " + ", ".join(last_s + last_t))
        return "\n".join(lines)
    fns = []
    for loc in ("s", "t"):
        for op in ("append", "pop", "set", "assign"):
            fns.append(f"@external\ndef {loc}_{op}(v: uint256) -> ({obs_t}):\n{body(loc, op)}\n")
    return ("struct P:\n    a: uint256\n    b: uint256\n\nstruct Q:\n    a: uint256\n\n"
            f"sb: uint256\nsarr: DynArray[{ety}, 4]\nsa: uint256\ntb: transient(uint256)\ntarr: transient(DynArray[{ety}, 4])\nta: transient(uint256)\n\n"
            + "\n".join(fns)), w


def run_mutators(ctx, quick=True):
    """-> (evaluations, found)"""
    from eth_abi import encode
    from vyper.utils import method_id
    from .configs import Config
    rnd = ctx.rng("mutators")
    cfgs = [Config(False, "gas", "cancun"), Config(True, "gas", "cancun"), Config(False, "none", "prague"), Config(True, "O3", "prague"),
            Config(True, "none", "cancun"), Config(True, "codesize", "prague")]
    n_eval = 0
    stats = {"contracts": 0, "calls": 0}
    for k in range(len(_ELEMS)):
        src, w = _mut_source(k)
        enc = _ELEMS[k][3]
        use = cfgs if not quick else [cfgs[k % 2], cfgs[1], cfgs[2 + (k % 4)]]
        for cfg in {c.name: c for c in use}.values():
            try:
                out = compile_src(src, cfg)
            except Exception as e:  # noqa: C20's business
                stats["compile_failed"] = stats.get("compile_failed", 0) + 1
                continue
            stats["contracts"] += 1
            ch = Chain(cfg.evm)
            addr = ch.deploy(bytes.fromhex(out["bytecode"][2:]))
            if addr is None:
                continue
            for loc in ("s", "t"):
                for op in ("append", "pop", "set", "assign"):
                    v = rnd.randrange(1000, 2 ** 200)
                    r = ch.call(addr, method_id(f"{loc}_{op}(uint256)") + encode(["uint256"], [v]))
                    stats["calls"] += 1
                    n_eval += 1
                    s_arr, t_arr = [enc(100), enc(200)], [enc(300), enc(400)]
                    me = s_arr if loc == "s" else t_arr
                    if op == "append":
                        me.append(enc(v))
                    elif op == "pop":
                        me.pop()
                    elif op == "set":
                        me[1] = enc(v)
                    else:
                        me[:] = [enc(v)]
                    want = [11, 12, 21, 22, len(s_arr), len(t_arr)] + [x % 2 ** 256 for x in s_arr[-1] + t_arr[-1]]
                    got = [int.from_bytes(r.out[j:j + 32], "big") for j in range(0, len(r.out), 32)] if r.ok else None
                    if got != want:
                        names = ["sb", "sa", "tb", "ta", "len(sarr)", "len(tarr)"] + [f"sarr[-1].{i}" for i in range(w)] + [f"tarr[-1].{i}" for i in range(w)]
                        diff = "REVERT" if got is None else ", ".join(f"{n}={g:#x} (expected {x:#x})" for n, g, x in zip(names, got, want) if g != x)
                        ctx.violation("failing-input", f"DynArray mutator on one address space disturbs the other / does not read back: {loc}_{op}: {diff}",
                                      {"source": src, "config": cfg.name, "call": f"{loc}_{op}({v})", "element_type": _ELEMS[k][0],
                                       "observed": got, "expected": want},
                                      key=f"C10:mutator:{_ELEMS[k][0]}:{loc}_{op}")
                        ctx.corr["dynarray_mutators"] = stats
                        return n_eval, True
    ctx.corr["dynarray_mutators"] = stats
    return n_eval, False
