"""C12 correspondence: scriptable callee (hand-assembled), generated caller contracts, case enumeration."""
from vlib.coqrun import hexlit

# ---------------------------------------------------------------- callee
NWORDS = 20

def callee_runtime():
    """storage: slot0 = mode, slot1 = N (bytes), slot 2.. = data words (NWORDS).
    mode 0 return data[:N]; 1 revert data[:N]; 2 INVALID; 3 SSTORE(100,1) then return; 4 return callvalue;
    5 return (calldataload(0), calldatasize); 6 return GAS"""
    code = bytearray()
    fix = []
    labels = {}

    def op(*bs):
        code.extend(bs)

    def pushl(name):
        code.append(0x61)
        fix.append((len(code), name))
        code.extend(b"\x00\x00")

    def label(name):
        labels[name] = len(code)
        code.append(0x5B)

    for i in range(NWORDS):
        op(0x60, 2 + i, 0x54, 0x61, (32 * i) >> 8, (32 * i) & 255, 0x52)
    op(0x60, 0x00, 0x54)
    for m, name in [(1, "revert"), (2, "invalid"), (3, "sstore"), (4, "value"), (5, "cd"), (6, "gas")]:
        op(0x80, 0x60, m, 0x14)
        pushl(name)
        op(0x57)
    label("return")
    op(0x60, 0x01, 0x54, 0x60, 0x00, 0xF3)
    label("revert")
    op(0x60, 0x01, 0x54, 0x60, 0x00, 0xFD)
    label("invalid")
    op(0xFE)
    label("sstore")
    op(0x60, 0x01, 0x60, 0x64, 0x55)
    pushl("return")
    op(0x56)
    label("value")
    op(0x34, 0x60, 0x00, 0x52, 0x60, 0x20, 0x60, 0x00, 0xF3)
    label("cd")
    op(0x60, 0x00, 0x35, 0x60, 0x00, 0x52, 0x36, 0x60, 0x20, 0x52, 0x60, 0x40, 0x60, 0x00, 0xF3)
    label("gas")
    op(0x5A, 0x60, 0x00, 0x52, 0x60, 0x20, 0x60, 0x00, 0xF3)
    for pos, name in fix:
        code[pos:pos + 2] = labels[name].to_bytes(2, "big")
    return bytes(code)


NO_CODE = "0x00000000000000000000000000000000000dead0"

# ---------------------------------------------------------------- types
W = 2**256
TYPES = {
    # name: (vyper type, coq tys, valid words, [(position, invalid word)], default literal, default words)
    "u256": ("uint256", ["TUint 256"], [2**255 + 5], [], "7", [7]),
    "u8": ("uint8", ["TUint 8"], [255], [(0, 256), (0, W - 1)], "7", [7]),
    "i128": ("int128", ["TInt 128"], [W - 2**127], [(0, 2**127), (0, W - 2**127 - 1)], "-3", [W - 3]),
    "bool": ("bool", ["TBool"], [1], [(0, 2), (0, 2**255)], "True", [1]),
    "addr": ("address", ["TAddress"], [2**160 - 1], [(0, 2**160)], "empty(address)", [0]),
    "b32": ("bytes32", ["TBytesM 32"], [W - 2], [], "0x" + "00" * 31 + "07", [7]),
    "b4": ("bytes4", ["TBytesM 4"], [0x01020304 << 224], [(0, (0x01020304 << 224) | 1), (0, 1)], "0x0a0b0c0d", [0x0A0B0C0D << 224]),
    "pair": ("(uint256, uint256)", ["TUint 256", "TUint 256"], [11, W - 1], [], None, None),
    "mix": ("(uint8, bool)", ["TUint 8", "TBool"], [200, 1], [(0, 256), (1, 2)], None, None),
    "none": (None, None, [], [], None, None),
}
# session 3 (seeded change C12_m5): EVERY word-sized type of the language, top level and nested in tuples / static arrays:
# interface values, flags, decimals, more bytesM / intN widths.  An out-of-range word in that slot must revert.
DECLS = "flag Fl:\n    A\n    B\n    C\n\ninterface Token:\n    def balanceOf(a: address) -> uint256: view\n\nstruct P:\n    n: uint256\n    t: Token\n    f: Fl\n\n"
EXT_TYPES = {
    "tok": ("Token", ["TAddress"], [2**160 - 1], [(0, 2**160), (0, 2**160 + 5), (0, 2**255), (0, W - 1)], None, None),
    "flag": ("Fl", ["TUint 3"], [5], [(0, 8), (0, 2**255), (0, W - 1)], None, None),
    "dec": ("decimal", ["TInt 168"], [W - 2**167], [(0, 2**167), (0, W - 2**167 - 1)], None, None),
    "b1": ("bytes1", ["TBytesM 1"], [0xAB << 248], [(0, (0xAB << 248) | 1), (0, 1 << 247)], None, None),
    "b20": ("bytes20", ["TBytesM 20"], [(2**160 - 1) << 96], [(0, ((2**160 - 1) << 96) | 1), (0, 1 << 95)], None, None),
    "i8": ("int8", ["TInt 8"], [W - 128], [(0, 128), (0, W - 129)], None, None),
    "u160": ("uint160", ["TUint 160"], [2**160 - 1], [(0, 2**160)], None, None),
    "tuptok": ("(uint256, Token)", ["TUint 256", "TAddress"], [W - 1, 2**160 - 1], [(1, 2**160), (1, W - 1)], None, None),
    "tupmix": ("(Fl, decimal, bytes4)", ["TUint 3", "TInt 168", "TBytesM 4"], [7, 2**167 - 1, 0x01020304 << 224],
               [(0, 8), (1, 2**167), (2, (0x01020304 << 224) | 1)], None, None),
    "sarrtok": ("Token[2]", ["TAddress", "TAddress"], [1, 2**160 - 1], [(0, 2**160), (1, 2**160)], None, None),
    "stp": ("P", ["TUint 256", "TAddress", "TUint 3"], [9, 2**160 - 1, 7], [(1, 2**160), (2, 8)], None, None),
    "nesttup": ("(uint256, (Token, bool))", ["TUint 256", "TAddress", "TBool"], [3, 5, 1], [(1, 2**160), (2, 2)], None, None),
}
TYPES.update(EXT_TYPES)
MUTS = {"n": ("nonpayable", "Nonpayable"), "v": ("view", "ViewM"), "p": ("payable", "Payable"), "u": ("pure", "Pure")}
VALUE = 7
GASKW = 100000


def dyn_caller_source():
    """separate contract for the dynamic return types (code size limit)"""
    from vlib import c12_dyn
    L = [c12_dyn.STRUCTS, "interface C:"] + c12_dyn.iface_lines()
    L += ["", "t: public(address)", "", "@external", "def set_t(a: address):", "    self.t = a", ""]
    dl, dfns = c12_dyn.caller_functions()
    return "\n".join(L + dl), dfns


def caller_source():
    L = [DECLS + "interface C:"]
    for ty, (vt, *_r) in TYPES.items():
        for m, (mut, _) in MUTS.items():
            ret = f" -> {vt}" if vt else ""
            L.append(f"    def f_{ty}_{m}(x: uint256){ret}: {mut}")
    L += ["", "t: public(address)", "", "@external", "def set_t(a: address):", "    self.t = a", ""]
    fns = []   # (name, ty, mutkey, skip, dflt, value, gas)

    def emit(name, ty, m, skip, dflt, value=False, gas=False):
        vt, _tys, _v, _inv, dlit, _dw = TYPES[ty]
        kws = []
        if skip:
            kws.append("skip_contract_check=True")
        if dflt:
            kws.append(f"default_return_value={dlit}")
        if value:
            kws.append(f"value={VALUE}")
        if gas:
            kws.append(f"gas={GASKW}")
        kw = "".join(", " + k for k in kws)
        callkw = "staticcall" if m in ("v", "u") else "extcall"
        ret = f" -> {vt}" if vt else ""
        decos = ["@external"] + (["@payable"] if value else [])
        expr = f"{callkw} C(self.t).f_{ty}_{m}(x{kw})"
        if name.startswith("s_"):
            # STATEMENT position: the returned value is dropped; the call must fail closed exactly as in expression position
            L.extend(decos + [f"def {name}(x: uint256):", f"    {expr}", ""])
        else:
            L.extend(decos + [f"def {name}(x: uint256){ret}:", f"    {'return ' if vt else ''}{expr}", ""])
        fns.append((name, ty, m, skip, dflt, value, gas))

    for ty in EXT_TYPES:
        # (code size: two mutabilities, no keyword variants; `tok` also in statement position below)
        emit(f"c_{ty}_n_00", ty, "n", False, False)
        if ty in ("tok", "tuptok", "flag", "dec"):
            emit(f"c_{ty}_v_00", ty, "v", False, False)
    for ty in TYPES:
        if ty in EXT_TYPES:
            continue
        has_d = TYPES[ty][4] is not None
        for m in ("n", "v", "u"):
            # (callers are mutable -- nonpayable -- functions: view AND pure interface functions must go out by STATICCALL)
            if ty == "none" and m in ("v", "u"):
                continue   # a void staticcall statement is rejected by the front end
            for skip in ((False,) if m == "u" else (False, True)):
                for dflt in ((False, True) if has_d else (False,)):
                    emit(f"c_{ty}_{m}_{int(skip)}{int(dflt)}", ty, m, skip, dflt)
    # the same extcalls in statement position (result discarded), every return type that has one
    for ty in ("tok", "tuptok"):
        emit(f"s_{ty}_n_00", ty, "n", False, False)
    for ty in TYPES:
        if ty == "none" or ty in EXT_TYPES:
            continue
        has_d = TYPES[ty][4] is not None
        for skip in (False, True):
            for dflt in ((False, True) if has_d else (False,)):
                emit(f"s_{ty}_n_{int(skip)}{int(dflt)}", ty, "n", skip, dflt)
    for ty in ("u256", "none", "bool"):
        emit(f"c_{ty}_p_val", ty, "p", False, False, value=True)
        emit(f"c_{ty}_n_gas", ty, "n", False, False, gas=True)
    # raw_call
    raws = []
    for M in (0, 32, 64):
        for R in (True, False):
            for S in (False, True):
                name = f"r_{M}_{int(R)}_{int(S)}"
                kws = []
                if M:
                    kws.append(f"max_outsize={M}")
                if not R:
                    kws.append("revert_on_failure=False")
                if S:
                    kws.append("is_static_call=True")
                kw = "".join(", " + k for k in kws)
                if M == 0 and R:
                    ret, body = "", f"raw_call(self.t, d{kw})"
                elif M == 0:
                    ret, body = " -> bool", f"return raw_call(self.t, d{kw})"
                elif R:
                    ret, body = f" -> Bytes[{M}]", f"return raw_call(self.t, d{kw})"
                else:
                    ret, body = f" -> (bool, Bytes[{M}])", f"return raw_call(self.t, d{kw})"
                L.extend(["@external", f"def {name}(d: Bytes[64]){ret}:", f"    {body}", ""])
                raws.append((name, M, R, S))
    return "\n".join(L), fns, raws


# ---------------------------------------------------------------- cases
def words_bytes(ws):
    return b"".join((w % W).to_bytes(32, "big") for w in ws)


def behaviours(ty, rnd):
    """list of (code, mode, data bytes) for a caller function of return type ty"""
    _vt, tys, valid, invalid, _d, _dw = TYPES[ty]
    n = len(valid)
    good = words_bytes(valid) if n else words_bytes([rnd.randrange(W)])
    st = 32 * n
    out = [(False, 0, b"")]
    lens = sorted({0, 1, 31, 32, 33, max(st - 1, 0), st, st + 32, st + 1})
    pad = bytes(rnd.randrange(256) for _ in range(64))
    for ln in lens:
        d = (good + pad)[:ln]
        out.append((True, 0, d))
    for pos, w in invalid:
        ws = list(valid)
        ws[pos] = w
        out.append((True, 0, words_bytes(ws)))
        out.append((True, 0, words_bytes(ws) + pad[:32]))
    for ln in (0, 4, 36, 100):
        out.append((True, 1, bytes(rnd.randrange(256) for _ in range(ln))))
    out.append((True, 2, good))
    out.append((True, 3, good))
    out.append((True, 3, b""))
    if ty == "u256":
        out.append((True, 4, b""))
    return out


def zbytes(b):
    return "[" + "; ".join(str(x) for x in b) + "]"


def model_expr(fn, beh):
    name, ty, m, skip, dflt, value, gas = fn
    code, mode, data = beh
    _vt, tys, _valid, _inv, _dlit, dw = TYPES[ty]
    d = "(Some [" + "; ".join(hexlit(x) for x in dw) + "])" if dflt else "None"
    ret = "None" if tys is None else "(Some [" + "; ".join(tys) + "])"
    return (f"res_to_list (ext_call (mkKw {'true' if skip else 'false'} {d} {VALUE if value else 0}) {MUTS[m][1]} {ret} "
            f"(scripted_callee {'true' if code else 'false'} {mode} {zbytes(data)}))")


def raw_model_expr(raw, beh):
    name, M, R, S = raw
    code, mode, data = beh
    return (f"res_to_list (raw_call {M} {'true' if R else 'false'} {'true' if S else 'false'} 0 "
            f"(scripted_callee {'true' if code else 'false'} {mode} {zbytes(data)}))")


def install(chain, callee, mode, data):
    ins = chain.evm.insert_account_storage
    ins(callee, 0, mode)
    ins(callee, 1, len(data))
    assert len(data) <= 32 * NWORDS
    d = data + bytes(-len(data) % 32)
    for i in range(len(d) // 32):          # words beyond N are never returned: no need to clear them
        ins(callee, 2 + i, int.from_bytes(d[32 * i:32 * i + 32], "big"))


def decode_raw_output(raw, out):
    """caller's ABI output -> model-shaped list [flag, len, bytes...] (None where the type carries no information)"""
    name, M, R, S = raw
    if M == 0 and R:
        return None
    if M == 0:
        return [int.from_bytes(out[:32], "big"), 0]
    if R:
        ln = int.from_bytes(out[32:64], "big")
        return [1, ln] + list(out[64:64 + ln])
    flag = int.from_bytes(out[:32], "big")
    ln = int.from_bytes(out[64:96], "big")
    return [flag, ln] + list(out[96:96 + ln])
