"""VyCore program AST shared by C01/C02/C08: prints Vyper source text AND the Coq term for coq/C01/VyCore.v.

Types:  ('int', bits, signed) | ('bool',) | ('addr',) | ('sarr', t, n) | ('darr', t, cap) | ('struct', name, ((fname, t), ...))
Nodes:  E(kind, ty, **fields) for expressions, S(kind, **fields) for statements (see printers below).
"""
from vlib.coqrun import hexlit

U256 = ("int", 256, False)
DEC = ("dec", 168, True)          # decimal: integers scaled by 10**10, 168 bits signed
DEC_SCALE = 10 ** 10
BOOL = ("bool",)
ADDR = ("addr",)
UNIT = ("struct", "", ())


def is_int(t):
    return t[0] == "int"


def int_bounds(t):
    _, bits, signed = t
    return (-(2 ** (bits - 1)), 2 ** (bits - 1) - 1) if signed else (0, 2 ** bits - 1)


def ty_vy(t):
    k = t[0]
    if k == "int":
        return f"{'int' if t[2] else 'uint'}{t[1]}"
    if k == "bool":
        return "bool"
    if k == "addr":
        return "address"
    if k == "sarr":
        return f"{ty_vy(t[1])}[{t[2]}]"
    if k == "darr":
        return f"DynArray[{ty_vy(t[1])}, {t[2]}]"
    if k == "struct":
        return t[1]
    if k == "map":
        return f"HashMap[{ty_vy(t[1])}, {ty_vy(t[2])}]"
    if k == "bytes":
        return f"Bytes[{t[1]}]"
    if k == "string":
        return f"String[{t[1]}]"
    if k == "flag":
        return t[1]
    if k == "dec":
        return "decimal"
    if k == "bytesm":
        return f"bytes{t[1]}"
    raise ValueError(t)


def ty_abi(t):
    k = t[0]
    if k == "bytes":
        return "bytes"
    if k == "string":
        return "string"
    if k == "flag":
        return "uint256"
    if k == "dec":
        return "int168"      # same encoding as fixed168x10 (the signature uses ty_sig)
    if k == "bytesm":
        return f"bytes{t[1]}"
    if k in ("int", "bool"):
        return ty_vy(t)
    if k == "addr":
        return "address"
    if k == "sarr":
        return f"{ty_abi(t[1])}[{t[2]}]"
    if k == "darr":
        return f"{ty_abi(t[1])}[]"
    if k == "struct":
        return "(" + ",".join(ty_abi(ft) for _, ft in t[2]) + ")"
    raise ValueError(t)


def ty_sig(t):
    """type string used in function signatures (selectors)"""
    k = t[0]
    if k == "dec":
        return "int168"       # this compiler exposes decimal as int168 in signatures
    if k == "sarr":
        return f"{ty_sig(t[1])}[{t[2]}]"
    if k == "darr":
        return f"{ty_sig(t[1])}[]"
    if k == "struct":
        return "(" + ",".join(ty_sig(ft) for _, ft in t[2]) + ")"
    return ty_abi(t)


def ty_coq(t):
    k = t[0]
    if k == "int":
        return f"(TInt {t[1]} {'true' if t[2] else 'false'})"
    if k == "dec":
        return "(TInt 168 true)"
    if k == "bytesm":      # bytesM: the M-byte string read as a big-endian number (left-aligned in the ABI word / slot)
        return f"(TInt {8 * t[1]} false)"
    if k == "flag":      # a flag with n members is an n-bit mask: ABI validation is `value < 2**n`
        return f"(TInt {t[2]} false)"
    if k == "bool":
        return "TBool"
    if k == "addr":
        return "TAddr"
    if k == "sarr":
        return f"(TSArr {ty_coq(t[1])} {t[2]})"
    if k == "darr":
        return f"(TDArr {ty_coq(t[1])} {t[2]})"
    if k == "struct":
        return "(TStruct [" + "; ".join(ty_coq(ft) for _, ft in t[2]) + "])"
    if k == "map":
        return f"(TMap {ty_coq(t[1])} {ty_coq(t[2])})"
    if k in ("bytes", "string"):      # String[N] shares the model of Bytes[N] (len / concat / slice / equality)
        return f"(TBytes {t[1]})"
    raise ValueError(t)


def zero_val(t):
    k = t[0]
    if k in ("int", "addr", "flag", "dec", "bytesm"):
        return 0
    if k == "bool":
        return False
    if k == "sarr":
        return [zero_val(t[1]) for _ in range(t[2])]
    if k == "darr":
        return []
    if k == "struct":
        return [zero_val(ft) for _, ft in t[2]]
    if k == "map":
        return {}
    if k in ("bytes", "string"):
        return b""
    raise ValueError(t)


def val_coq(v):
    """python value tree (int | bool | list | bytes) -> Coq `value`"""
    if isinstance(v, (bytes, bytearray)):
        return "(VBytes [" + "; ".join(str(b) for b in v) + "])"
    if isinstance(v, bool):
        return f"(VBool {'true' if v else 'false'})"
    if isinstance(v, int):
        return f"(VInt {hexlit(v)})"
    return "(VList [" + "; ".join(val_coq(x) for x in v) + "])"


def val_vy(v, t):
    """literal source text of a python value of type t"""
    k = t[0]
    if k == "bool":
        return "True" if v else "False"
    if k == "bytes":
        return 'b"' + "".join(f"\\x{b:02x}" for b in v) + '"'
    if k == "bytesm":
        return "0x" + int(v).to_bytes(t[1], "big").hex()
    if k == "dec":
        txt = f"{abs(v) // DEC_SCALE}.{abs(v) % DEC_SCALE:010d}"
        return f"(-{txt})" if v < 0 else txt
    if k == "flag":
        ms = [f"{t[1]}.M{i}" for i in range(t[2]) if (v >> i) & 1]
        return "(" + " | ".join(ms) + ")" if ms else f"empty({t[1]})"
    if k == "string":
        return '"' + bytes(v).decode("ascii") + '"'
    if k == "int":
        return f"({v})" if v < 0 else str(v)     # `-3 ** x` parses as -(3 ** x)
    if k == "addr":
        if not v:
            return "empty(address)"
        from eth_utils import to_checksum_address
        return to_checksum_address("0x" + v.to_bytes(20, "big").hex())
    if k in ("sarr", "darr"):
        if not v:
            return f"empty({ty_vy(t)})"
        return "[" + ", ".join(val_vy(x, t[1]) for x in v) + "]"
    if k == "struct":
        return t[1] + "(" + ", ".join(f"{fn}={val_vy(x, ft)}" for x, (fn, ft) in zip(v, t[2])) + ")"
    raise ValueError(t)


class E:
    """expression node"""
    __slots__ = ("k", "ty", "f")

    def __init__(self, k, ty, **f):
        self.k, self.ty, self.f = k, ty, f

    def __getattr__(self, n):
        if n in ("k", "ty", "f") or n.startswith("__"):
            raise AttributeError(n)
        try:
            return self.f[n]
        except KeyError:
            raise AttributeError(n)

    def is_lit(self):
        return self.k == "const"

    def clone(self, **upd):
        f = dict(self.f)
        f.update(upd)
        return E(self.k, self.ty, **f)


class S:
    """statement node"""
    __slots__ = ("k", "f")

    def __init__(self, k, **f):
        self.k, self.f = k, f

    def __getattr__(self, n):
        if n in ("k", "f") or n.startswith("__"):
            raise AttributeError(n)
        try:
            return self.f[n]
        except KeyError:
            raise AttributeError(n)

    def clone(self, **upd):
        f = dict(self.f)
        f.update(upd)
        return S(self.k, **f)


BINOP_VY = {"Add": "+", "Sub": "-", "Mul": "*", "Div": "//", "Mod": "%", "BAnd": "&", "BOr": "|", "BXor": "^", "Pow": "**", "DMul": "*", "DDiv": "/"}
CMP_VY = {"Lt": "<", "Le": "<=", "Gt": ">", "Ge": ">=", "Eq": "==", "Ne": "!="}


# ------------------------------------------------------------------ Vyper printer
def base_vy(b):
    return b[1] if b[0] == "loc" else "self." + b[1]


def path_vy(p):
    s = ""
    for el in p:
        s += f"[{e_vy(el[1])}]" if el[0] == "i" else "." + el[1]
    return s


def e_vy(e):
    k = e.k
    if k == "const":
        return val_vy(e.v, e.ty)
    if k == "var":
        return e.name
    if k in ("self", "tra"):
        return "self." + e.name
    if k == "bin":
        return f"({e_vy(e.a)} {BINOP_VY[e.op]} {e_vy(e.b)})"
    if k == "cmp":
        return f"({e_vy(e.a)} {CMP_VY[e.op]} {e_vy(e.b)})"
    if k == "and":
        return f"({e_vy(e.a)} and {e_vy(e.b)})"
    if k == "or":
        return f"({e_vy(e.a)} or {e_vy(e.b)})"
    if k == "not":
        return f"(not {e_vy(e.a)})"
    if k == "neg":
        return f"(-{e_vy(e.a)})"
    if k == "ifexp":
        return f"({e_vy(e.a)} if {e_vy(e.c)} else {e_vy(e.b)})"
    if k == "call":
        shown = e.args if e.f.get("given") is None else e.args[:e.given]     # the rest are the callee's defaults
        return f"self.{e.name}(" + ", ".join(e_vy(a) for a in shown) + ")"
    if k == "idx":
        return f"{e_vy(e.a)}[{e_vy(e.i)}]"
    if k == "fld":
        return f"{e_vy(e.a)}.{e.name}"
    if k == "len":
        return f"len({e_vy(e.a)})"
    if k in ("min", "max"):
        return f"{k}({e_vy(e.a)}, {e_vy(e.b)})"
    if k == "conv":
        return f"convert({e_vy(e.a)}, {ty_vy(e.ty)})"
    if k == "sender":
        return "msg.sender"
    if k == "balance":
        return "self.balance"
    if k == "value":
        return "msg.value"
    if k == "list":
        if e.ty[0] == "struct":
            return e.ty[1] + "(" + ", ".join(f"{fn}={e_vy(x)}" for x, (fn, _) in zip(e.elems, e.ty[2])) + ")"
        return "[" + ", ".join(e_vy(x) for x in e.elems) + "]"
    if k == "pop":
        return f"{base_vy(e.base)}{path_vy(e.path)}.pop()"
    if k == "ext":
        from vlib.c01_exthelper import HELPER_ADDR, STATIC
        from eth_utils import to_checksum_address
        kw = "staticcall" if e.fn in STATIC else "extcall"
        return f"({kw} Helper({to_checksum_address(HELPER_ADDR)}).{e.fn}(" + ", ".join(e_vy(a) for a in e.args) + "))"
    if k == "dec":
        return {"ToDec": f"convert({e_vy(e.a)}, decimal)", "FromDec": f"convert({e_vy(e.a)}, {ty_vy(e.ty)})",
                "Floor": f"floor({e_vy(e.a)})", "Ceil": f"ceil({e_vy(e.a)})"}[e.mode]
    if k == "flagnot":
        return f"(~{e_vy(e.a)})"
    if k == "flagin":
        return f"({e_vy(e.a)} {'not in' if e.neg else 'in'} {e_vy(e.b)})"
    if k == "shift":
        return f"({e_vy(e.a)} {'<<' if e.left else '>>'} {e_vy(e.b)})"
    if k == "concat":
        return f"concat({e_vy(e.a)}, {e_vy(e.b)})"
    if k == "slice":
        return f"slice({e_vy(e.a)}, {e_vy(e.start)}, {e_vy(e.ln)})"
    raise ValueError(k)


def s_vy(s, ind, out):
    pad = "    " * ind
    k = s.k
    if k == "assign":
        if s.decl is not None:
            out.append(f"{pad}{s.base[1]}: {ty_vy(s.decl)} = {e_vy(s.e)}")
        else:
            out.append(f"{pad}{base_vy(s.base)}{path_vy(s.path)} = {e_vy(s.e)}")
    elif k == "aug":
        out.append(f"{pad}{base_vy(s.base)}{path_vy(s.path)} {BINOP_VY[s.op]}= {e_vy(s.e)}")
    elif k == "if":
        out.append(f"{pad}if {e_vy(s.c)}:")
        block_vy(s.th, ind + 1, out)
        if s.el:
            out.append(f"{pad}else:")
            block_vy(s.el, ind + 1, out)
    elif k == "for":
        rng = f"range({s.n})" if s.start == 0 else f"range({s.start}, {s.start + s.n})"
        out.append(f"{pad}for {s.name}: {ty_vy(s.vty)} in {rng}:")
        block_vy(s.body, ind + 1, out)
    elif k == "fordyn":
        out.append(f"{pad}for {s.name}: {ty_vy(s.vty)} in range({e_vy(s.e)}, bound={s.bound}):")
        block_vy(s.body, ind + 1, out)
    elif k == "forin":
        out.append(f"{pad}for {s.name}: {ty_vy(s.vty)} in {e_vy(s.e)}:")
        block_vy(s.body, ind + 1, out)
    elif k in ("break", "continue", "pass", "raise"):
        out.append(pad + k)
    elif k == "assert":
        out.append(f"{pad}assert {e_vy(s.e)}" + (f', "{s.reason}"' if s.f.get("reason") is not None else ""))
    elif k == "raisemsg":
        out.append(f'{pad}raise "{s.reason}"')
    elif k == "return":
        out.append(f"{pad}return" + ("" if s.e is None else " " + e_vy(s.e)))
    elif k == "log":
        out.append(f"{pad}log {s.name}(" + ", ".join(f"{fn}={e_vy(a)}" for fn, a in zip(s.fields, s.args)) + ")")
    elif k == "expr":
        out.append(pad + e_vy(s.e))
    elif k == "append":
        out.append(f"{pad}{base_vy(s.base)}{path_vy(s.path)}.append({e_vy(s.e)})")
    elif k == "credit":
        out.append(pad + "pass")          # entry of a payable function: the EVM credits msg.value before the body runs
    elif k == "send":
        out.append(f"{pad}send({SEND_TO}, {e_vy(s.e)})")
    elif k == "extstmt":
        from vlib.c01_exthelper import HELPER_ADDR
        from eth_utils import to_checksum_address
        out.append(f"{pad}extcall Helper({to_checksum_address(HELPER_ADDR)}).{s.fn}(" + ", ".join(e_vy(a) for a in s.args) + ")")
    else:
        raise ValueError(k)


def block_vy(b, ind, out):
    if not b:
        out.append("    " * ind + "pass")
    for s in b:
        s_vy(s, ind, out)


# ------------------------------------------------------------------ Coq printer
def base_coq(b):
    return {"loc": "BLoc", "sto": "BSto", "tra": "BTra"}[b[0]] + f" {b[2]}"


def path_coq(p):
    return "[" + "; ".join(f"inl {e_coq(el[1])}" if el[0] == "i" else f"inr {el[2]}%nat" for el in p) + "]"


def e_coq(e):
    k = e.k
    if k == "const":
        return f"(EConst {val_coq(e.v)})"
    if k == "var":
        return f"(EVar {e.id})"
    if k == "self":
        return f"(ESelf {e.id})"
    if k == "tra":
        return f"(ETra {e.id})"
    if k == "bin":
        return f"(EBin {e.op} {ty_coq(e.ty)} {e_coq(e.a)} {e_coq(e.b)})"
    if k == "cmp":
        return f"(ECmp {e.op} {e_coq(e.a)} {e_coq(e.b)})"
    if k == "and":
        return f"(EAnd {e_coq(e.a)} {e_coq(e.b)})"
    if k == "or":
        return f"(EOr {e_coq(e.a)} {e_coq(e.b)})"
    if k == "not":
        return f"(ENot {e_coq(e.a)})"
    if k == "neg":
        return f"(ENeg {ty_coq(e.ty)} {e_coq(e.a)})"
    if k == "ifexp":
        return f"(EIfExp {e_coq(e.c)} {e_coq(e.a)} {e_coq(e.b)})"
    if k == "call":
        return f"(ECall {e.id} [" + "; ".join(e_coq(a) for a in e.args) + "])"
    if k == "idx":
        return f"(EIdx {e_coq(e.a)} {e_coq(e.i)})"
    if k == "fld":
        return f"(EFld {e_coq(e.a)} {e.id})"
    if k == "len":
        return f"(ELen {e_coq(e.a)})"
    if k == "min":
        return f"(EMin {e_coq(e.a)} {e_coq(e.b)})"
    if k == "max":
        return f"(EMax {e_coq(e.a)} {e_coq(e.b)})"
    if k == "conv":
        return f"(EConv {ty_coq(e.ty)} {e_coq(e.a)})"
    if k == "sender":
        return "ESender"
    if k == "balance":
        # the contract's balance is a reserved cell of the reference program's state (hidden storage variable #hid):
        # credited with msg.value on entry of a payable function (S "credit"), debited by send (S "send")
        return f"(ESelf {e.hid})"
    if k == "value":
        return "EValue"
    if k == "list":
        return "(EList [" + "; ".join(e_coq(x) for x in e.elems) + "])"
    if k == "pop":
        return f"(EPop ({base_coq(e.base)}) {path_coq(e.path)})"
    if k == "ext":
        # the scripted callee's meaning in closed form (the hidden storage variable #hid is the helper's `stored`)
        if e.fn == "add":
            return f"(EBin Add (TInt 256 false) {e_coq(e.args[0])} {e_coq(e.args[1])})"
        if e.fn in ("echo_u", "echo_i8", "echo_b", "echo_d"):
            return e_coq(e.args[0])
        if e.fn == "len_b":
            return f"(ELen {e_coq(e.args[0])})"
        if e.fn == "get":
            return f"(ESelf {e.hid})"
        raise ValueError(e.fn)
    if k == "dec":
        return f"(EDec {e.mode} {ty_coq(e.ty)} {e_coq(e.a)})"
    if k == "flagnot":     # ~x on a flag with n members = x xor (2**n - 1)
        return f"(EBin BXor {ty_coq(e.ty)} {e_coq(e.a)} (EConst (VInt {2 ** e.ty[2] - 1})))"
    if k == "flagin":      # a in b  <=>  a & b != 0
        ft = e.a.ty
        return f"(ECmp {'Eq' if e.neg else 'Ne'} (EBin BAnd {ty_coq(ft)} {e_coq(e.a)} {e_coq(e.b)}) (EConst (VInt 0)))"
    if k == "shift":
        return f"(EShift {'true' if e.left else 'false'} {ty_coq(e.ty)} {e_coq(e.a)} {e_coq(e.b)})"
    if k == "concat":
        return f"(EConcat {e_coq(e.a)} {e_coq(e.b)})"
    if k == "slice":
        return f"(ESlice {e_coq(e.a)} {e_coq(e.start)} {e_coq(e.ln)})"
    raise ValueError(k)


def s_coq(s):
    k = s.k
    if k == "assign":
        return f"(SAssign ({base_coq(s.base)}) {path_coq(s.path)} {e_coq(s.e)})"
    if k == "aug":
        return f"(SAug {s.op} {ty_coq(s.ty)} ({base_coq(s.base)}) {path_coq(s.path)} {e_coq(s.e)})"
    if k == "if":
        return f"(SIf {e_coq(s.c)} {block_coq(s.th)} {block_coq(s.el)})"
    if k == "for":
        return f"(SFor {s.id} {hexlit(s.start)} {s.n}%nat {block_coq(s.body)})"
    if k == "fordyn":
        return f"(SForDyn {s.id} {e_coq(s.e)} {s.bound} {block_coq(s.body)})"
    if k == "forin":
        return f"(SForIn {s.id} {e_coq(s.e)} {block_coq(s.body)})"
    if k == "break":
        return "SBreak"
    if k == "continue":
        return "SContinue"
    if k == "pass":
        return "SPass"
    if k == "raise":
        return "SRaise"
    if k == "assert":
        if s.f.get("reason") is not None:
            return f"(SAssertR {e_coq(s.e)} {s.rid})"
        return f"(SAssert {e_coq(s.e)})"
    if k == "raisemsg":
        return f"(SRaiseR {s.rid})"
    if k == "return":
        return "(SReturn None)" if s.e is None else f"(SReturn (Some {e_coq(s.e)}))"
    if k == "log":
        return f"(SLog {s.id} [" + "; ".join(e_coq(a) for a in s.args) + "])"
    if k == "expr":
        return f"(SExpr {e_coq(s.e)})"
    if k == "append":
        return f"(SAppend ({base_coq(s.base)}) {path_coq(s.path)} {s.cap} {e_coq(s.e)})"
    if k == "credit":
        return f"(SAug Add (TInt 256 false) (BSto {s.hid}) [] EValue)"
    if k == "send":        # to an account without code: succeeds iff the balance suffices (send reverts otherwise)
        return f"(SAug Sub (TInt 256 false) (BSto {s.hid}) [] {e_coq(s.e)})"
    if k == "extstmt":
        from vlib.c01_exthelper import CONTRACT_ADDR
        if s.fn == "store":    # helper.stored := x ; helper logs Called(msg.sender = this contract, x)
            return (f"(SIf (EConst (VBool true)) [SAssign (BSto {s.hid}) [] {e_coq(s.args[0])}; "
                    f"SLog {s.evid} [EConst (VInt {int(CONTRACT_ADDR, 16)}); ESelf {s.hid}]] [])")
        if s.fn == "fail":
            return f"(SRaiseR {s.rid})"
        raise ValueError(s.fn)
    raise ValueError(k)


def block_coq(b):
    return "[" + "; ".join(s_coq(s) for s in b) + "]"


SEND_TO = "0x" + "44" * 20        # recipient of every generated `send`: an account without code

# ------------------------------------------------------------------ programs
class Fun:
    def __init__(self, name, params, ret, body, external, payable=False, decorators=(), defaults=None):
        self.name, self.params, self.ret, self.body = name, params, ret, body  # params: [(name, ty)]
        self.external, self.payable, self.decorators = external, payable, tuple(decorators)
        self.defaults = dict(defaults or {})     # parameter index -> literal E (a suffix of the parameters)

    def vy(self, out):
        out.append("@deploy" if getattr(self, "deploy", False) else ("@external" if self.external else "@internal"))
        if self.payable:
            out.append("@payable")
        for d in self.decorators:
            out.append(d)
        sig = ", ".join(f"{n}: {ty_vy(t)}" + (f" = {e_vy(self.defaults[i])}" if i in self.defaults else "")
                        for i, (n, t) in enumerate(self.params))
        out.append(f"def {self.name}({sig})" + (f" -> {ty_vy(self.ret)}" if self.ret is not None else "") + ":")
        block_vy(self.body, 1, out)
        out.append("")

    def coq(self):
        return (f"(mkFun [{'; '.join(ty_coq(t) for _, t in self.params)}] "
                f"{'true' if self.payable else 'false'} {block_coq(self.body)})")

    def abi_sig(self, given=None):
        ps = self.params if given is None else self.params[:given]
        return f"{self.name}(" + ",".join(ty_sig(t) for _, t in ps) + ")"


class Program:
    def __init__(self):
        self.flags = []      # flag types ('flag', name, n)
        self.structs = []    # struct types
        self.events = []     # (name, [(fname, ty)])
        self.sto = []        # (name, ty)
        self.tra = []        # (name, ty)
        self.reasons = []    # revert reason strings (index = id used by the Coq term)
        self.imm = set()     # names of `sto` entries that are immutables: written by the constructor only.  The model
                             # treats them as storage variables (same meaning); they have no storage slot.
        self.ctor = None     # constructor Fun (modelled as one more external function, run first)
        self.ints = []       # internal Fun (index = Coq index; only lower indices are called)
        self.exts = []       # external Fun

    def reachable_ints(self):
        seen = set()

        def ve(e):
            if e.k == "call" and e.id not in seen:
                seen.add(e.id)
                for s in self.ints[e.id].body:
                    vs(s)
            for c in e_children(e):
                ve(c)

        def vs(s):
            for e in s_exprs(s):
                ve(e)
            for b in s_blocks(s):
                for x in b:
                    vs(x)
        for f in self.exts + ([self.ctor] if self.ctor is not None else []):
            for s in f.body:
                vs(s)
        return seen

    def vy(self, prune=False):
        """prune=True: omit internal functions no external function reaches (for reports; the Coq term is not pruned)"""
        keep = self.reachable_ints() if prune else None
        out = []
        if getattr(self, "uses_ext", False):
            from vlib.c01_exthelper import INTERFACE
            out.append(INTERFACE)
        for fl in self.flags:
            out.append(f"flag {fl[1]}:")
            for i in range(fl[2]):
                out.append(f"    M{i}")
            out.append("")
        for st in self.structs:
            out.append(f"struct {st[1]}:")
            for fn, ft in st[2]:
                out.append(f"    {fn}: {ty_vy(ft)}")
            out.append("")
        for name, fields in self.events:
            if name.startswith("$"):
                continue          # an event of the scripted callee
            out.append(f"event {name}:")
            for fn, ft in fields:
                out.append(f"    {fn}: {ty_vy(ft)}")
            if not fields:
                out.append("    pass")
            out.append("")
        for name, t in self.sto:
            if name.startswith("$"):
                continue          # hidden model variable (state of the scripted callee)
            out.append(f"{name}: immutable({ty_vy(t)})" if name in self.imm else f"{name}: {ty_vy(t)}")
        for name, t in self.tra:
            out.append(f"{name}: transient({ty_vy(t)})")
        out.append("")
        for i, f in enumerate(self.ints):
            if keep is None or i in keep:
                f.vy(out)
        if self.ctor is not None:
            self.ctor.vy(out)
        for f in self.exts:
            f.vy(out)
        return "\n".join(out)

    def coq(self):
        return ("(mkProg [" + "; ".join(ty_coq(t) for _, t in self.sto) + "] ["
                + "; ".join(ty_coq(t) for _, t in self.tra) + "]\n  ["
                + ";\n   ".join(f.coq() for f in self.ints) + "]\n  ["
                + ";\n   ".join(f.coq() for f in self.exts + ([self.ctor] if self.ctor is not None else [])) + "])")

    def uses_transient(self):
        return bool(self.tra)


# ------------------------------------------------------------------ traversal helpers (shrinking, statistics)
def e_children(e):
    out = []
    for v in e.f.values():
        if isinstance(v, E):
            out.append(v)
        elif isinstance(v, list):
            for x in v:
                if isinstance(x, E):
                    out.append(x)
                elif isinstance(x, tuple) and len(x) > 1 and isinstance(x[1], E):
                    out.append(x[1])
    return out


def s_exprs(s):
    out = []
    for v in s.f.values():
        if isinstance(v, E):
            out.append(v)
        elif isinstance(v, list):
            for x in v:
                if isinstance(x, E):
                    out.append(x)
                elif isinstance(x, tuple) and len(x) > 1 and isinstance(x[1], E):
                    out.append(x[1])
    return out


def s_blocks(s):
    return [v for n, v in s.f.items() if n in ("th", "el", "body")]


def count_kinds(prog, acc):
    def ve(e):
        acc["E:" + e.k + (":" + e.op if "op" in e.f else "")] = acc.get("E:" + e.k + (":" + e.op if "op" in e.f else ""), 0) + 1
        for c in e_children(e):
            ve(c)

    def vs(s):
        acc["S:" + s.k] = acc.get("S:" + s.k, 0) + 1
        for e in s_exprs(s):
            ve(e)
        for b in s_blocks(s):
            for x in b:
                vs(x)
    for f in prog.ints + prog.exts + ([prog.ctor] if getattr(prog, "ctor", None) is not None else []):
        for s in f.body:
            vs(s)
    return acc
