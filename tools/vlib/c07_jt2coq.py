"""C07 T-tie: fail-closed translator from the small Python subset used by the kernels of
vyper/codegen/jumptable_utils.py (_image_of, find_magic_for, _mk_buckets, _dense_jumptable_info) to Gallina.

Output (coq/C07/GenJumptable.v) uses the jres monad of C07/Jumptable.v and the dict/set helpers of
C07/JtSupport.v.  C07/Bridge.v proves every generated function equal to the hand model the theorems are
stated about, so the theorems are re-checked against what the source says on every run.

Subset (anything else raises Unsupported, which the check reports as translator-rejected):
  module int constants (read from the AST: NAME = <int expr>)
  def f(args): positional args, types from SIGS
  name = expr | name = {} | name = f(...)           (f translated -> monadic bind)
  d.setdefault(k, []) | d[k].append(x) | d[k] = v   (d a dict local: association list in insertion order)
  if cond: raise Exc()                                (Exc mapped through EXC)
  for x in lst: body        | for k, v in d.items(): body      (-> jfold over one accumulator dict)
  for m in range(N): ...; if cond: return m   followed by  raise Exc(...)    (-> fuelled search)
  return expr
  expressions: names, ints, * + - >> % ** (const), len(x), len(set(x)), == !=, [e for x in xs], f(...), Bucket(a,b,c)
  `e % len(xs)` inside a comprehension over xs is total (the body runs only if xs is non-empty); every other
  `%` is fallible (ZeroDivisionError -> JErr JZeroDivision).
"""
import ast
import importlib
import inspect

MODULE = "vyper.codegen.jumptable_utils"
FUNCS = ["_image_of", "find_magic_for", "_mk_buckets", "_dense_jumptable_info"]
LZ, Z, D, DB = "list Z", "Z", "buckets", "list (Z * bucket)"
SIGS = {  # name -> (arg types, result type, fallible)
    "_image_of": ([LZ, Z], LZ, False),
    "find_magic_for": ([LZ], Z, True),
    "_mk_buckets": ([LZ, Z], D, True),
    "_dense_jumptable_info": ([LZ, Z], DB, True),
}
EXC = {"_FindMagicFailure": "FindMagicFailure", "_HasEmptyBuckets": "HasEmptyBuckets", "RuntimeError": "JRuntimeError"}


class Unsupported(Exception):
    pass


def bad(node, why=""):
    raise Unsupported(f"{why or 'construct'}: {ast.dump(node)[:160]} (line {getattr(node, 'lineno', '?')})")


class JT:
    def __init__(self):
        self.mod = importlib.import_module(MODULE)
        self.tree = ast.parse(inspect.getsource(self.mod))
        self.consts = {}
        self.funcs = {}
        for node in self.tree.body:
            if isinstance(node, ast.Assign) and len(node.targets) == 1 and isinstance(node.targets[0], ast.Name):
                try:
                    self.consts[node.targets[0].id] = self.const_int(node.value)
                except Unsupported:
                    pass
            if isinstance(node, ast.FunctionDef):
                self.funcs[node.name] = node
        self.out = []
        self.used_consts = []

    # ---- constants
    def const_int(self, e):
        if isinstance(e, ast.Constant) and isinstance(e.value, int) and not isinstance(e.value, bool):
            return e.value
        if isinstance(e, ast.BinOp) and isinstance(e.op, (ast.Pow, ast.Mult, ast.Add, ast.Sub)):
            a, b = self.const_int(e.left), self.const_int(e.right)
            if isinstance(e.op, ast.Pow):
                if b < 0 or b > 4096:
                    bad(e, "exponent")
                return a ** b
            return {ast.Mult: a * b, ast.Add: a + b, ast.Sub: a - b}[type(e.op)]
        if isinstance(e, ast.Name) and e.id in self.consts:
            return self.consts[e.id]
        bad(e, "not an int constant")

    # ---- expressions: returns (text, type, binds) where binds = [(var, monadic text)]
    def expr(self, e, env, comp_iter=None):
        if isinstance(e, ast.Constant):
            if isinstance(e.value, int) and not isinstance(e.value, bool):
                return (str(e.value) if e.value >= 0 else f"({e.value})", Z, [])
            bad(e, "constant")
        if isinstance(e, ast.Name):
            if e.id in env:
                return (e.id, env[e.id], [])
            if e.id in self.consts:
                if e.id not in self.used_consts:
                    self.used_consts.append(e.id)
                return (f"g_{e.id}", Z, [])
            bad(e, "unknown name")
        if isinstance(e, ast.BinOp):
            if isinstance(e.op, ast.Pow):
                return (str(self.const_int(e)), Z, [])
            a, ta, ba = self.expr(e.left, env, comp_iter)
            b, tb, bb = self.expr(e.right, env, comp_iter)
            if ta != Z or tb != Z:
                bad(e, "non-int operands")
            if isinstance(e.op, ast.Mult):
                return (f"({a} * {b})", Z, ba + bb)
            if isinstance(e.op, ast.Add):
                return (f"({a} + {b})", Z, ba + bb)
            if isinstance(e.op, ast.Sub):
                return (f"({a} - {b})", Z, ba + bb)
            if isinstance(e.op, ast.RShift):
                # shift amounts here are module constants (>= 0): Python raises ValueError on negative shifts
                if not (isinstance(e.right, ast.Name) and (e.right.id in self.consts or env.get("__const_" + e.right.id))):
                    bad(e, "shift by a non-constant")
                return (f"(Z.shiftr {a} {b})", Z, ba + bb)
            if isinstance(e.op, ast.Mod):
                r = e.right
                if (comp_iter is not None and isinstance(r, ast.Call) and isinstance(r.func, ast.Name) and r.func.id == "len"
                        and len(r.args) == 1 and isinstance(r.args[0], ast.Name) and r.args[0].id == comp_iter):
                    return (f"({a} mod {b})", Z, ba + bb)
                if comp_iter is not None:
                    bad(e, "fallible % inside a comprehension")
                v = self.fresh()
                return (v, Z, ba + bb + [(v, f"jmod {a} {b}")])
            bad(e, "operator")
        if isinstance(e, ast.Call) and isinstance(e.func, ast.Name):
            f = e.func.id
            if f == "len" and len(e.args) == 1 and not e.keywords:
                inner = e.args[0]
                if isinstance(inner, ast.Call) and isinstance(inner.func, ast.Name) and inner.func.id == "set" and len(inner.args) == 1:
                    a, ta, ba = self.expr(inner.args[0], env, comp_iter)
                    if ta != LZ:
                        bad(e, "set of non-list")
                    return (f"(pyset_len {a})", Z, ba)
                a, ta, ba = self.expr(inner, env, comp_iter)
                if ta not in (LZ, D, DB):
                    bad(e, "len of non-container")
                return (f"(zlen {a})", Z, ba)
            if f == "Bucket" and len(e.args) == 3 and not e.keywords:
                parts = [self.expr(a, env, comp_iter) for a in e.args]
                if [p[1] for p in parts] != [Z, Z, LZ]:
                    bad(e, "Bucket argument types")
                return (f"({parts[0][0]}, {parts[1][0]}, {parts[2][0]})", "bucket", sum((p[2] for p in parts), []))
            if f in SIGS and not e.keywords:
                argt, rt, fallible = SIGS[f]
                parts = [self.expr(a, env, comp_iter) for a in e.args]
                if [p[1] for p in parts] != argt:
                    bad(e, "argument types")
                binds = sum((p[2] for p in parts), [])
                call = f"g_{f.lstrip('_') if False else f} " + " ".join(p[0] for p in parts)
                if not fallible:
                    return (f"({call})", rt, binds)
                if comp_iter is not None:
                    bad(e, "fallible call inside a comprehension")
                v = self.fresh()
                return (v, rt, binds + [(v, call)])
            bad(e, "call")
        if isinstance(e, ast.Compare) and len(e.ops) == 1:
            a, ta, ba = self.expr(e.left, env, comp_iter)
            b, tb, bb = self.expr(e.comparators[0], env, comp_iter)
            if ta != Z or tb != Z:
                bad(e, "comparison of non-ints")
            if isinstance(e.ops[0], ast.Eq):
                return (f"({a} =? {b})", "bool", ba + bb)
            if isinstance(e.ops[0], ast.NotEq):
                return (f"(negb ({a} =? {b}))", "bool", ba + bb)
            bad(e, "comparison operator")
        if isinstance(e, ast.ListComp) and len(e.generators) == 1:
            g = e.generators[0]
            if g.ifs or g.is_async or not isinstance(g.target, ast.Name) or not isinstance(g.iter, ast.Name):
                bad(e, "comprehension shape")
            it, tit, bit = self.expr(g.iter, env)
            if tit != LZ:
                bad(e, "comprehension over non-list")
            env2 = dict(env)
            env2[g.target.id] = Z
            body, tb, bb = self.expr(e.elt, env2, comp_iter=g.iter.id)
            if tb != Z or bb:
                bad(e, "comprehension body")
            return (f"(map (fun {g.target.id} => {body}) {it})", LZ, bit)
        bad(e, "expression")

    def fresh(self):
        self.n = getattr(self, "n", 0) + 1
        return f"v__{self.n}"

    @staticmethod
    def wrap(binds, body):
        for v, m in reversed(binds):
            body = f"match {m} with JErr e__ => JErr e__ | JOk {v} =>\n  {body} end"
        return body

    def exc(self, node):
        if isinstance(node, ast.Raise) and node.exc is not None:
            c = node.exc
            name = c.func.id if isinstance(c, ast.Call) and isinstance(c.func, ast.Name) else (c.id if isinstance(c, ast.Name) else None)
            if name in EXC:
                return EXC[name]
        bad(node, "raise")

    # ---- loop bodies updating one dict accumulator
    def dict_stmt(self, s, env, acc):
        """returns (new-acc monadic text, binds, env)"""
        if isinstance(s, ast.Expr) and isinstance(s.value, ast.Call) and isinstance(s.value.func, ast.Attribute):
            c = s.value
            tgt = c.func.value
            if c.func.attr == "setdefault" and isinstance(tgt, ast.Name) and tgt.id == acc and len(c.args) == 2 \
                    and isinstance(c.args[1], ast.List) and not c.args[1].elts and env[acc] == D:
                k, tk, bk = self.expr(c.args[0], env)
                if tk != Z:
                    bad(s, "key type")
                return (f"JOk (d_setdefault {k} [] {acc})", bk)
            if c.func.attr == "append" and isinstance(tgt, ast.Subscript) and isinstance(tgt.value, ast.Name) \
                    and tgt.value.id == acc and len(c.args) == 1 and env[acc] == D:
                k, tk, bk = self.expr(tgt.slice, env)
                x, tx, bx = self.expr(c.args[0], env)
                if tk != Z or tx != Z:
                    bad(s, "append types")
                return (f"d_append_at {k} {x} {acc}", bk + bx)
        if isinstance(s, ast.Assign) and len(s.targets) == 1 and isinstance(s.targets[0], ast.Subscript):
            t = s.targets[0]
            if isinstance(t.value, ast.Name) and t.value.id == acc and env[acc] == DB:
                k, tk, bk = self.expr(t.slice, env)
                v, tv, bv = self.expr(s.value, env)
                if tk != Z or tv != "bucket":
                    bad(s, "dict store types")
                return (f"JOk (db_set {k} {v} {acc})", bk + bv)
        bad(s, "statement in loop body")

    def loop_body(self, stmts, env, acc):
        """sequence of local assignments and accumulator updates -> monadic text yielding the new accumulator"""
        if not stmts:
            return f"JOk {acc}"
        s, rest = stmts[0], stmts[1:]
        if isinstance(s, ast.Assign) and len(s.targets) == 1 and isinstance(s.targets[0], ast.Name):
            name = s.targets[0].id
            if name == acc or name in env:
                bad(s, "reassignment in loop body")
            v, tv, bv = self.expr(s.value, env)
            env2 = dict(env)
            env2[name] = tv
            return self.wrap(bv, f"let {name} := {v} in\n  {self.loop_body(rest, env2, acc)}")
        upd, binds = self.dict_stmt(s, env, acc)
        return self.wrap(binds, f"match {upd} with JErr e__ => JErr e__ | JOk {acc} =>\n  {self.loop_body(rest, env, acc)} end")

    # ---- function bodies
    def block(self, stmts, env, fname):
        if not stmts:
            bad(self.funcs[fname], "function falls off the end")
        s, rest = stmts[0], stmts[1:]
        if isinstance(s, ast.Expr) and isinstance(s.value, ast.Constant) and isinstance(s.value.value, str):
            return self.block(rest, env, fname)
        if isinstance(s, ast.Return) and s.value is not None and not rest:
            v, tv, bv = self.expr(s.value, env)
            if tv != SIGS[fname][1]:
                bad(s, f"return type {tv}")
            return self.wrap(bv, f"JOk {v}" if SIGS[fname][2] else v)
        if isinstance(s, ast.Assign) and len(s.targets) == 1 and isinstance(s.targets[0], ast.Name):
            name = s.targets[0].id
            if isinstance(s.value, ast.Dict) and not s.value.keys:
                # type of the dict decided by its use: buckets unless stored with Bucket values
                ty = DB if any(isinstance(n, ast.Call) and isinstance(n.func, ast.Name) and n.func.id == "Bucket"
                               for n in ast.walk(self.funcs[fname])) and name == "ret" else D
                env2 = dict(env)
                env2[name] = ty
                return f"let {name} := ([] : {ty}) in\n  {self.block(rest, env2, fname)}"
            v, tv, bv = self.expr(s.value, env)
            env2 = dict(env)
            env2[name] = tv
            if isinstance(s.value, ast.Name) and s.value.id in self.consts:
                env2["__const_" + name] = True
            return self.wrap(bv, f"let {name} := {v} in\n  {self.block(rest, env2, fname)}")
        if isinstance(s, ast.If) and not s.orelse and len(s.body) == 1 and isinstance(s.body[0], ast.Raise):
            c, tc, bc = self.expr(s.test, env)
            if tc != "bool":
                bad(s, "condition type")
            return self.wrap(bc, f"if {c} then JErr {self.exc(s.body[0])} else\n  {self.block(rest, env, fname)}")
        if isinstance(s, ast.For) and not s.orelse:
            it = s.iter
            # search loop: for m in range(N): ...; if c: return m   then raise
            if isinstance(it, ast.Call) and isinstance(it.func, ast.Name) and it.func.id == "range" and len(it.args) == 1 \
                    and isinstance(s.target, ast.Name) and len(rest) == 1 and isinstance(rest[0], ast.Raise):
                n = self.const_int(it.args[0])
                m = s.target.id
                env2 = dict(env)
                env2[m] = Z
                body = s.body
                pre = []
                while body and isinstance(body[0], ast.Assign):
                    a = body[0]
                    if len(a.targets) != 1 or not isinstance(a.targets[0], ast.Name):
                        bad(a, "assignment target")
                    v, tv, bv = self.expr(a.value, env2)
                    if bv:
                        bad(a, "fallible expression in search loop")
                    pre.append((a.targets[0].id, v))
                    env2[a.targets[0].id] = tv
                    body = body[1:]
                if len(body) != 1 or not isinstance(body[0], ast.If) or body[0].orelse or len(body[0].body) != 1 \
                        or not isinstance(body[0].body[0], ast.Return) or not isinstance(body[0].body[0].value, ast.Name) \
                        or body[0].body[0].value.id != m:
                    bad(s, "search loop shape")
                c, tc, bc = self.expr(body[0].test, env2)
                if tc != "bool" or bc:
                    bad(s, "search loop condition")
                params = [(k, v) for k, v in env.items() if not k.startswith("__")]
                ptxt = " ".join(f"({k} : {t})" for k, t in params)
                lets = "".join(f"let {k} := {v} in " for k, v in pre)
                loop = f"g_{fname}_loop"
                self.out.append(
                    f"Fixpoint {loop} (fuel : nat) ({m} : Z) {ptxt} : jres Z :=\n"
                    f"  match fuel with\n  | O => JErr {self.exc(rest[0])}\n"
                    f"  | S fuel' => {lets}if {c} then JOk {m} else {loop} fuel' ({m} + 1) {' '.join(k for k, _ in params)}\n  end.")
                if SIGS[fname][1] != Z:
                    bad(s, "search loop result type")
                return f"{loop} (Z.to_nat {n}) 0 {' '.join(k for k, _ in params)}"
            # accumulator loops
            accs = [k for k, t in env.items() if t in (D, DB) and self.assigned_in(s.body, k)]
            if len(accs) != 1:
                bad(s, "loop must update exactly one dict")
            acc = accs[0]
            env2 = dict(env)
            if isinstance(it, ast.Name) and env.get(it.id) == LZ and isinstance(s.target, ast.Name):
                env2[s.target.id] = Z
                if s.target.id in env:
                    bad(s, "loop variable shadows")
                body = self.loop_body(s.body, env2, acc)
                fold = f"jfold (fun {acc} {s.target.id} =>\n  {body}) {it.id} {acc}"
            elif isinstance(it, ast.Call) and isinstance(it.func, ast.Attribute) and it.func.attr == "items" and not it.args \
                    and isinstance(it.func.value, ast.Name) and env.get(it.func.value.id) == D \
                    and isinstance(s.target, ast.Tuple) and len(s.target.elts) == 2 \
                    and all(isinstance(x, ast.Name) for x in s.target.elts):
                k, v = [x.id for x in s.target.elts]
                # the loop variables may shadow function arguments (method_ids does): they are plain lets
                env2[k] = Z
                env2[v] = LZ
                body = self.loop_body(s.body, env2, acc)
                fold = f"jfold (fun {acc} kv__ => let {k} := fst kv__ in let {v} := snd kv__ in\n  {body}) {it.func.value.id} {acc}"
                env = {a: b for a, b in env.items() if a not in (k, v)}   # rebinding: not visible after the loop
            else:
                bad(s, "loop iterable")
            return f"match {fold} with JErr e__ => JErr e__ | JOk {acc} =>\n  {self.block(rest, env, fname)} end"
        bad(s, "statement")

    @staticmethod
    def assigned_in(stmts, name):
        for s in stmts:
            for n in ast.walk(s):
                if isinstance(n, ast.Name) and n.id == name:
                    return True
        return False

    def function(self, name):
        fn = self.funcs.get(name)
        if fn is None:
            raise Unsupported(f"function {name} not found in {MODULE}")
        a = fn.args
        if a.vararg or a.kwarg or a.kwonlyargs or a.defaults or a.posonlyargs or fn.decorator_list:
            bad(fn, "signature")
        argt, rt, fallible = SIGS[name]
        if len(a.args) != len(argt):
            bad(fn, "arity")
        env = {x.arg: t for x, t in zip(a.args, argt)}
        body = self.block(fn.body, env, name)
        params = " ".join(f"({x.arg} : {t})" for x, t in zip(a.args, argt))
        rty = f"jres ({rt})" if fallible else rt
        self.out.append(f"Definition g_{name} {params} : {rty} :=\n  {body}.")

    def render(self):
        for f in FUNCS:
            self.function(f)
        hdr = ["(* GENERATED by tools/vlib/c07_jt2coq.py from vyper/codegen/jumptable_utils.py -- do not edit *)",
               "From Coq Require Import ZArith List Bool.", "From Verif Require Import C07.GenConsts C07.Jumptable C07.JtSupport.",
               "Import ListNotations.", "Open Scope Z_scope.", ""]
        extra = [c for c in self.used_consts if c not in CONST_NAMES]
        consts = [f"Definition g_{c} : Z := {self.consts[c]}." for c in extra]
        return "\n".join(hdr + consts + [""] + self.out) + "\n"


def generate():
    return JT().render()


CONST_NAMES = ["BITS_MAGIC", "START_BUCKET_SIZE"]
CONST_DEFAULTS = {"BITS_MAGIC": 24, "START_BUCKET_SIZE": 5}


def generate_consts(fallback=False):
    """coq/C07/GenConsts.v: the module-level int constants, read from the source AST.
    fallback=True writes the last known values (only so that Search can still run after a rejection)."""
    vals = dict(CONST_DEFAULTS)
    if not fallback:
        jt = JT()
        for c in CONST_NAMES:
            if c not in jt.consts:
                raise Unsupported(f"module constant {c} not found in {MODULE}")
            vals[c] = jt.consts[c]
    lines = ["(* GENERATED by tools/vlib/c07_jt2coq.py from vyper/codegen/jumptable_utils.py -- do not edit *)",
             "From Coq Require Import ZArith.", "Open Scope Z_scope."]
    lines += [f"Definition g_{c} : Z := {vals[c]}." for c in CONST_NAMES]
    return "\n".join(lines) + "\n"


if __name__ == "__main__":
    print(generate())
