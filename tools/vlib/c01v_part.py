"""C01 (Venom front end): O-tie for the expression-lowering model coq/C01V/VExpr.v.

Random integer/bool expressions over locals (the generator of c01_exprtie: 9 integer types, depth <= 3) are compiled by
the REAL Venom front end (`vyper.codegen_venom.module.generate_runtime_venom`, i.e. `Expr(node, ctx).lower_value()` for
the right-hand side of `r: T = <expr>`, before any pass).  The instructions and blocks the front end creates for the
right-hand side are exported (variables and labels renamed by order of creation, `%k = mload <alloca of local v>`
written as  VAssign "%k" (VVar "v")) and compared syntactically, in Coq (vm_compute), with `VExpr.vlower e`.
Theorem (coq/C01V/PropsVExpr.v): `vexpr_compile_correct_partial` for the straight-line fragment."""
from pathlib import Path

from vlib import coqrun
from vlib.c01_exprtie import ExprGen, TYPES, X, bounds, nty, sty, ty_vy, vy
from vlib.c03_export import OP1, OP2, zl

PROOF_FILES = ["C01V/VExpr.v", "C01V/VExprProofs.v", "C01V/PropsVExpr.v"]
DEPS = ["C03/LIR.v", "C03/ArithSpec.v", "C03/WordArith.v", "C03/TypeLemmas.v", "C03/ArithModel.v", "C03/LegacyExact.v", "C03/VSL.v",
        "C03/VenomExact.v", "C01/ExprCompile.v", "C01/ExprCompileProofs.v"]
FULL_FILES = ["C01V/VBlocks.v", "C01V/VBlocksProofs.v", "C01V/PropsVExprFull.v"]
IMPORTS = ("From Coq Require Import String.\nFrom Verif Require Import Base.Word256 C03.LIR C03.ArithSpec C03.VSL C01.ExprCompile "
           "C01V.VExpr.\nOpen Scope string_scope.\nOpen Scope Z_scope.\n")


class ExportError(Exception):
    pass


def build(ctx, deps=None):
    return ctx.coq_build_cached(PROOF_FILES, deps=list(deps) if deps is not None else DEPS, timeout=900)


def prebuild(ctx):
    build(ctx)


def coq_expr(e):
    k = e.k
    if k == "int":
        return f"(XInt {nty(e.ty)} {zl(e.v)})"
    if k == "bool":
        return f"(XBool {'true' if e.v else 'false'})"
    if k == "var":
        return f'(XVar "{e.name}" {sty(e.ty)})'
    if k == "bin":
        return f"(XBin {e.op} {nty(e.ty)} false false false false {coq_expr(e.a)} {coq_expr(e.b)})"
    if k == "bit":
        return f"(XBit {e.op} {nty(e.ty)} {coq_expr(e.a)} {coq_expr(e.b)})"
    if k == "cmp":
        return f"(XCmp {e.op} {sty(e.t)} {coq_expr(e.a)} {coq_expr(e.b)})"
    if k == "and":
        return f"(XAnd {coq_expr(e.a)} {coq_expr(e.b)})"
    if k == "or":
        return f"(XOr {coq_expr(e.a)} {coq_expr(e.b)})"
    if k == "not":
        return f"(XNot {coq_expr(e.a)})"
    if k == "neg":
        return f"(XNeg {nty(e.ty)} false {coq_expr(e.a)})"
    if k == "ifexp":
        return f"(XIf {coq_expr(e.c)} {coq_expr(e.a)} {coq_expr(e.b)})"
    raise ValueError(k)


def real_venom(src):
    from vyper.compiler.input_bundle import FileInput
    from vyper.compiler.phases import CompilerData
    from vyper.compiler.settings import OptimizationLevel, Settings, anchor_settings
    from vyper.codegen_venom.module import generate_runtime_venom
    fi = FileInput(0, Path("expr.vy"), Path("expr.vy"), src)
    st = Settings(optimize=OptimizationLevel.NONE, experimental_codegen=True)
    cd = CompilerData(fi, settings=st)
    with anchor_settings(st):
        return generate_runtime_venom(cd.global_ctx, st)


def export_region(vctx, locals_):
    """-> (result operand term, [block terms]) for the right-hand side of the last AnnAssign"""
    from vyper.venom.basicblock import IRLabel, IRLiteral, IRVariable
    nloc = len(locals_)
    fns = [fn for fn in vctx.functions.values() if any(i.opcode == "alloca" for bb in fn.get_basic_blocks() for i in bb.instructions)]
    if len(fns) != 1:
        raise ExportError(f"{len(fns)} functions with allocas")
    blocks = list(fns[0].get_basic_blocks())
    allocas = [(bi, ii, i) for bi, bb in enumerate(blocks) for ii, i in enumerate(bb.instructions)
               if i.opcode == "alloca" and isinstance(i.operands[0], IRLiteral) and i.operands[0].value == 32]
    if len(allocas) < 2 * nloc + 1:
        raise ExportError(f"expected {2 * nloc + 1} allocas, found {len(allocas)}")
    loc_of = {allocas[nloc + j][2].output.value: locals_[j][0] for j in range(nloc)}
    b0, i0, ra = allocas[2 * nloc]
    rptr = ra.output.value
    region = []          # (block, [instructions])
    result = None
    for bi in range(b0, len(blocks)):
        insts = blocks[bi].instructions[i0 + 1:] if bi == b0 else list(blocks[bi].instructions)
        cut = None
        for k, i in enumerate(insts):
            if i.opcode == "mstore" and isinstance(i.operands[1], IRVariable) and i.operands[1].value == rptr:
                cut, result = k, i.operands[0]
                break
        region.append((blocks[bi], insts if cut is None else insts[:cut]))
        if cut is not None:
            break
    if result is None:
        raise ExportError("store of the result not found")
    outs = [int(o.value[1:]) for _, ins in region for i in ins for o in i.get_outputs()]
    if not outs:
        raise ExportError("no instruction in the region")
    vbase = min(outs)
    labs = sorted(int(bb.label.value.split("_")[0]) for bb, _ in region[1:])
    lab_of = {region[0][0].label.value: 0}
    for bb, _ in region[1:]:
        lab_of[bb.label.value] = labs.index(int(bb.label.value.split("_")[0])) + 1
    if labs and labs != list(range(labs[0], labs[0] + len(labs))):
        raise ExportError(f"labels of the region are not consecutive: {labs}")

    def var(v):
        n = int(v.value[1:])
        if n < vbase:
            raise ExportError(f"variable {v} from outside the expression")
        return f"(nm {n - vbase})"

    def op(o):
        if isinstance(o, IRLiteral):
            return f"(VLit {zl(o.value)})"
        if isinstance(o, IRVariable):
            return f"(VVar {var(o)})"
        raise ExportError(f"operand {o!r}")

    def lab(l):
        if l.value not in lab_of:
            raise ExportError(f"jump out of the region: {l}")
        return str(lab_of[l.value])

    out_blocks = []
    for bi, (bb, insts) in enumerate(region):
        body, term = [], "TNone"
        for i in insts:
            oc, ops, outs_ = i.opcode, i.operands, i.get_outputs()
            if term != "TNone":
                raise ExportError("instruction after a terminator")
            if oc == "jnz":
                term = f"(TJnz {op(ops[0])} {lab(ops[1])} {lab(ops[2])})"
            elif oc == "jmp":
                term = f"(TJmp {lab(ops[0])})"
            elif oc == "assert" and len(ops) == 1:
                body.append(f"VAssert {op(ops[0])}")
            elif oc == "mload" and len(ops) == 1 and isinstance(ops[0], IRVariable) and ops[0].value in loc_of:
                body.append(f'VAssign {var(outs_[0])} (VVar "{loc_of[ops[0].value]}")')
            elif oc == "assign" and len(ops) == 1 and len(outs_) == 1:
                body.append(f'VAssign {var(outs_[0])} {op(ops[0])}')
            elif oc in OP1 and len(ops) == 1 and len(outs_) == 1:
                body.append(f'V1 {var(outs_[0])} {OP1[oc]} {op(ops[0])}')
            elif oc in OP2 and len(ops) == 2 and len(outs_) == 1:
                body.append(f'V2 {var(outs_[0])} {OP2[oc]} {op(ops[0])} {op(ops[1])}')
            else:
                raise ExportError(f"instruction outside the fragment: {i}")
        out_blocks.append(f"mkB {lab_of[bb.label.value]} [" + "; ".join(body) + f"] {term}")
    return op(result), out_blocks


def sample(rng, depth):
    nloc = rng.randrange(2, 5)
    tys = [rng.choice(TYPES) for _ in range(rng.randrange(1, 3))]
    locals_ = [(f"v{i}", rng.choice(tys + (["bool"] if rng.random() < 0.3 else []))) for i in range(nloc)]
    if all(t == "bool" for _, t in locals_):
        locals_[0] = ("v0", tys[0])
    g = ExprGen(rng, locals_)
    rt = rng.choice(sorted({t for _, t in locals_ if t != "bool"}) + ["bool"])
    e = g.bool_expr(depth) if rt == "bool" else g.int_expr(rt, depth, allow_lit=False)
    if e.k in ("int", "bool"):
        return None
    lines = ["@external", "def f(" + ", ".join(f"p{i}: {ty_vy(t)}" for i, (_, t) in enumerate(locals_)) + "):"]
    for i, (n, t) in enumerate(locals_):
        lines.append(f"    {n}: {ty_vy(t)} = p{i}")
    lines.append(f"    r: {ty_vy(e.ty)} = {vy(e)}")
    src = "\n".join(lines) + "\n"
    try:
        vctx = real_venom(src)
    except Exception as ex:  # noqa
        return {"src": src, "rejected": f"{type(ex).__name__}: {str(ex)[:200]}"}
    try:
        r, blocks = export_region(vctx, locals_)
    except ExportError as ex:
        return {"src": src, "error": str(ex)}
    return {"src": src, "e": e, "locals": locals_, "coq_e": coq_expr(e), "coq_r": r, "coq_b": "[" + ";\n   ".join(blocks) + "]", "nblocks": len(blocks)}


# ------------------------------------------------------------------ search for a failing input
class _Rev(Exception):
    pass


def _chk(t, v):
    lo, hi = bounds(t)
    if not lo <= v <= hi:
        raise _Rev()
    return v


def py_eval(e, env):
    """source meaning of the expression (the oracle of C01): python integers, checked arithmetic, short circuits"""
    k = e.k
    if k == "int":
        return e.v
    if k == "bool":
        return int(e.v)
    if k == "var":
        return env[e.name]
    if k == "bin":
        x, y = py_eval(e.a, env), py_eval(e.b, env)
        if e.op == "BAdd":
            return _chk(e.ty, x + y)
        if e.op == "BSub":
            return _chk(e.ty, x - y)
        if e.op == "BMul":
            return _chk(e.ty, x * y)
        if y == 0:
            raise _Rev()
        q = abs(x) // abs(y) * (1 if (x < 0) == (y < 0) else -1)
        return _chk(e.ty, q) if e.op == "BDiv" else _chk(e.ty, x - q * y)
    if k == "bit":
        x, y = py_eval(e.a, env), py_eval(e.b, env)
        return {"BitAnd": x & y, "BitOr": x | y, "BitXor": x ^ y}[e.op]
    if k == "cmp":
        x, y = py_eval(e.a, env), py_eval(e.b, env)
        return int({"CLt": x < y, "CLe": x <= y, "CGt": x > y, "CGe": x >= y, "CEq": x == y, "CNe": x != y}[e.op])
    if k == "and":
        return py_eval(e.b, env) if py_eval(e.a, env) else 0
    if k == "or":
        return 1 if py_eval(e.a, env) else py_eval(e.b, env)
    if k == "not":
        return int(not py_eval(e.a, env))
    if k == "neg":
        return _chk(e.ty, -py_eval(e.a, env))
    if k == "ifexp":
        return py_eval(e.a, env) if py_eval(e.c, env) else py_eval(e.b, env)
    raise ValueError(k)


def search(s, rnd, tries=24):
    """compile `return <expr>` with the real compiler (venom pipeline, -O none) and run it on pyrevm with boundary
    arguments; compare with the source meaning.  -> dict or None"""
    import warnings
    from vyper.compiler import compile_code
    from vyper.compiler.settings import OptimizationLevel, Settings
    from vyper.utils import method_id_int
    from vlib import c14_pass_sem as SEM
    e, locals_ = s["e"], s["locals"]
    rt = "bool" if e.ty == "bool" else ty_vy(e.ty)
    lines = ["@external", "def f(" + ", ".join(f"p{i}: {ty_vy(t)}" for i, (_, t) in enumerate(locals_)) + f") -> {rt}:"]
    for i, (n, t) in enumerate(locals_):
        lines.append(f"    {n}: {ty_vy(t)} = p{i}")
    lines.append(f"    return {vy(e)}")
    src = "\n".join(lines) + "\n"
    with warnings.catch_warnings():
        warnings.simplefilter("ignore")
        try:
            out = compile_code(src, output_formats=["bytecode_runtime"],
                               settings=Settings(experimental_codegen=True, optimize=OptimizationLevel.NONE))
        except Exception:  # noqa
            return None
    code = bytes.fromhex(out["bytecode_runtime"][2:])
    sig = "f(" + ",".join(ty_vy(t) for _, t in locals_) + ")"
    sel = method_id_int(sig).to_bytes(4, "big")
    for _ in range(tries):
        vals = []
        for _, t in locals_:
            if t == "bool":
                vals.append(rnd.choice([0, 1]))
            else:
                lo, hi = bounds(t)
                vals.append(rnd.choice([0, 1, 2, 3, 7, lo, hi, lo + 1, hi - 1, rnd.randrange(lo, hi + 1)]) if lo < 0 or True else 0)
                vals[-1] = min(max(vals[-1], lo), hi)
        env = {n: v for (n, _), v in zip(locals_, vals)}
        try:
            exp = py_eval(e, env)
        except _Rev:
            exp = None
        data = sel + b"".join((v % 2 ** 256).to_bytes(32, "big") for v in vals)
        r = SEM.evm_run(code, {"data": data.hex(), "value": 0, "sender": "0x" + "11" * 20})
        if r is None:
            return None
        if r["ok"]:
            w = int.from_bytes(r["out"], "big")
            got = w - 2 ** 256 if (e.ty != "bool" and e.ty[1] and w >= 2 ** 255) else w
        else:
            got = None
        if got != exp:
            return {"source": src, "arguments": {n: str(v) for n, v in env.items()}, "expected": "revert" if exp is None else str(exp),
                    "evm": "revert" if got is None else str(got)}
    return None


def count_kinds(e, acc):
    acc[e.k] = acc.get(e.k, 0) + 1
    for f in ("a", "b", "c"):
        if f in e.f and isinstance(e.f[f], X):
            count_kinds(e.f[f], acc)


def part_vexpr(ctx, deps=None):
    b = build(ctx, deps)
    stats = {"samples": 0, "rejected_by_compiler": 0, "export_errors": 0, "equal": 0, "different": 0, "multi_block": 0}
    if not b["ok"]:
        ctx.violation("theorem-broken", f"{b.get('failed_lemma')} in {b['file']}",
                      {"theorem": b.get("failed_lemma"), "file": b["file"], "coq_output": b["out"][-1500:]})
    # the full theorem (and / or / if-expressions): separate files, used only when they are present and build
    import os
    full = all(os.path.exists(str(coqrun.COQ / f)) for f in FULL_FILES)
    if full and b["ok"]:
        bf = ctx.coq_build_cached(FULL_FILES, deps=(list(deps) if deps is not None else DEPS) + PROOF_FILES, timeout=900)
        if not bf["ok"]:
            full = False
            ctx.violation("theorem-broken", f"{bf.get('failed_lemma')} in {bf['file']}",
                          {"theorem": bf.get("failed_lemma"), "file": bf["file"], "coq_output": bf["out"][-1500:]})
    stats["full_theorem_files"] = bool(full and b["ok"])
    rng = ctx.rng("vexpr")
    want = 150 if ctx.tier == "quick" else 1200
    samples, kinds, tries = [], {}, 0
    while len(samples) < want and tries < 6 * want:
        tries += 1
        s = sample(rng, rng.choice([1, 2, 2, 3]))
        if s is None:
            continue
        if "rejected" in s:
            stats["rejected_by_compiler"] += 1
            continue
        if "error" in s:
            stats["export_errors"] += 1
            if stats["export_errors"] <= 2:
                ctx.violation("correspondence-broken", "the Venom front end's output for an expression of the fragment could not be "
                              "exported: " + s["error"], {"source": s["src"]})
            continue
        samples.append(s)
        count_kinds(s["e"], kinds)
    stats["samples"] = len(samples)
    stats["multi_block"] = sum(1 for s in samples if s["nblocks"] > 1)
    stats["node_kinds"] = kinds
    if samples and b["ok"]:
        tie = "vtie2_ok" if stats["full_theorem_files"] else "vtie_ok"
        imports = IMPORTS.replace("C01V.VExpr.", "C01V.VExpr C01V.VBlocks.") if stats["full_theorem_files"] else IMPORTS
        exprs = [f"[if {tie} {s['coq_e']} {s['coq_r']} {s['coq_b']} then 1 else 0]" for s in samples]
        try:
            res = coqrun.eval_zlists(imports, exprs, "c01vexpr", shard=max(1, len(exprs) // 6), timeout=600)
        except RuntimeError as ex:
            res = None
            ctx.violation("correspondence-broken", "the expression tie could not be evaluated in Coq", {"error": str(ex)[-1500:]})
        if res is not None:
            bad = [s for s, r in zip(samples, res) if r != [1]]
            stats["equal"] = len(samples) - len(bad)
            stats["different"] = len(bad)
            found = 0
            for s in sorted(bad, key=lambda s_: len(s_["src"]))[:12]:
                if found >= 2:
                    break
                try:
                    ff = search(s, ctx.rng("vexpr-search:" + s["src"]))
                except Exception as ex:  # noqa
                    ff = None
                if ff is not None:
                    found += 1
                    ctx.violation("failing-input", "the Venom pipeline miscompiles an integer/bool expression", ff,
                                  key="vexpr:" + vy(s["e"])[:60])
            for s in ([] if found else bad[:2]):
                ctx.violation("theorem-broken", "vexpr_compile_correct does not apply: the Venom front end's instructions for `" +
                              vy(s["e"])[:120] + "` differ from the model VExpr.vlower",
                              {"theorem": "vexpr_compile_correct_partial (vlower e <> real output)", "source": s["src"],
                               "real_result": s["coq_r"], "real_blocks": s["coq_b"][:3000], "expr": s["coq_e"][:1500]})
    ctx.corr["vexpr_tie"] = stats
    ctx.log("vexpr " + " ".join(f"{k}={v}" for k, v in stats.items()))
    if samples:
        ctx.samples.append({"vexpr": vy(samples[0]["e"])[:200], "blocks": samples[0]["nblocks"]})
    return stats["equal"] + stats["different"]
