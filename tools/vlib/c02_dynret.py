"""C02: family of contracts that move values with several dynamically sized members across the ABI boundary
(outgoing interface calls, abi_decode, abi_encode/abi_decode round trips, raw returndata of a mirror callee), run under
every (code generator, EVM target) pair.

The family is structured, not a list of fixed programs: a small type algebra (bytestrings around the one-word boundary,
DynArray of words / of bytestrings / of structs, nested DynArray, structs and tuples mixing static and dynamic members)
from which every run draws one shape per class; values are boundary biased (lengths 0, 1, 31, 32, 33, max-1, max; counts
0, 1, 2, max) and every plan starts with structured cases (every member at its minimum non-empty size, every member at its
maximum, members alternating).  Malformed encodings (truncation, head/length words replaced by boundary values) are sent
to abi_decode and returned by a mirror callee (raw EVM code returning a caller-chosen payload); every configuration has to
agree on them too.
"""
import re

import eth_abi

from vlib import c02_runner as R
from vlib.configs import Config, compile_src
from vlib.evm import Chain, DEPLOYER, SENDER2

# runtime code of the mirror callee: returns calldata[0x44 : 0x44 + calldataload(0x24)], i.e. the contents of the single
# `Bytes` argument of whatever function was called (selector ignored)
MIRROR_CODE = bytes.fromhex("602435" "80" "6044" "6000" "37" "6000" "f3")


def ceil32(n):
    return (n + 31) // 32 * 32


# ------------------------------------------------------------------------------------------------ type algebra
class Ty:
    dyn = False
    decls = ()

    def words(self):          # static ABI size in words (static types only)
        return 1

    def head(self):           # bytes this type occupies in the head of an enclosing tuple
        return 32 if self.dyn else 32 * self.words()

    def bound(self):          # maximum ABI size as a member of a tuple (head + tail)
        return self.head() + (self.tail() if self.dyn else 0)

    def ndyn(self):           # number of dynamically sized leaves that are copied as a unit
        return 0


class Word(Ty):
    def __init__(self, vy, abi, vals):
        self.vy, self.abi, self.vals = vy, abi, vals

    def gen(self, rng, mode):
        return rng.choice(self.vals)

    def zero(self):
        return self.vals[0]


U256 = Word("uint256", "uint256", [0, 1, 2, 31, 32, 33, 2 ** 255, 2 ** 256 - 1])
U8 = Word("uint8", "uint8", [0, 1, 127, 255])
I128 = Word("int128", "int128", [0, -1, 1, 2 ** 127 - 1, -2 ** 127])
BOOL = Word("bool", "bool", [False, True])
ADDR = Word("address", "address", ["0x" + "00" * 20, DEPLOYER, SENDER2])
B32 = Word("bytes32", "bytes32", [b"\x00" * 32, b"\xff" * 32, bytes(range(32))])


def _len_choice(rng, n, mode):
    if mode == "min":
        return min(1, n)
    if mode == "max":
        return n
    if mode == "empty":
        return 0
    cands = sorted({x for x in (0, 1, 2, 31, 32, 33, n // 2, n - 1, n) if 0 <= x <= n})
    return rng.choice(cands)


class Bts(Ty):
    dyn = True

    def __init__(self, n, string=False):
        self.n, self.string = n, string
        self.vy = f"{'String' if string else 'Bytes'}[{n}]"
        self.abi = "string" if string else "bytes"

    def tail(self):
        return 32 + ceil32(self.n)

    def ndyn(self):
        return 1

    def gen(self, rng, mode):
        k = _len_choice(rng, self.n, mode)
        if self.string:
            return "".join(rng.choice("abcdefghijklmnopqrstuvwxyz0123456789 _") for _ in range(k))
        return bytes(rng.randrange(1, 256) for _ in range(k))

    def zero(self):
        return "" if self.string else b""


class Arr(Ty):
    dyn = True

    def __init__(self, el, k):
        self.el, self.k = el, k
        self.vy = f"DynArray[{el.vy}, {k}]"
        self.abi = el.abi + "[]"
        self.decls = el.decls

    def tail(self):
        return 32 + self.k * self.el.bound()

    def ndyn(self):
        return 1 + self.el.ndyn()

    def gen(self, rng, mode):
        if mode in ("min", "max", "empty"):
            k = {"min": 1, "max": self.k, "empty": 0}[mode]
            if mode == "min" and self.el.dyn:
                k = min(2, self.k)       # at least two dynamic elements
        else:
            k = rng.choice(sorted({0, 1, 2, self.k - 1, self.k}))
        k = max(0, min(k, self.k))
        return [self.el.gen(rng, mode if mode != "empty" else "rand") for _ in range(k)]

    def zero(self):
        return []


class SArr(Ty):
    def __init__(self, el, k):
        assert not el.dyn
        self.el, self.k = el, k
        self.vy = f"{el.vy}[{k}]"
        self.abi = f"{el.abi}[{k}]"

    def words(self):
        return self.k * self.el.words()

    def gen(self, rng, mode):
        return [self.el.gen(rng, mode) for _ in range(self.k)]

    def zero(self):
        return [self.el.zero() for _ in range(self.k)]


class Struct(Ty):
    def __init__(self, name, fields):
        self.name, self.fields = name, fields
        self.vy = name
        self.abi = "(" + ",".join(t.abi for _, t in fields) + ")"
        self.dyn = any(t.dyn for _, t in fields)
        d = []
        for _, t in fields:
            for x in t.decls:
                if x not in d:
                    d.append(x)
        d.append(f"struct {name}:\n" + "".join(f"    {f}: {t.vy}\n" for f, t in fields))
        self.decls = tuple(d)

    def words(self):
        return sum(t.words() for _, t in self.fields)

    def tail(self):
        return sum(t.bound() for _, t in self.fields)

    def ndyn(self):
        return sum(t.ndyn() for _, t in self.fields)

    def gen(self, rng, mode):
        return tuple(t.gen(rng, mode) for _, t in self.fields)

    def zero(self):
        return tuple(t.zero() for _, t in self.fields)


class Shape:
    """what a function returns: one type, or a tuple of types"""

    def __init__(self, cls, members, tuple_=None):
        self.cls, self.members = cls, members
        self.is_tuple = len(members) > 1 if tuple_ is None else tuple_

    @property
    def ret(self):
        return "(" + ", ".join(t.vy for t in self.members) + ")" if self.is_tuple else self.members[0].vy

    @property
    def abi_types(self):
        return [t.abi for t in self.members]

    def decls(self):
        d = []
        for t in self.members:
            for x in t.decls:
                if x not in d:
                    d.append(x)
        return d

    def bound(self):
        return sum(t.bound() for t in self.members)

    def gen(self, rng, mode):
        if mode == "alt":
            return [t.gen(rng, "max" if i % 2 == 0 else "min") for i, t in enumerate(self.members)]
        if mode == "alt2":
            return [t.gen(rng, "min" if i % 2 == 0 else "max") for i, t in enumerate(self.members)]
        return [t.gen(rng, mode) for t in self.members]

    def encode(self, vals):
        return eth_abi.encode(self.abi_types, vals)


def _big(rng):
    return rng.choice([33, 40, 64, 65, 100])


def _small(rng):
    return rng.choice([1, 5, 31, 32])


def shape_classes(rng, tag):
    """one shape per class (class name -> Shape); sizes drawn per run"""
    def bs(n):
        return Bts(n, string=rng.random() < 0.5)
    st = lambda k, fields: Struct(f"S{tag}{k}", fields)
    out = []
    out.append(Shape("tuple-2-bytestrings", [bs(_big(rng)), bs(_big(rng))]))
    out.append(Shape("tuple-2-dynarrays", [Arr(U256, rng.choice([2, 4, 5])), Arr(rng.choice([U256, I128, ADDR]), rng.choice([3, 4]))]))
    out.append(Shape("dynarray-of-bytestrings", [Arr(bs(_big(rng)), rng.choice([2, 3]))]))
    out.append(Shape("struct-2-dynamic", [st("a", [("a", bs(_big(rng))), ("x", U256), ("b", Arr(U256, rng.choice([2, 3])))])]))
    out.append(Shape("dynarray-of-structs", [Arr(st("b", [("p", U8), ("q", bs(_big(rng)))]), rng.choice([2, 3]))]))
    out.append(Shape("nested-dynarray", [Arr(Arr(rng.choice([U256, U8]), rng.choice([2, 3])), rng.choice([2, 3]))]))
    out.append(Shape("tuple-mixed-static-dynamic", [rng.choice([U256, BOOL, B32]), bs(_big(rng)), SArr(U256, 2), Arr(U256, 3), I128]))
    out.append(Shape("tuple-small-bytestrings", [bs(_small(rng)), bs(_small(rng)), U256]))
    out.append(Shape("tuple-3-dynamic", [bs(_big(rng)), Arr(bs(rng.choice([3, 40])), 2), bs(_small(rng))]))
    out.append(Shape("single-bytestring", [bs(_big(rng))], tuple_=False))
    out.append(Shape("struct-nested-dynamic", [st("c", [("s", st("d", [("m", bs(_big(rng))), ("n", bs(_big(rng)))])), ("t", Arr(U256, 2))]), U256]))
    return out


# ------------------------------------------------------------------------------------------------ sources
def _sig_args(sh):
    return ", ".join(f"a{i}: {t.vy}" for i, t in enumerate(sh.members))


def _pass_args(sh):
    return ", ".join(f"a{i}" for i in range(len(sh.members)))


def build_program(shapes):
    """-> (callee source, caller source, function table [(shape index, kind, function name)])"""
    decls = []
    for sh in shapes:
        for d in sh.decls():
            if d not in decls:
                decls.append(d)
    callee = ["\n".join(decls), "", "hits: public(uint256)", ""]
    iface = ["interface Callee:"]
    miface = ["interface Mirror:"]
    body = []
    table = []
    for i, sh in enumerate(shapes):
        mut = "view" if i % 2 == 0 else "nonpayable"
        kw = "staticcall" if mut == "view" else "extcall"
        callee.append("@external")
        if mut == "view":
            callee.append("@view")
        callee.append(f"def echo{i}({_sig_args(sh)}) -> {sh.ret}:")
        if mut != "view":
            callee.append("    self.hits += 1")
        callee.append(f"    return {_pass_args(sh)}\n")
        iface.append(f"    def echo{i}({_sig_args(sh)}) -> {sh.ret}: {mut}")
        sz = sh.bound()
        miface.append(f"    def raw{i}(p: Bytes[{sz}]) -> {sh.ret}: view")
        n = len(sh.members)
        tmp = "".join(f"    r{j}: {t.vy} = empty({t.vy})\n" for j, t in enumerate(sh.members))
        lhs = ", ".join(f"r{j}" for j in range(n))
        dec_t = sh.ret

        def fn(name, args, expr, destructure, state):
            s = "@external\n" + f"def {name}({args}) -> {sh.ret}:\n"
            if destructure and sh.is_tuple:
                s += tmp + f"    {lhs} = {expr}\n"
                if state:
                    s += "    self.n += 1\n"
                s += f"    return {lhs}\n"
            elif state:
                if sh.is_tuple:
                    s += tmp + f"    {lhs} = {expr}\n    self.n += 1\n    return {lhs}\n"
                else:
                    s += f"    r: {sh.ret} = {expr}\n    self.n += 1\n    return r\n"
            else:
                s += f"    return {expr}\n"
            return s
        a = _sig_args(sh)
        body.append(fn(f"call{i}", "t: address, " + a, f"{kw} Callee(t).echo{i}({_pass_args(sh)})", True, True))
        body.append(fn(f"via{i}", f"m: address, p: Bytes[{sz}]", f"staticcall Mirror(m).raw{i}(p)", i % 2 == 1, False))
        body.append(fn(f"dec{i}", f"p: Bytes[{sz}]", f"abi_decode(p, {dec_t})", True, False))
        enc_args = _pass_args(sh)
        table += [(i, "call", f"call{i}"), (i, "via", f"via{i}"), (i, "dec", f"dec{i}")]
        if i % 2 == 0:      # encode/decode round trip inside one contract: every other shape (compile time)
            body.append(fn(f"rt{i}", a, f"abi_decode(abi_encode({enc_args}), {dec_t})", i % 4 == 0, False))
            table.append((i, "rt", f"rt{i}"))
    caller = "\n".join(decls) + "\n\n" + "\n".join(iface) + "\n\n" + "\n".join(miface) + "\n\nn: public(uint256)\n\n" + "\n".join(body)
    return "\n".join(callee), caller, table


# ------------------------------------------------------------------------------------------------ plan
def mutate(enc, rng):
    """boundary-biased damage of a well-formed ABI encoding"""
    x = rng.random()
    if x < 0.15 and len(enc) > 0:
        return enc[:-rng.choice([1, 31, 32, 33])]
    if x < 0.22:
        return enc + b"\x00" * rng.choice([1, 32])
    nw = len(enc) // 32
    if nw == 0:
        return enc
    # small words are heads (offsets) or lengths: prefer them
    small = [k for k in range(nw) if int.from_bytes(enc[32 * k:32 * k + 32], "big") < 2 ** 16]
    k = rng.choice(small) if small and rng.random() < 0.8 else rng.randrange(nw)
    old = int.from_bytes(enc[32 * k:32 * k + 32], "big")
    new = rng.choice([0, 1, 31, 32, 33, 64, old + 1, max(old - 1, 0), old + 32, max(old - 32, 0), len(enc), len(enc) - 32, len(enc) + 1,
                      2 ** 255, 2 ** 256 - 1, 2 ** 256 - 32, 2 ** 64]) % 2 ** 256
    return enc[:32 * k] + new.to_bytes(32, "big") + enc[32 * k + 32:]


def make_plan(shapes, table, rng, addr_callee, addr_mirror, nrand):
    """call plan computed from the type algebra alone (selectors and encodings by eth_abi; no compiler involved)"""
    from eth_utils import keccak
    plan = []

    def add(name, tys, vals, tag):
        data = keccak((name + "(" + ",".join(tys) + ")").encode())[:4] + eth_abi.encode(tys, vals)
        plan.append({"name": name, "data": data, "value": 0, "sender": DEPLOYER if rng.random() < 0.7 else SENDER2,
                     "args": (tag + " " + repr(vals))[:300]})
    for i, sh in enumerate(shapes):
        at = sh.abi_types
        cases = [(m, sh.gen(rng, m)) for m in ("min", "max", "alt", "alt2", "empty")] + [("rand", sh.gen(rng, "rand")) for _ in range(nrand)]
        for tag, vals in cases:
            enc = sh.encode(vals)
            add(f"call{i}", ["address"] + at, [addr_callee] + vals, tag)
            if (i, "rt", f"rt{i}") in table and (tag in ("min", "max", "alt") or rng.random() < 0.5):
                add(f"rt{i}", at, vals, tag)
            add(f"via{i}", ["address", "bytes"], [addr_mirror, enc], tag)
            add(f"dec{i}", ["bytes"], [enc], tag)
            for _ in range(2):
                bad = mutate(enc, rng)
                if len(bad) <= sh.bound():
                    add(f"via{i}", ["address", "bytes"], [addr_mirror, bad], tag + "/mutated")
                    add(f"dec{i}", ["bytes"], [bad], tag + "/mutated")
        # callee without code
        add(f"call{i}", ["address"] + at, [SENDER2] + sh.gen(rng, "min"), "no-code")
    add("n", [], [], "counter")
    return plan


# ------------------------------------------------------------------------------------------------ running
_callee_cache = {}


def compile_callee(args):
    src, evm = args
    return (hash(src), evm), bytes.fromhex(compile_src(src, Config(False, "gas", evm), formats=("bytecode",))["bytecode"][2:])


class DynSession(R.Session):
    """callee (compiled by the reference generator for the same EVM target) and mirror deployed first, then the caller"""

    def __init__(self, callee_src, caller_src, cfg, want_abi=False):
        from vlib.c01_harness import check_target_opcodes
        fm = ("bytecode", "layout", "asm", "asm_runtime") + (("abi",) if want_abi else ())
        self.out = compile_src(caller_src, cfg, formats=fm)
        check_target_opcodes(self.out, cfg.evm)
        self.abi = self.out.get("abi")
        self.chain = Chain(cfg.evm)
        key = (hash(callee_src), cfg.evm)
        if key not in _callee_cache:
            _callee_cache[key] = compile_callee((callee_src, cfg.evm))[1]
        self.helper = self.chain.deploy(_callee_cache[key])
        self.mirror = self.chain.set_code(None, MIRROR_CODE)
        if self.helper is None or self.mirror is None:
            raise RuntimeError("callee deployment failed")
        self.addr = self.chain.deploy(bytes.fromhex(self.out["bytecode"][2:]))


def addresses():
    """(callee, mirror, caller): fixed by the deployer's nonces, independent of the configuration"""
    ch = Chain("cancun")
    a = ch.set_code(None, MIRROR_CODE)
    b = ch.set_code(None, MIRROR_CODE)
    c = ch.set_code(None, MIRROR_CODE)
    return a, b, c


def observe(callee_src, caller_src, cfg, plan):
    s = DynSession(callee_src, caller_src, cfg)
    if s.addr is None:
        return {"deployed": False, "results": [], "state": None}
    res = s.run(plan)
    return {"deployed": True, "results": res, "state": s.final_state()}
