"""C20 proof-level part: the token-stream state machines of vyper/ast/pre_parser.py.

  real side : PreParser._parse run on an arbitrary token list (module-level `tokenize`/`untokenize` patched so that
              the machine consumes exactly the given tokens and the rewritten token list is captured)
  model side: coq/C20P (PreParse.v hand model proved equal to the regenerated GenPreParse.v; Pragma.v hand model)
  tie       : per token stream, exact comparison of rewritten tokens, adjustments, keyword translations, for-loop
              annotations, hex-string locations, settings -- or of the exception class, location and message
  search    : any exception outside SyntaxException/PragmaException/VersionException (pre-parser) or outside
              VyperException (parse_to_ast) is a failing input, key C20:<Exc>:<file>:<function>
"""
import io
import re
import tokenize as pytok
import traceback
from pathlib import Path

from . import coqrun
from .common import COQ, REPO

DOCUMENTED = ("SyntaxException", "PragmaException", "VersionException")


# ---------------------------------------------------------------- serialisation

def coq_string(s: str) -> str:
    """Coq term of type string holding the UTF-8 bytes of s (control / non-ASCII bytes via ascii_of_nat)."""
    b = s.encode("utf-8", "surrogatepass")
    parts, cur = [], []

    def flush():
        if cur:
            parts.append('"' + "".join(cur) + '"')
            cur.clear()

    for x in b:
        if 32 <= x < 127:
            cur.append('""' if x == 34 else chr(x))
        else:
            flush()
            parts.append(f"(chr {x})")
    flush()
    if not parts:
        return '""'
    return parts[0] if len(parts) == 1 and parts[0].startswith('"') else "(" + " +++ ".join(parts) + ")"


def coq_pos(p):
    return f"({p[0]}, {p[1]})" if p[1] >= 0 and p[0] >= 0 else f"(({p[0]}), ({p[1]}))"


def coq_tok(t):
    return f"mk_token {t[0]} {coq_string(t[1])} {coq_pos(t[2])} {coq_pos(t[3])}"


def coq_list(xs, chunk=150):
    xs = list(xs)
    parts = ["[" + "; ".join(xs[i:i + chunk]) + "]" for i in range(0, len(xs), chunk)] or ["[]"]
    return "(" + " ++ ".join(parts) + ")"


def coq_opt(x, f):
    return "None" if x is None else f"(Some {f(x)})"


def coq_bool(b):
    return "true" if b else "false"


# ---------------------------------------------------------------- real side

def tok4(t):
    return (int(t.type), t.string, tuple(t.start), tuple(t.end))


def source_tokens(src: str):
    """tokens of a source text exactly as PreParser._parse obtains them (may raise TokenError / SyntaxError)."""
    return list(pytok.tokenize(io.BytesIO(src.encode("utf-8")).readline))


def settings_tuple(s):
    opt = None if s.optimize is None else s.optimize.name
    return (s.compiler_version, opt, s.evm_version, s.experimental_codegen, s.enable_decimals, s.nonreentrancy_by_default)


def spec_norm(src):
    """what the front end may do to a text before tokenizing it: drop a leading BOM (neither tokenizer nor python's parser
    count it) and let a lone CR end a line for the tokenizer as it does for python's parser -- both 1:1 in length after
    the BOM, so that every offset into the normalised text is an offset into the file"""
    return re.sub(r"\r(?!\n)", "\n", src[1:] if src[:1] == "\ufeff" else src)


class _Stop(Exception):
    pass


def pre_parser_input(src):
    """the text parse_to_ast really hands to PreParser.parse (None if it does not get that far)"""
    import vyper.ast.pre_parser as P
    from vyper.ast.parse import parse_to_ast
    got = []
    orig = P.PreParser.parse

    def rec(self, code):
        got.append(code)
        raise _Stop()

    P.PreParser.parse = rec
    try:
        parse_to_ast(src)
    except BaseException:  # noqa
        pass
    finally:
        P.PreParser.parse = orig
    return got[0] if got else None


def real_machine(tokens, is_interface=False):
    """run the real PreParser._parse on the given token list.  -> ("ok", dict) | ("user", cls, line, col, msg) |
    ("internal", cls, msg, frame)"""
    import vyper.ast.pre_parser as P
    captured = {}

    class _Out:
        def decode(self, enc):
            return ""

    def fake_tokenize(readline):
        return iter(tokens)

    def fake_untokenize(result):
        captured["result"] = [tok4(t) for t in result]
        return _Out()

    saved = (P.tokenize, P.untokenize)
    P.tokenize, P.untokenize = fake_tokenize, fake_untokenize
    try:
        pp = P.PreParser(is_interface)
        try:
            pp._parse("")
        except Exception as e:  # noqa
            return classify_exc(e)
    finally:
        P.tokenize, P.untokenize = saved
    return ("ok", {
        "result": captured["result"],
        "adjustments": [(tuple(k), v) for k, v in pp.adjustments.items()],
        "kw": [(tuple(k), v) for k, v in pp.keyword_translations.items()],
        "anns": [(None if k is None else tuple(k), [tok4(t) for t in v]) for k, v in pp.for_loop_annotations.items()],
        "hex": [tuple(x) for x in pp.hex_string_locations],
        "settings": settings_tuple(pp.settings),
    })


def classify_exc(e):
    name = type(e).__name__
    if name in DOCUMENTED:
        ann = (e.annotations or [None])[0]
        return ("user", name, getattr(ann, "lineno", None), getattr(ann, "col_offset", None), e.message)
    return ("internal", name, str(e)[:120], innermost_frame(e))


def innermost_frame(e):
    frames = [f for f in traceback.extract_tb(e.__traceback__) if "/vyper/" in f.filename]
    if not frames:
        return "?:?"
    f = frames[-1]
    return f"{f.filename.split('/vyper/')[-1]}:{f.name}"


# ---------------------------------------------------------------- model side

def spec_table(tokens):
    """oracle table for packaging.SpecifierSet on every string the version pragma code can hand to it"""
    from packaging.specifiers import InvalidSpecifier, SpecifierSet
    from vyper import __version__
    cands = set()
    for t in tokens:
        if t[0] == pytok.COMMENT:
            c = t[1][1:].strip()
            for pre in ("@version ", "@version", "pragma version ", "version "):
                i = c.find(pre)
                if i >= 0:
                    v = c[i + len(pre):].strip()
                    for w in (v, "==" + v, "~=" + v[1:] if v.startswith("^") else v, "==" + v[1:], "~=" + v):
                        cands.add(w)
    rows = []
    for w in sorted(cands):
        try:
            spec = SpecifierSet(w)
            rows.append((w, True, bool(spec.contains(__version__, prereleases=True))))
        except InvalidSpecifier:
            rows.append((w, False, False))
    return rows


PRELUDE = """From Coq Require Import Ascii.
From Verif Require Import Base.PyInt C20P.Tok C20P.GenTokConst C20P.GenPragmaConst C20P.PreParse C20P.Pragma C20P.Harness{gen}.
Open Scope list_scope.
Local Infix "+++" := append (at level 60, right associativity).
Definition chr (n : nat) : string := String (ascii_of_nat n) EmptyString.
"""


def case_expr(tokens, is_interface, real, use_gen):
    toks = coq_list(coq_tok(t) for t in tokens)
    tbl = coq_list(f"({coq_string(w)}, ({coq_bool(a)}, {coq_bool(b)}))" for w, a, b in spec_table(tokens))
    fn = "check_gen" if use_gen else "check"
    if real[0] == "ok":
        d = real[1]
        s = d["settings"]
        exp = ("(ExpOk " + coq_list(coq_tok(t) for t in d["result"]) + " "
               + coq_list(f"({coq_pos(k)}, {v if v >= 0 else f'({v})'})" for k, v in d["adjustments"]) + " "
               + coq_list(f"({coq_pos(k)}, {coq_string(v)})" for k, v in d["kw"]) + " "
               + coq_list(f"({coq_opt(k, coq_pos)}, {coq_list(coq_tok(t) for t in v)})" for k, v in d["anns"]) + " "
               + coq_list(coq_pos(p) for p in d["hex"]) + " "
               + f"(mk_set {coq_opt(s[0], coq_string)} {coq_opt(s[1], coq_string)} {coq_opt(s[2], coq_string)} "
                 f"{coq_opt(s[3], coq_bool)} {coq_opt(s[4], coq_bool)} {coq_opt(s[5], coq_bool)}))")
    elif real[0] == "user":
        exp = f"(ExpUser {coq_string(real[1])} {real[2]} {real[3]} {coq_string(real[4])})"
    else:
        exp = "ExpInternal"
    return f"{fn} {coq_bool(is_interface)} {tbl} {toks} {exp}"


def run_model(cases, name, use_gen):
    """cases: (tokens4, is_interface, real) -> list of verdict strings ("ok" or a short mismatch tag)"""
    exprs = [case_expr(t, i, r, use_gen) for t, i, r in cases]
    prelude = PRELUDE.replace("{gen}", " C20P.GenPreParse" if use_gen else "")
    if use_gen:
        prelude += "Definition check_gen := check_with gen_run.\n"
    outs = coqrun.eval_cases(prelude, exprs, name, shard=25, timeout=900)
    return [o.strip().strip('"') for o in outs]


# ---------------------------------------------------------------- inputs

TEMPLATES = [
    '# pragma version {ver}\n# pragma evm-version cancun\n\nevent Paid:\n    who: indexed(address)\n    amt: uint256\n\n'
    'struct P:\n    x: uint256\n    y: Bytes[4]\n\nflag F:\n    A\n    B\n\ninterface T:\n    def f(a: uint256) -> uint256: view\n\n'
    'ps: HashMap[uint256, P]\n\n@external\n@payable\ndef pay(t: T, xs: DynArray[uint256, 8]) -> uint256:\n    s: uint256 = 0\n'
    '    for i: uint256 in xs:\n        s += i\n    for j: uint256 in range(3):\n        s += staticcall t.f(j)\n'
    '    b: Bytes[4] = x"deadbeef"\n    log Paid(who=msg.sender, amt=s)\n    self.ps[0] = P(x=s, y=b)\n    return s\n',
    '#pragma optimize codesize\n#pragma nonreentrancy on\n# @version {ver}\n\n@internal\ndef _g(x: uint256[3], m: (uint256, \\\n    int128)) -> uint256:\n'
    '    t: uint256 = 0\n    for k: uint256 in [1, 2,\n            3]:\n        t += x[k - 1] + \\\n            k\n    return t\n\n'
    '@external\ndef h(a: Bytes[2] = x"00ff") -> Bytes[2]:\n    extcall Foo(self).bar(x"", a)\n    return a if a != x"1234" else x"abcd"\n',
    '#pragma enable-decimals\n#pragma experimental-codegen\nx: public(uint256)\n\n@deploy\ndef __init__():\n    self.x = 1\n\n@external\n@view\n'
    'def nest() -> uint256:\n    q: uint256 = 0\n    for a: uint256 in range(2):\n        for b: DynArray[uint256, 2] in [[1], [2, 3]]:\n'
    '            for c: uint256 in b:\n                q += (a + c) * {{1: 2}}[1]\n    return q\n',
]
POOL = ["for", "in", ":", "x", '"ab"', "b'12'", "log", "struct", "event", "flag", "interface", "enum", "error", "extcall",
        "staticcall", "class", "yield", "await", ";", "(", ")", "[", "]", "\\\n", "# pragma version 0.4.0", "# @version 0.4.0",
        "#pragma evm-version paris", "#pragma foo", "#pragma optimize gas", "#pragma nonreentrancy off", "#pragma", "# pragma  ",
        "uint256", "i", "=", ",", "\n", "    ", "lambda", "async", '"""doc"""', "x'cd'", "1", "@external"]


def _retok(strings):
    """token stream for a list of token strings laid out on one or more lines (positions consistent)"""
    out, line, col = [], 1, 0
    for s in strings:
        if s == "\n":
            out.append((pytok.NEWLINE, "\n", (line, col), (line, col + 1)))
            line, col = line + 1, 0
            continue
        ty = (pytok.COMMENT if s.startswith("#") else pytok.STRING if s[:1] in "\"'" or s[:2] in ("b'", "x'", 'b"') and False
              else pytok.NAME if s.replace("_", "a").isalnum() and not s[0].isdigit() else pytok.NUMBER if s[0].isdigit()
              else pytok.STRING if s[:1] in "\"'" else pytok.OP)
        if s[:2] in ("b'", 'b"'):
            ty = pytok.STRING
        out.append((ty, s, (line, col), (line, col + len(s))))
        col += len(s) + 1
    out.append((pytok.ENDMARKER, "", (line + 1, 0), (line + 1, 0)))
    return out


def gen_streams(ctx, n):
    """seeded token streams: mutated tokenisations of mostly-valid vyper + synthetic + malformed ones"""
    rnd = ctx.rng("c20p-streams")
    bases = []
    for t in TEMPLATES:
        for ver in ("0.4.3", "^0.4.0", ">=0.3.10", "0.3.9", "abc"):
            try:
                bases.append([tok4(x) for x in source_tokens(t.format(ver=ver))])
            except Exception:  # noqa
                pass
    out = [("template", b) for b in bases]
    for _ in range(n):
        kind = rnd.choice(["mutate", "mutate", "mutate", "synthetic", "malformed"])
        if kind == "mutate":
            toks = list(rnd.choice(bases))
            for _ in range(rnd.randrange(1, 6)):
                i = rnd.randrange(len(toks))
                op = rnd.choice(["del", "dup", "swap", "repl", "ins", "type", "move"])
                if op == "del":
                    del toks[i]
                elif op == "dup":
                    toks.insert(i, toks[i])
                elif op == "swap" and i + 1 < len(toks):
                    toks[i], toks[i + 1] = toks[i + 1], toks[i]
                elif op == "repl":
                    s = rnd.choice(POOL)
                    toks[i] = (_retok([s])[0][0], s, toks[i][2], toks[i][3])
                elif op == "ins":
                    s = rnd.choice(POOL)
                    toks.insert(i, (_retok([s])[0][0], s, toks[i][2], toks[i][2]))
                elif op == "type":
                    toks[i] = (rnd.choice([pytok.NAME, pytok.OP, pytok.STRING, pytok.COMMENT, pytok.NUMBER]),) + toks[i][1:]
                elif op == "move":
                    l, c = toks[i][2]
                    toks[i] = (toks[i][0], toks[i][1], (l, max(0, c + rnd.choice([-3, -1, 1, 5]))), toks[i][3])
                if not toks:
                    toks = list(rnd.choice(bases))
            out.append(("mutated", toks))
        elif kind == "synthetic":
            out.append(("synthetic", _retok([rnd.choice(POOL) for _ in range(rnd.randrange(1, 40))])))
        else:
            toks = []
            for _ in range(rnd.randrange(0, 25)):
                s = rnd.choice(POOL + ["", "é", "\x0c", "\r"])
                p = (rnd.randrange(0, 4), rnd.randrange(0, 9))
                toks.append((rnd.choice([0, 1, 2, 3, 4, 5, 6, 55, 64, 65, 67]), s, p, (p[0], p[1] + rnd.randrange(0, 4))))
            out.append(("malformed", toks))
    return out


def corpus_sources(ctx):
    """source texts: /repo/examples, the C18 multi-module corpus, the C19 generator, the C20 python-construct list"""
    srcs = []
    for p in sorted((REPO / "examples").rglob("*.vy")):
        srcs.append((f"examples/{p.name}", p.read_text()))
    try:
        from . import c18_corpus
        for name, ent in c18_corpus.CORPUS.items():
            for fn, text in ent["files"].items():
                if isinstance(text, str) and fn.endswith((".vy", ".vyi")):
                    srcs.append((f"c18/{name}/{fn}", text))
    except Exception:  # noqa
        pass
    try:
        from . import c19_gen
        rnd = ctx.rng("c20p-c19")
        for i in range(6 if ctx.tier == "quick" else 40):
            g = c19_gen.gen_contract(rnd)
            srcs.append((f"c19gen/{i}", g["src"]))
    except Exception:  # noqa
        pass
    try:
        from . import c20_pyconstructs
        items = list(c20_pyconstructs.items())
        rnd = ctx.rng("c20p-py")
        if ctx.tier == "quick":
            items = rnd.sample(items, min(40, len(items)))
        for it in items:
            srcs.append((f"pyconstruct/{it['id']}", it["src"]))
    except Exception:  # noqa
        pass
    return srcs


REPLAYS = [   # fixed regression inputs (crashes found by this part; see notes/C20-preparser.md)
    ("hex-adjacent", 'a: Bytes[4] = x"ab" x"cd"\n'), ("hex-bytes-prefix", 'a: Bytes[2] = x b"12"\n'),
    ("for-after-lone-cr", "def f():\n    x: uint256 = 1\r    for i: uint256 in range(3):\n        pass\n"),
    ("for-after-formfeed", "def f():\n    pass\n\x0cfor i: uint256 in range(3):\n    pass\n"),
    ("comprehension", "def f():\n    a: uint256 = [x for x in y]\n"), ("hex-bad", 'a: Bytes[1] = x"zz"\n'),
    ("for-swallows-indent", "for a:\n for b\n"), ("for-swallows-indent-2", "def f():\n for a:\n    for b\n"),
    # str.splitlines() line notion in parse.py (form feed &c. inside a line shift every later literal's text)
    ("formfeed-in-comment-decimal", "def f():\n    # c\x0cd\n    x: decimal = 7.25\n"),
    ("formfeed-midline-spans", "def f():\n    a: uint256 =\x0c 1\n    x: uint256 = 725 + 13\n    y: bytes4 = 0x12345678\n"),
    ("linesep-in-string-spans", "def f():\n    s: String[3] = 'a\u2028b'\n    x: uint256 = 725 + 13\n"),
    # positions of the rewritten text as python's parser sees them vs tokenizer positions / character offsets
    ("formfeed-after-dedent", "@external\ndef f() -> decimal:\n    return y\n\x0cy: constant(decimal) = 1.55 \n"),
    ("formfeed-in-indent-after-dedent", "event E:\n    x: decimal\n@external\ndef f():\n    if True:\n        pass\n    \x0clog E(x=1.55 )\n"),
    ("bom-line-1", "\ufeffy: constant(decimal) = 1.55 \n"),
    ("lone-cr-then-keyword", "event E:\n    x: decimal\n@external\ndef f():\n    a: uint256 = 1\r    log E(x=1.55 )\n"),
    ("non-ascii-before-literal", "def f():\n    \u00e9: decimal = 1.55 \n"),
]
TEXT_MUTATIONS = ['x"ab" x"cd"', 'x b"12"', 'x"1"', "\x0c", "\r", "\\\n", "for", " in ", ":", 'x"', "log ", "é", ";", "\t", "\u2028", "-"]


def text_variants(ctx, srcs, n):
    rnd = ctx.rng("c20p-text")
    out = []
    pool = [s for _, s in srcs if len(s) < 4000] or [s for _, s in srcs]
    for i in range(n):
        s = rnd.choice(pool)
        for _ in range(rnd.randrange(1, 4)):
            j = rnd.randrange(len(s) + 1)
            m = rnd.choice(TEXT_MUTATIONS)
            s = s[:j] + m + s[j + (rnd.randrange(0, 3) if rnd.random() < 0.3 else 0):]
        out.append((f"textmut/{i}", s))
    return out


# ---------------------------------------------------------------- search on the whole front end

def parse_outcome(src):
    """vyper.ast.parse.parse_to_ast on a source text -> ("ok",) | ("user", cls) | ("internal", cls, msg, frame)"""
    from vyper.ast.parse import parse_to_ast
    from vyper.exceptions import VyperException
    try:
        parse_to_ast(src)
        return ("ok",)
    except VyperException as e:
        return ("user", type(e).__name__)
    except RecursionError as e:
        return ("internal", "RecursionError", "", innermost_frame(e))
    except Exception as e:  # noqa
        return ("internal", type(e).__name__, str(e)[:120], innermost_frame(e))


# ---------------------------------------------------------------- bookkeeping of parse.py (Book.v)

BOOK_MSGS = ("Invalid syntax (unsupported whitespace", "invalid for loop syntax: not a name", "missing type annotation",
             "invalid type annotation", "Hex string must have an even number", "`for` is only allowed",
             "Invalid hex string literal")


def book_shape_guard():
    """static guard for the hand model Book.v: the consuming code still has the modelled shape"""
    import ast
    import inspect
    import vyper.ast.parse as PA
    tree = ast.parse(inspect.getsource(PA))
    probs = []
    fns = {n.name: n for n in ast.walk(tree) if isinstance(n, ast.FunctionDef)}

    def guarded(fn, attr):
        for n in ast.walk(fn):
            if isinstance(n, ast.If) and f"len(pre_parser.{attr}) != 0" == ast.unparse(n.test) and n.body \
                    and isinstance(n.body[-1], ast.Raise) and "SyntaxException" in ast.unparse(n.body[-1]):
                return True
        return False

    top = fns.get("_parse_to_ast")
    if top is None:
        return ["_parse_to_ast not found"]
    for attr in ("for_loop_annotations", "hex_string_locations"):
        if not guarded(top, attr):
            probs.append(f"_parse_to_ast no longer rejects a non-empty pre_parser.{attr} with a SyntaxException")
        for n in ast.walk(top):
            if isinstance(n, ast.Assert) and attr in ast.unparse(n):
                probs.append(f"_parse_to_ast asserts on pre_parser.{attr} (a failing assert is an internal error)")
    vf = fns.get("visit_For")
    src = ast.unparse(vf) if vf else ""
    if "key not in self._pre_parser.for_loop_annotations" not in src or ".for_loop_annotations.pop(key)" not in src:
        probs.append("visit_For no longer checks the key before popping the annotation")
    vc = fns.get("visit_Constant")
    src = ast.unparse(vc) if vc else ""
    if "key in self._pre_parser.hex_string_locations" not in src or "hex_string_locations.remove(key)" not in src:
        probs.append("visit_Constant no longer removes the hex string location under a membership test")
    return probs


def book_events(src):
    """-> None (pre-parse / python parse fails) or (anns, hexs, events) derived independently from the Python AST"""
    import ast
    import tokenize as T
    from vyper.ast.pre_parser import PreParser
    pp = PreParser(False)
    try:
        got = pre_parser_input(src)         # parse.py normalises the text first (BOM, lone CR)
        pp.parse(got if got is not None else src)
        tree = ast.parse(pp.reformatted_code)
    except Exception:  # noqa
        return None
    anns = [(tuple(k), [tok4(t) for t in v]) for k, v in pp.for_loop_annotations.items() if k is not None]
    hexs = [tuple(x) for x in pp.hex_string_locations]
    events = []

    def walk(node):
        if isinstance(node, ast.For):
            key = (node.lineno, node.col_offset)
            toks = pp.for_loop_annotations.get(key)
            res = "AOk"
            if toks:
                try:
                    fake = ast.parse("dummy_target:" + T.untokenize(toks)).body[0]
                    if getattr(fake, "value", None) is not None:
                        res = f"(AValue ({fake.value.lineno}, {fake.value.col_offset}))"
                except SyntaxError:
                    res = "ABad"
            tgt = node.target
            events.append(f"EvFor ({key[0]}, {key[1]}) {coq_bool(isinstance(tgt, ast.Name))} "
                          f"({getattr(tgt, 'lineno', 0)}, {getattr(tgt, 'col_offset', 0)}) {res}")
        elif isinstance(node, ast.Constant) and isinstance(node.value, str):
            col = node.col_offset + pp.adjustments.get((node.lineno, node.col_offset), 0)
            events.append(f"EvStr ({node.lineno}, {col}) {coq_bool(len(node.value) % 2 == 0)}")
        for ch in ast.iter_child_nodes(node):
            walk(ch)

    try:
        walk(tree)
    except Exception:  # noqa
        return None
    return anns, hexs, events


def parse_outcome_full(src):
    """like parse_outcome, with message, innermost frame (file:function) and location"""
    from vyper.ast.parse import parse_to_ast
    from vyper.exceptions import VyperException
    try:
        parse_to_ast(src)
        return {"kind": "ok"}
    except VyperException as e:
        ann = (e.annotations or [None])[0]
        return {"kind": "user", "cls": type(e).__name__, "msg": e.message, "frame": innermost_frame(e),
                "loc": (getattr(ann, "lineno", None), getattr(ann, "col_offset", None))}
    except Exception as e:  # noqa
        return {"kind": "internal", "cls": type(e).__name__, "msg": str(e)[:100], "frame": innermost_frame(e), "loc": None}


def book_tie(texts, outcomes=None):
    """model of the bookkeeping (Book.v) vs the real front end; -> (n compared, mismatch list)"""
    import re
    cases = []
    for name, src in texts:
        if len(src) > 6000:
            continue
        ev = book_events(src)
        if ev is not None:
            cases.append((name, src, ev))
    if not cases:
        return 0, []
    prelude = ("From Verif Require Import Base.PyInt C20P.Tok C20P.Book.\nFrom Coq Require Import Ascii.\nOpen Scope list_scope.\n"
               'Local Infix "+++" := append (at level 60, right associativity).\n'
               "Definition chr (n : nat) : string := String (ascii_of_nat n) EmptyString.\n"
               "Definition show (r : pres unit) := match r with POk _ => (\"ok\"%string, 0, 0, \"\"%string) "
               "| PErr (User c l k m) => (c, l, k, m) | PErr (Internal _) => (\"internal\"%string, 0, 0, \"\"%string) end.\n")
    exprs = []
    for _, _, (anns, hexs, events) in cases:
        a = coq_list(f"({coq_pos(k)}, {coq_list(coq_tok(t) for t in v)})" for k, v in anns)
        exprs.append(f"show (book {a} {coq_list(coq_pos(p) for p in hexs)} {coq_list(events)})")
    outs = coqrun.eval_cases(prelude, exprs, "c20pbook", shard=60, timeout=300)
    bad = []
    for (name, src, _), o in zip(cases, outs):
        m = re.match(r'^\("([^"]*)", \(?(-?\d+)\)?, \(?(-?\d+)\)?, "(.*)"\)$', o.strip(), re.S)
        if not m:
            bad.append((name, src, "unparsable model output " + o[:80], None))
            continue
        cls, l, c, msg = m.group(1), int(m.group(2)), int(m.group(3)), m.group(4)
        real = (outcomes or {}).get(name) or parse_outcome_full(src)
        in_book = (real["kind"] == "user" and real["cls"] == "SyntaxException"
                   and real["frame"] in ("ast/parse.py:visit_For", "ast/parse.py:visit_Constant", "ast/parse.py:_parse_to_ast")
                   and any(real["msg"].startswith(x) for x in BOOK_MSGS))
        in_front = real["kind"] != "ok" and real.get("frame", "").startswith("ast/parse.py")
        if cls == "ok":
            ok = not in_book
            why = "model accepts the bookkeeping, real raises a bookkeeping diagnostic"
        else:
            if in_book:
                ok = real["cls"] == cls and real["loc"] == (l, c) and real["msg"].startswith(msg)
                why = f"model predicts {cls} at {(l, c)} `{msg[:40]}`, real raises {real['cls']} at {real['loc']} `{real['msg'][:40]}`"
            else:
                ok = in_front     # another visitor's diagnostic came first; anything later (or success) means the check is gone
                why = (f"model predicts the bookkeeping diagnostic `{msg[:50]}` at {(l, c)} but the front end "
                       f"{'accepts the program' if real['kind'] == 'ok' else 'only fails later: ' + str(real.get('cls')) + ' in ' + str(real.get('frame'))}")
        if not ok:
            bad.append((name, src, why, real))
    return len(cases), bad


# ---------------------------------------------------------------- AST-level tie: literal spans and values

LIT_SKELETON = """
event E:
    x: decimal
    n: uint256
    s: String[12]
    b: Bytes[8]

interface Foo:
    def bar(a: decimal, n: uint256) -> decimal: nonpayable
    def baz(a: uint256, s: String[12], b: Bytes[8]) -> uint256: view

@external
def f(t: address, y: decimal, q: uint256) -> uint256:
{body}
    return q
"""


WS_HOSTILE = ["\x0c", "\x0c\x0c", "", "", "\r", "\x0c\n"]


def literal_texts(ctx, n):
    """texts with literals after log / extcall / staticcall followed by blanks, operators, comments"""
    rnd = ctx.rng("c20p-lits")
    decs = ["12.345", "0.5", "1.5", "2.5", "100.0000000001", "7.25"]
    ints = ["1", "42", "1_000", "0", "115792089237316195423570985008687907853269984665640564039457584007913129639935"]
    hexs = ["0x1234", "0xdeadbeef", "0x00"]
    strs = ['"ab"', "'c d'", '"x"', '"ab" "cd"']
    byts = ['b"ab"', 'x"abcd"', 'x"00"', "0b00000011", 'b"\\x01"']
    sp = lambda: rnd.choice(["", " ", "  ", "   "])  # noqa
    out = []
    for i in range(n):
        lines = []
        for _ in range(rnd.randrange(2, 6)):
            d1, d2, k1, k2 = rnd.choice(decs), rnd.choice(decs), rnd.choice(ints), rnd.choice(ints)
            h, st, by = rnd.choice(hexs), rnd.choice(strs), rnd.choice(byts)
            cm = rnd.choice(["", "  # c", " #log extcall 1.5"])
            kind = rnd.randrange(6)
            if kind == 0:
                lines.append(f"    log E(x={d1}{sp()}+{sp()}{d2}{sp()},{sp()}n={k1}{sp()}*{sp()}{k2} ,s={st}{sp()}, b={by}{sp()}){cm}")
            elif kind == 1:
                lines.append(f"    z{len(lines)}: decimal = extcall Foo(t).bar({d1}{sp()}+{sp()}y{sp()},{sp()}{k1}{sp()}){cm}")
            elif kind == 2:
                lines.append(f"    w{len(lines)}: uint256 = staticcall Foo(t).baz({k1}{sp()}+ q,{sp()}{st}{sp()},{sp()}{by}{sp()}){sp()}+{sp()}{k2}{cm}")
            elif kind == 3:
                lines.append(f"    v{len(lines)}: uint256 = {k1}{sp()}+{sp()}convert({h}{sp()}, uint256){cm}")
            elif kind == 4:
                lines.append(f"    if staticcall Foo(t).baz({k1} ,{st} ,{by} ) > {k2} : log E(x={d1} ,n={k2} ,s={st} ,b={by} ){cm}")
            else:
                lines.append(f"    u{len(lines)}: decimal = (extcall Foo(t).bar({d1} , {k1} )) + (extcall Foo(t).bar({d2}{sp()},{k2}{sp()})){cm}")
        text = LIT_SKELETON.format(body="\n".join(lines))
        if i % 3 == 2:       # whitespace on which tokenizer, untokenize, python's parser and str methods disagree
            text += f"\n{rnd.choice(WS_HOSTILE)}c{i}: constant(decimal) = {rnd.choice(decs)}{sp()}+{sp()}{rnd.choice(decs)} \n"
            if rnd.random() < 0.5:
                j = rnd.choice([k for k, ch in enumerate(text) if ch == "\n" and k > text.index("def f(")])
                text = text[:j] + rnd.choice(["\r", "\n    \x0c", " \x0c", "  # \x0c", "\n    if q > 1:\n        pass\n    \x0c"]) \
                    + text[j + 1:].lstrip("\n")
            if rnd.random() < 0.2:
                text = "\ufeff" + text.lstrip("\n")
        # "literals/": syntactically valid by construction;  "literals-ws/": with hostile whitespace
        out.append((("literals/" if text == LIT_SKELETON.format(body="\n".join(lines)) else "literals-ws/") + str(i), text))
    return out


def signed_eval(text, conv):
    """value of a numeric literal under folded unary minus signs and parentheses: "-(-1)", "- 1.5" """
    import ast
    e = ast.parse(text.strip(), mode="eval").body
    sign = 1
    while isinstance(e, ast.UnaryOp) and isinstance(e.op, (ast.USub, ast.UAdd)):
        sign = -sign if isinstance(e.op, ast.USub) else sign
        e = e.operand
    if not (isinstance(e, ast.Constant) and isinstance(e.value, (int, float)) and not isinstance(e.value, bool)):
        raise ValueError("not a numeric literal")
    seg = ast.get_source_segment(text.strip(), e)
    return sign * (conv(seg.replace("_", "")) if conv is not int else int(seg.replace("_", ""), 0))


def literal_problems(src):
    """for every literal node of parse_to_ast(src): node_source_code is the literal's own token text and the node
    value is the python value of that text.  -> list of (node type, message); None if the text does not parse"""
    import ast
    from decimal import Decimal
    from vyper import ast as vy_ast
    from vyper.ast.parse import parse_to_ast
    try:
        mod = parse_to_ast(src)
        # token positions comparable with python's parser: it ends a line at a lone "\r", the tokenize module does not
        tlist = list(source_tokens(spec_norm(src)))
    except Exception:  # noqa
        return None
    plines = re.split(r"(?<=\n)", spec_norm(src))
    toks = {}
    for i, t in enumerate(tlist):   # python ast columns are utf-8 byte offsets, tokenizer columns are characters
        toks[(t.start[0], len(t.line[:t.start[1]].encode("utf-8")))] = i
    probs = []

    def canon(kind, v):
        return (kind, str(abs(v)) if kind in ("Int", "Decimal") else str(v))

    want = []       # values of the NUMBER tokens of the original text (the sign is a separate token)
    for t in (tlist if want is not None else []):
        if t.type == pytok.NUMBER:
            z = t.string.replace("_", "")
            try:
                if z[:2] in ("0x", "0X"):
                    want.append(canon("Hex", t.string))
                elif z[:2] in ("0b", "0B"):
                    want.append(canon("Bytes", int(z, 2).to_bytes((len(z) - 2) // 8, "big")))
                elif z[:2] in ("0o", "0O") or z.isdigit():
                    want.append(canon("Int", int(z, 0)))
                else:
                    want.append(canon("Decimal", Decimal(z)))
            except Exception:  # noqa
                want = None
                break
    have = []
    for n in mod.get_descendants(vy_ast.Constant):
        ty = type(n).__name__
        if ty in ("Int", "Decimal", "Hex") or (ty == "Bytes" and n.node_source_code[:2] in ("0b", "0B")):
            have.append(canon(ty, n.value))
    if want is not None and sorted(want) != sorted(have):
        extra = sorted(set(have) - set(want))[:3]
        lost = sorted(set(want) - set(have))[:3]
        ty = (extra or lost or [("Int",)])[0][0]
        if any(not t.line.isascii() for t in tlist if t.type == pytok.NUMBER):
            ty = "non-ascii-line"       # python's ast counts UTF-8 bytes, parse.py slices characters
        probs.append((ty, f"numeric literal nodes {extra} have no NUMBER token of that value in the text; tokens {lost} "
                          f"have no node of that value"))
    for n in mod.get_descendants(vy_ast.Constant):
        ty = type(n).__name__
        text = n.node_source_code
        ti = toks.get((n.lineno, n.col_offset))
        tok = tlist[ti] if ti is not None else None
        own = tok.string if tok else None
        if tok is not None and ty in ("Int", "Decimal") and tok.string in ("-", "+"):
            # folded unary signs, "-(-1)": the tokens from here on are signs / parentheses around exactly one NUMBER
            j, depth, num = ti, 0, None
            while j < len(tlist) and tlist[j].start[0] == tok.start[0]:
                z = tlist[j]
                if z.type == pytok.NUMBER and num is None:
                    num = z
                elif z.string == "(" and num is None:
                    depth += 1
                elif z.string == ")" and num is not None and depth > 0:
                    depth -= 1
                elif not (z.string in ("-", "+") and num is None):
                    break
                j += 1
                if num is not None and depth == 0:
                    break
            if num is not None and depth == 0:
                own = tok.line[tok.start[1]:tlist[j - 1].end[1]]
        try:
            if ty == "Int":
                ok = int(signed_eval(text, int)) == n.value
            elif ty == "Decimal":
                ok = signed_eval(text, Decimal) == n.value
            elif ty == "Hex":
                ok = text == n.value
            elif ty in ("Str", "NameConstant"):
                ok = ast.literal_eval(text) == n.value
            elif ty == "HexBytes":
                ok = bytes.fromhex(ast.literal_eval(text)) == n.value
            elif ty == "Bytes":
                ok = (int(text, 2).to_bytes((len(text) - 2) // 8, "big") if text.startswith("0b") else ast.literal_eval(text)) == n.value
            else:
                continue
        except Exception as e:  # noqa: the text of the node is not even a literal
            ok = False
            text = f"{text!r} ({type(e).__name__})"
        lab = "non-ascii-line" if n.lineno <= len(plines) and not plines[n.lineno - 1].isascii() else ty
        if not ok:
            probs.append((lab, f"{ty} node at {n.lineno}:{n.col_offset} has value {n.value!r} but its source text is {text!r}"))
        elif tok is None or not (text == own or (ty in ("Str", "Bytes") and text.startswith(tok.string))):
            probs.append((lab, f"{ty} node at {n.lineno}:{n.col_offset}: source text {text!r} is not the token "
                              f"{own!r} standing there"))
    return probs


def span_problems(src):
    """Search-level form of adjusted_span_is_original_span on the real output: every significant token of the REAL
    rewritten text (tokenize(PreParser.reformatted_code)), looked up in the REAL adjustments table at its start and its
    end, is mapped to a slice of the ORIGINAL text that is the token's own text (the vyper keyword for a rewritten one).
    -> (n_tokens, problems, [(string, start, end)] of the rewritten text); None if the pre-parser rejects the text"""
    import vyper.ast.pre_parser as P
    pp = P.PreParser(False)
    try:
        pp.parse(src)
        rt = source_tokens(pp.reformatted_code)
    except Exception:  # noqa
        return None
    lines = re.split(r"(?<=\n)", src[1:] if src[:1] == "\ufeff" else src)   # the tokenize module's lines and columns
    vy_kw = set(P.VYPER_CLASS_TYPES) | set(P.CUSTOM_STATEMENT_TYPES) | set(P.CUSTOM_EXPRESSION_TYPES)
    probs, sig = [], []
    for r in rt:
        if r.type not in (pytok.NAME, pytok.NUMBER, pytok.STRING, pytok.OP):
            continue
        sig.append((r.string, tuple(r.start), tuple(r.end)))
        missing = [k for k in (tuple(r.start), tuple(r.end)) if k not in pp.adjustments]
        (l0, c0), (l1, c1) = r.start, r.end
        c0 += pp.adjustments.get((l0, c0), 0)
        c1 += pp.adjustments.get((l1, c1), 0)
        if not (1 <= l0 <= l1 <= len(lines)):
            probs.append(f"token {r.string!r} of the rewritten text at {r.start} lies outside the original text")
            continue
        text = lines[l0 - 1][c0:c1] if l0 == l1 else lines[l0 - 1][c0:] + "".join(lines[l0:l1 - 1]) + lines[l1 - 1][:c1]
        kw = tuple(r.start) in pp.keyword_translations and r.string in ("class", "yield", "await")
        if (text not in vy_kw) if kw else (text != r.string):
            probs.append(f"token {r.string!r} at {tuple(r.start)}-{tuple(r.end)} of the rewritten text is mapped to "
                         f"{(l0, c0)}-{(l1, c1)} of the original, which reads {text[:40]!r}")
        elif missing:
            probs.append(f"token {r.string!r} of the rewritten text: position {missing[0]} is not a key of adjustments")
    return len(sig), probs, sig


def span_model_tie(cases):
    """cases: (name, tokens4, [(start, end)] of the significant tokens of tokenize(reformatted_code)) -> list of verdicts
    0 ok / 1 stream positions not tokenizer-like (hypothesis of adjusted_span_is_original_span) / 2 layout model wrong"""
    prelude = ("From Coq Require Import Ascii.\nFrom Verif Require Import Base.PyInt C20P.Tok C20P.GenTokConst C20P.PreParse "
               "C20P.SpanProofs.\nOpen Scope list_scope.\n"
               'Local Infix "+++" := append (at level 60, right associativity).\n'
               "Definition chr (n : nat) : string := String (ascii_of_nat n) EmptyString.\n")
    exprs = [f"span_tie {coq_list(coq_tok(t) for t in toks)} {coq_list(f'({coq_pos(a)}, {coq_pos(b)})' for a, b in exp)}"
             for _, toks, exp in cases]
    outs = coqrun.eval_cases(prelude, exprs, "c20pspan", shard=25, timeout=900)
    return [o.strip() for o in outs]


# ---------------------------------------------------------------- the part

FILES = ["C20P/Tok.v", "C20P/GenTokConst.v", "C20P/GenPragmaConst.v", "C20P/PreParse.v", "C20P/Pragma.v", "C20P/Harness.v",
         "C20P/GenPreParse.v", "C20P/PreParseSound.v", "C20P/PreParseProofs.v", "C20P/PragmaProofs.v", "C20P/SpanProofs.v",
         "C20P/PropsPreParse.v",
         "C20P/Book.v"]


def generate():
    """regenerate the three Gen files; returns None or the rejection message"""
    from . import c20_preparse2coq as G
    from .py2coq import Unsupported
    try:
        texts = {"GenTokConst.v": G.gen_constants(), "GenPragmaConst.v": G.gen_pragma_constants(),
                 "GenPreParse.v": G.gen_preparse()}
    except Unsupported as e:
        return str(e)
    for fn, t in texts.items():
        p = COQ / "C20P" / fn
        if not p.exists() or p.read_text() != t:
            p.write_text(t)
    return None


def prebuild(ctx):
    generate()
    return ctx.coq_build_cached(FILES)


def part_preparse(ctx):
    import warnings
    import vyper
    warnings.simplefilter("ignore")
    rejected = generate()
    b = ctx.coq_build_cached(FILES)
    gen_ready = rejected is None and (COQ / "C20P" / "GenPreParse.vo").exists() and \
        (b["ok"] or "GenPreParse" not in str(b.get("file", "")))
    model_ready = (COQ / "C20P" / "Harness.vo").exists()
    found = 0
    dist = {}

    def count(k):
        dist[k] = dist.get(k, 0) + 1

    def failing(key, name, detail):
        nonlocal found
        found += 1
        if found <= 6:
            ctx.violation("failing-input", name, detail, key=key)

    saved_version = vyper.__version__
    vyper.__version__ = "0.4.3"       # the checkout has no release version; give version pragmas a realistic target
    try:
        srcs = corpus_sources(ctx)
        n_text = 40 if ctx.tier == "quick" else 600
        lits = literal_texts(ctx, 25 if ctx.tier == "quick" else 300)
        texts = srcs + [(n, s) for n, s in REPLAYS] + lits + text_variants(ctx, srcs + lits[:10], n_text)
        # ---- (4) search: whole front end on texts
        outcomes = {}
        for name, src in texts:
            o = parse_outcome_full(src)
            outcomes[name] = o
            count("parse:" + (o["kind"] if o["kind"] != "user" else "user:" + o["cls"]))
            if o["kind"] == "internal":
                key = f"C20:{o['cls']}:{o['frame']}"
                failing(key, f"parse_to_ast raises {o['cls']} (not a user-facing diagnostic)",
                        {"source": src, "exception": o["cls"], "message": o["msg"], "frame": o["frame"], "origin": name})
            elif o["kind"] == "user" and name.startswith("literals/"):
                failing(f"C20:valid-text-rejected:{o['cls']}:{o['frame']}",
                        f"a text that is valid by construction is rejected with {o['cls']}: {o['msg']}",
                        {"source": src, "exception": o["cls"], "message": o["msg"], "frame": o["frame"], "origin": name})
        # ---- the text the pre-parser is really given (parse.py normalises first); must be the allowed normalisation
        pp_texts = []
        for name, src in texts:
            got = pre_parser_input(src)
            nobom = src[1:] if src[:1] == "\ufeff" else src
            allowed = (src, nobom, re.sub(r"\r(?!\n)", "\n", src), spec_norm(src))
            if got is not None and got not in allowed:
                i = next((k for k, (a, c) in enumerate(zip(got, spec_norm(src))) if a != c), min(len(got), len(spec_norm(src))))
                failing("C20:normalisation", "parse_to_ast hands the pre-parser a text that is not the source up to BOM / lone CR "
                        f"(first difference at offset {i}: {got[i:i + 12]!r} vs {spec_norm(src)[i:i + 12]!r})",
                        {"source": src, "origin": name, "offset": i})
            pp_texts.append((name, got if got is not None else src))
        # ---- AST-level tie: literal nodes carry their own text and value
        n_lit_texts = n_lit_nodes_bad = 0
        for name, src in texts:
            if outcomes[name]["kind"] != "ok":
                continue
            pr = literal_problems(src)
            if pr is None:
                continue
            n_lit_texts += 1
            if pr:
                n_lit_nodes_bad += len(pr)
                failing(f"C20:literal-span:{pr[0][0]}", "a literal node does not carry its own source text / value: " + pr[0][1],
                        {"source": src, "problems": [m for _, m in pr[:6]], "origin": name})
        # ---- adjusted_span_is_original_span on the real output (Search), and its layout model / hypothesis (tie)
        n_span_texts = n_span_tokens = 0
        span_cases = []
        for name, src in pp_texts:
            sp = span_problems(src)
            if sp is None:
                continue
            n_span_texts += 1
            n_span_tokens += sp[0]
            if sp[1]:
                failing("C20:adjusted-span:token", "adjustments do not map a token of the rewritten text to its own original text: "
                        + sp[1][0], {"source": src, "problems": sp[1][:6], "origin": name})
            toks = [tok4(t) for t in source_tokens(src)]
            if len(toks) <= 700 and len(span_cases) < (60 if ctx.tier == "quick" else 600):
                span_cases.append((name, toks, [(a, b) for _, a, b in sp[2]]))
        span_bad = []
        if (COQ / "C20P" / "SpanProofs.vo").exists():
            for (name, toks, exp), v in zip(span_cases, span_model_tie(span_cases)):
                if v != "0":
                    span_bad.append((name, v, toks, exp))
        # ---- (3) tie on token streams
        cases = []
        n_src = 0
        for name, src in pp_texts + [(n + "/raw", s) for (n, s), (_, p) in zip(texts, pp_texts) if s != p]:
            try:
                toks = [tok4(t) for t in source_tokens(src)]
            except Exception as e:  # noqa: tokenizer errors are turned into SyntaxException by PreParser.parse
                count("tokenizer:" + type(e).__name__)
                continue
            if len(toks) > (900 if ctx.tier == "quick" else 2500):
                continue
            n_src += 1
            cases.append((name, toks, name.startswith("c18/") and name.endswith(".vyi")))
        if ctx.tier == "quick" and len(cases) > 80:     # budget: every replay, then a seeded sample of the other texts
            fixed = {n for n, _ in REPLAYS}
            keep = [c for c in cases if c[0].split("/raw")[0] in fixed]
            rest = [c for c in cases if c[0].split("/raw")[0] not in fixed]
            ctx.rng("c20p-cap").shuffle(rest)
            cases = keep + rest[:max(0, 80 - len(keep))]
            n_src = len(cases)
        n_streams = 90 if ctx.tier == "quick" else 1500
        for kind, toks in gen_streams(ctx, n_streams):
            cases.append((kind, toks, False))
        model_cases = []
        for name, toks, is_if in cases:
            tinfo = [pytok.TokenInfo(t[0], t[1], t[2], t[3], "") for t in toks]
            real = real_machine(tinfo, is_if)
            kindname = name.split("/")[0]
            count(f"stream:{kindname}:" + (real[0] if real[0] != "user" else real[1]))
            for t in toks:
                if t[0] == pytok.NAME and t[1] in ("for", "x", "log", "struct", "event", "flag", "interface", "extcall", "staticcall"):
                    count("tok:" + t[1])
                elif t[0] == pytok.COMMENT and "pragma" in t[1] or t[0] == pytok.COMMENT and "@version" in t[1]:
                    count("tok:pragma-comment")
            if real[0] == "internal":
                failing(f"C20:{real[1]}:{real[3]}", f"PreParser._parse raises {real[1]} on a token stream",
                        {"tokens": [list(t) for t in toks][:200], "exception": real[1], "message": real[2], "frame": real[3]})
            model_cases.append((toks, is_if, real))
        mismatches = []
        if model_ready:
            for use_gen in ([False, True] if gen_ready else [False]):
                verdicts = run_model(model_cases, "c20p" + ("g" if use_gen else "h"), use_gen)
                for (name, toks, _), (_, _, real), v in zip(cases, model_cases, verdicts):
                    if v != "ok":
                        mismatches.append((name, v, use_gen, toks, real))
        n_book, bad_book = book_tie(texts, outcomes) if (COQ / "C20P" / "Book.vo").exists() else (0, [])
    finally:
        vyper.__version__ = saved_version

    shape = book_shape_guard()
    if bad_book and not found:
        name, src, why, real = bad_book[0]
        ctx.violation("correspondence-broken", "parse.py bookkeeping disagrees with its model (Book.v): " + why,
                      {"origin": name, "source": src, "real": str(real), "n_mismatches": len(bad_book)})
    if span_bad and not found:
        name, v, toks, exp = span_bad[0]
        ctx.violation("correspondence-broken",
                      "the tokenizer stream does not satisfy wf_positions (hypothesis of adjusted_span_is_original_span)" if v == "1"
                      else "layout model of the rewritten text (SpanProofs.spans) disagrees with tokenize(untokenize(result))",
                      {"origin": name, "verdict": v, "tokens": [list(t) for t in toks][:120], "rewritten_spans": exp[:120],
                       "n_mismatches": len(span_bad)})
    if shape and not found:
        ctx.violation("translator-rejected", "parse.py bookkeeping no longer has the modelled shape: " + shape[0], {"problems": shape})
    if not b["ok"] and rejected is None and not found:
        ctx.violation("theorem-broken", f"{b.get('failed_lemma')} in {b['file']}",
                      {"theorem": b.get("failed_lemma"), "file": b["file"], "coq_output": b["out"][-1500:],
                       "model_mismatches": [(m[0], m[1]) for m in mismatches[:5]]})
    elif mismatches and not found:
        name, v, use_gen, toks, real = mismatches[0]
        ctx.violation("correspondence-broken",
                      f"{'regenerated' if use_gen else 'hand'} pre-parser model disagrees with PreParser._parse on: {v}",
                      {"origin": name, "component": v, "tokens": [list(t) for t in toks][:120],
                       "real": str(real)[:1500], "n_mismatches": len(mismatches)})
    if rejected is not None and not found:
        ctx.violation("translator-rejected", "cannot translate vyper/ast/pre_parser.py: " + rejected, {"error": rejected})
    n = len(texts) + n_book + len(model_cases) * (2 if gen_ready else 1) + n_span_texts + len(span_cases)
    ctx.corr["preparse"] = {"texts_parsed": len(texts), "source_token_streams": n_src, "generated_token_streams": len(model_cases) - n_src,
                            "model_comparisons": len(model_cases) * (2 if gen_ready else 1), "mismatches": len(mismatches), "literal_tie_texts": n_lit_texts, "literal_tie_bad_nodes": n_lit_nodes_bad,
                            "span_search_texts": n_span_texts, "span_search_tokens": n_span_tokens,
                            "span_model_cases": len(span_cases), "span_model_mismatches": len(span_bad), "bookkeeping_cases": n_book, "bookkeeping_mismatches": len(bad_book),
                            "regenerated_model_used": bool(gen_ready), "input_distribution": dict(sorted(dist.items()))}
    ctx.trusted += ["tools/vlib/c20_preparse2coq.py (CPS translator of the pre-parser methods; validated by the per-run differential)",
                    "coq/C20P/Pragma.v: hand model of the COMMENT block (exact differential); packaging.SpecifierSet abstracted"]
    ctx.assumptions += ["tokens are abstracted to (type, string, start, end); tokenize()/untokenize()/ast.parse are outside the model",
                        "annotate_python_ast's consumption of the annotations / hex locations is covered by Search only"]
    return n
