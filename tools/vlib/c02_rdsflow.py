"""C02: returndata-flow skeletons of the IR the legacy code generator emits for pre-Cancun targets (coq/C02/RdsFlow.v).

`skeleton(ir)` walks an IRnode tree in the evaluation order of vyper/ir/compile_ir.py and keeps what matters for the
returndata buffer: reads (RETURNDATASIZE/RETURNDATACOPY), batch memory copies through the identity precompile
(`staticcall gas 4 ...`), other calls/creates, and the control structure around them.  Fail closed: an IR node that is
neither an EVM opcode nor one of the pseudo-opcodes handled below raises Unknown (reported as translator-rejected).

Conservative abstractions (trusted): a `label` is entered with an unknown buffer state (rendered as a KCopy in front of its
body: internal functions, shared return sequences, return points of internal calls); `goto`/`exit_to`/`djump` leave the
current path; a loop containing break/continue is entered and left with an unknown state.
"""
import multiprocessing as mp

NOP, RDS, COPY, CALL = ("nop",), ("rds",), ("copy",), ("call",)

CALL_OPS = {"call", "callcode", "delegatecall", "staticcall", "create", "create2"}
RDS_OPS = {"returndatasize", "returndatacopy"}
# pseudo opcodes of the IR (compile_ir.py): evaluated like an opcode (arguments last to first), no call inside
PSEUDO_OPS = {"dload", "dloadbytes", "iload", "istore", "istorebytes", "le", "ge", "sle", "sge", "ne", "ceil32", "sha3_64",
              "assert", "assert_unreachable", "set", "mzero_dummy"}
LEAVES = {"pass", "dummy", "break", "continue", "cleanup_repeat", "debugger", "pc_debugger", "var_list", "data", "unique_symbol",
          "symbol", "exit_repeater"}


class Unknown(Exception):
    pass


def seq(*ks):
    ks = [k for k in ks if k != NOP]
    if not ks:
        return NOP
    out = ks[-1]
    for k in reversed(ks[:-1]):
        out = ("seq", k, out)
    return out


def _has_loop_jump(node):
    if node.value in ("break", "continue"):
        return True
    if node.value == "repeat":
        return False      # belongs to the inner loop
    return any(_has_loop_jump(a) for a in node.args)


def skeleton(node, opcodes=None, stats=None, src=None):
    if opcodes is None:
        from vyper.evm.opcodes import get_opcodes
        opcodes = {k.lower() for k in get_opcodes()}
    v = node.value
    args = node.args
    src = getattr(getattr(node, "ast_source", None), "node_source_code", None) or src
    rec = lambda n: skeleton(n, opcodes, stats, src)
    if isinstance(v, int) or isinstance(v, bytes):
        return NOP
    if not isinstance(v, str):
        raise Unknown(f"IR node value of type {type(v).__name__}")
    lv = v.lower()
    if lv in RDS_OPS:
        if stats is not None:
            stats["rds"] = stats.get("rds", 0) + 1
        return seq(*[rec(a) for a in reversed(args)], ("rds", (src or "").strip()[:160]))
    if lv in CALL_OPS:
        is_copy = lv == "staticcall" and len(args) == 6 and args[1].value == 4
        if stats is not None:
            stats["copy" if is_copy else "call"] = stats.get("copy" if is_copy else "call", 0) + 1
        return seq(*[rec(a) for a in reversed(args)], COPY if is_copy else CALL)
    if v == "seq":
        return seq(*[rec(a) for a in args])
    if v == "with":
        return seq(rec(args[1]), rec(args[2]))
    if v == "if":
        c, t = rec(args[0]), rec(args[1])
        e = rec(args[2]) if len(args) == 3 else NOP
        if t == NOP and e == NOP:
            return c
        return seq(c, ("if", NOP, t, e))
    if v == "repeat":
        if len(args) != 5:
            raise Unknown("repeat with != 5 arguments")
        head = [rec(args[1]), rec(args[2])] + ([rec(args[3])] if args[2] is not args[3] else [])
        body = rec(args[4])
        if body == NOP:
            return seq(*head)
        if _has_loop_jump(args[4]):
            return seq(*head, ("repeat", seq(COPY, body)), COPY)
        return seq(*head, ("repeat", body))
    if v == "select":
        return seq(rec(args[2]), rec(args[1]), rec(args[0]))
    if v == "sha3_64":
        return seq(rec(args[0]), rec(args[1]))
    if v == "set":
        return rec(args[1])
    if v in ("goto", "exit_to"):
        return seq(*[rec(a) for a in reversed(args[1:])])
    if v == "djump":
        return rec(args[0])
    if v == "label":
        if stats is not None:
            stats["labels"] = stats.get("labels", 0) + 1
        return seq(COPY, rec(args[2]))
    if v == "deploy":
        return NOP          # the runtime code is a skeleton of its own
    if v in LEAVES:
        return NOP
    if lv in opcodes or v in PSEUDO_OPS:
        return seq(*[rec(a) for a in reversed(args)])
    if not args:
        return NOP          # `with` variable, label parameter, loop counter
    raise Unknown(f"IR node '{v}' with {len(args)} arguments")


def py_chk(k, d, where=None):
    """the analysis of RdsFlow.v (python mirror, used to name the offending skeleton; the Coq run is the authority)"""
    t = k[0]
    if t == "nop":
        return d
    if t == "rds":
        if d:
            if where is not None and len(k) > 1:
                where.append(k[1])
            return None
        return False
    if t == "copy":
        return True
    if t == "call":
        return False
    if t == "seq":
        y = py_chk(k[1], d, where)
        return None if y is None else py_chk(k[2], y, where)
    if t == "if":
        y = py_chk(k[1], d, where)
        if y is None:
            return None
        p, q = py_chk(k[2], y, where), py_chk(k[3], y, where)
        return None if p is None or q is None else (p or q)
    if t == "repeat":
        y = py_chk(k[1], d, where)
        if y is None:
            return None
        return None if py_chk(k[1], d or y, where) is None else (d or y)
    raise ValueError(t)


def count(k, what):
    if k[0] == what:
        return 1
    return sum(count(x, what) for x in k[1:] if isinstance(x, tuple))


def render(k):
    t = k[0]
    if t == "nop":
        return "KNop"
    if t == "rds":
        return "KRds"
    if t == "copy":
        return "KCopy"
    if t == "call":
        return "KCall"
    if t == "seq":
        # flatten the right spine to keep the nesting depth of the printed term small
        parts = []
        while k[0] == "seq":
            parts.append(render(k[1]))
            k = k[2]
        parts.append(render(k))
        return "(sq [" + "; ".join(parts) + "])"
    if t == "if":
        return f"(KIf {render(k[1])} {render(k[2])} {render(k[3])})"
    if t == "repeat":
        return f"(KRepeat {render(k[1])})"
    raise ValueError(t)


HEADER = """(* GENERATED by tools/vlib/c02_rdsflow.py from the IR the legacy code generator of the current /repo tree emits for
   pre-Cancun targets (corpus contracts and the dynamic-member family of this run).  Do not edit. *)
From Coq Require Import List String.
From Verif Require Import C02.RdsFlow.
Import ListNotations.
Open Scope string_scope.

Fixpoint sq (l : list sk) : sk := match l with [] => KNop | [x] => x | x :: r => KSeq x (sq r) end.

"""


def render_file(named):
    rows = [f'  ("{n}", {render(k)})' for n, k in named]
    return HEADER + "Definition skeletons : list (string * sk) := [\n" + ";\n".join(rows) + "\n].\n"


def _one(args):
    name, src, venom, level, evm, formats = args
    from vlib.configs import Config, compile_src
    try:
        out = compile_src(src, Config(venom, level, evm), formats=formats)
    except Exception as e:
        return name, "compile", f"{type(e).__name__}: {str(e)[:200]}", None
    try:
        st = {}
        k = seq(*[skeleton(out[f], None, st) for f in formats])
        return name, "ok", k, st
    except Unknown as e:
        return name, "unknown", str(e), None


def skeletons(jobs, procs=4):
    """jobs: [(name, src, level, evm)] -> [(name, status, skeleton | message, stats)]"""
    work = [(n, s, False, lvl, evm, ("ir_runtime", "ir")) for n, s, lvl, evm in jobs]
    with mp.get_context("fork").Pool(procs) as pool:
        return pool.map(_one, work, chunksize=1)
