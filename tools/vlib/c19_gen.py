"""C19: generator of Vyper type trees / contracts, with renderers to Vyper source, Coq terms (coq/C19/AbiOut.v)
and python values (in eth_abi's decoded normal form).

Type trees are tuples:
 ("bool",) ("address",) ("int", signed, bits) ("decimal",) ("bytesM", m) ("bytes", n) ("string", n)
 ("flag", name, nmembers) ("iface", name) ("sarr", t, n) ("darr", t, n) ("tuple", [ts]) ("struct", name, [names], [ts])
Public variable types: ("val", t) | ("map", keytype, ptype)
"""

FLAG_MEMBERS = ["WRITE", "READ", "EXEC", "ADMIN"]   # deliberately not in alphabetical order
ADDR_LIT = "0x0000000000000000000000000000000000000123"


def qs(s):
    return '"' + s + '"'


def coq_ty(t):
    k = t[0]
    if k == "bool":
        return "VBool"
    if k == "address":
        return "VAddress"
    if k == "int":
        return f"(VInt {'true' if t[1] else 'false'} {t[2]})"
    if k == "decimal":
        return "VDecimal"
    if k == "bytesM":
        return f"(VBytesM {t[1]})"
    if k == "bytes":
        return f"(VBytes {t[1]})"
    if k == "string":
        return f"(VString {t[1]})"
    if k == "flag":
        return f"(VFlag {qs(t[1])})"
    if k == "iface":
        return f"(VIface {qs(t[1])})"
    if k == "sarr":
        return f"(VSArr {coq_ty(t[1])} {t[2]})"
    if k == "darr":
        return f"(VDArr {coq_ty(t[1])} {t[2]})"
    if k == "tuple":
        return "(VTuple [" + "; ".join(coq_ty(x) for x in t[1]) + "])"
    if k == "struct":
        return (f"(VStruct {qs(t[1])} [" + "; ".join(qs(n) for n in t[2]) + "] [" +
                "; ".join(coq_ty(x) for x in t[3]) + "])")
    raise ValueError(t)


def coq_pty(p):
    if p[0] == "val":
        return f"(PVal {coq_ty(p[1])})"
    return f"(PMap {coq_ty(p[1])} {coq_pty(p[2])})"


def ann(t):
    k = t[0]
    if k in ("bool", "address", "decimal"):
        return k
    if k == "int":
        return f"{'int' if t[1] else 'uint'}{t[2]}"
    if k == "bytesM":
        return f"bytes{t[1]}"
    if k == "bytes":
        return f"Bytes[{t[1]}]"
    if k == "string":
        return f"String[{t[1]}]"
    if k in ("flag", "iface", "struct"):
        return t[1]
    if k == "sarr":
        return f"{ann(t[1])}[{t[2]}]"
    if k == "darr":
        return f"DynArray[{ann(t[1])}, {t[2]}]"
    if k == "tuple":
        return "(" + ", ".join(ann(x) for x in t[1]) + ")"
    raise ValueError(t)


def pann(p):
    if p[0] == "val":
        return ann(p[1])
    return f"HashMap[{ann(p[1])}, {pann(p[2])}]"


def contains(t, kinds):
    if t[0] in kinds:
        return True
    if t[0] in ("sarr", "darr"):
        return contains(t[1], kinds)
    if t[0] == "tuple":
        return any(contains(x, kinds) for x in t[1])
    if t[0] == "struct":
        return any(contains(x, kinds) for x in t[3])
    return False


def int_bounds(signed, bits):
    return (-(2 ** (bits - 1)), 2 ** (bits - 1) - 1) if signed else (0, 2 ** bits - 1)


def rand_int(rnd, signed, bits):
    lo, hi = int_bounds(signed, bits)
    c = rnd.random()
    if c < 0.25:
        return rnd.choice([lo, hi, 0, 1, hi - 1, lo + 1])
    if c < 0.5:
        return rnd.randint(max(lo, -100), min(hi, 100))
    return rnd.randint(lo, hi)


def value(t, rnd, min_len=0):
    """A random in-range python value of type t (eth_abi decoded normal form)."""
    k = t[0]
    if k == "bool":
        return rnd.random() < 0.5
    if k in ("address", "iface"):
        return "0x" + bytes(rnd.randrange(256) for _ in range(20)).hex()
    if k == "int":
        return rand_int(rnd, t[1], t[2])
    if k == "decimal":
        return rand_int(rnd, True, 168)
    if k == "bytesM":
        return bytes(rnd.randrange(256) for _ in range(t[1]))
    if k == "bytes":
        return bytes(rnd.randrange(256) for _ in range(rnd.randint(0, t[1])))
    if k == "string":
        return "".join(rnd.choice("abcXYZ 09_") for _ in range(rnd.randint(0, t[1])))
    if k == "flag":
        return rnd.randint(1, 2 ** t[2] - 1)
    if k == "sarr":
        return tuple(value(t[1], rnd, min_len) for _ in range(t[2]))
    if k == "darr":
        return tuple(value(t[1], rnd, min_len) for _ in range(rnd.randint(min(min_len, t[2]), t[2])))
    if k == "tuple":
        return tuple(value(x, rnd, min_len) for x in t[1])
    if k == "struct":
        return tuple(value(x, rnd, min_len) for x in t[3])
    raise ValueError(t)


def literal(t, rnd, in_array=False):
    """(vyper literal expression, python value); darrays get >= 1 element. No interface types."""
    k = t[0]
    if k == "bool":
        b = rnd.random() < 0.5
        return ("True" if b else "False"), b
    if k == "address":
        return ADDR_LIT, ADDR_LIT
    if k == "int":
        lo, hi = int_bounds(t[1], t[2])
        v = rnd.choice([lo, hi, rnd.randint(max(lo, -50), min(hi, 50))])
        return (str(v), v)
    if k == "decimal":
        n = rnd.randint(-500, 500)
        s = f"{'-' if n < 0 else ''}{abs(n) // 10}.{abs(n) % 10}"
        return s, n * 10 ** 9
    if k == "bytesM":
        b = bytes(rnd.randrange(256) for _ in range(t[1]))
        return "0x" + b.hex(), b
    if k == "bytes":
        # inside an array literal all members get the same length (the front end does not unify nested
        # string literals of different lengths)
        n = min(t[1], 2) if in_array else rnd.randint(0, min(t[1], 6))
        s = "".join(rnd.choice("abcxyz") for _ in range(n))
        return 'b"' + s + '"', s.encode()
    if k == "string":
        n = min(t[1], 2) if in_array else rnd.randint(0, min(t[1], 6))
        s = "".join(rnd.choice("abcxyz") for _ in range(n))
        return '"' + s + '"', s
    if k == "flag":
        i = rnd.randrange(t[2])
        return f"{t[1]}.{FLAG_MEMBERS[i]}", 2 ** i
    if k == "sarr":
        xs = [literal(t[1], rnd, True) for _ in range(t[2])]
        return "[" + ", ".join(x[0] for x in xs) + "]", tuple(x[1] for x in xs)
    if k == "darr":
        xs = [literal(t[1], rnd, True) for _ in range(rnd.randint(1, t[2]))]
        return "[" + ", ".join(x[0] for x in xs) + "]", tuple(x[1] for x in xs)
    if k == "tuple":
        xs = [literal(x, rnd, in_array) for x in t[1]]
        return "(" + ", ".join(x[0] for x in xs) + ")", tuple(x[1] for x in xs)
    if k == "struct":
        xs = [literal(x, rnd, in_array) for x in t[3]]
        return f"{t[1]}(" + ", ".join(f"{n}={x[0]}" for n, x in zip(t[2], xs)) + ")", tuple(x[1] for x in xs)
    raise ValueError(t)


class Gen:
    def __init__(self, rnd, decimals=True):
        self.rnd = rnd
        self.decimals = decimals
        self.structs = []
        self.flags = [("flag", "F0", rnd.randint(1, 4)), ("flag", "F1", rnd.randint(2, 3))]
        self.ifaces = [("iface", "I0")]

    def prim(self, allow_flag=True):
        r = self.rnd
        c = r.random()
        if c < 0.30:
            return ("int", r.random() < 0.5, 8 * r.randint(1, 32))
        if c < 0.40:
            return ("int", False, 256)
        if c < 0.50:
            return ("bool",)
        if c < 0.60:
            return ("address",)
        if c < 0.72:
            return ("bytesM", r.randint(1, 32))
        if c < 0.80 and self.decimals:
            return ("decimal",)
        if c < 0.90 and allow_flag:
            return r.choice(self.flags)
        if c < 0.95:
            return r.choice(self.ifaces)
        return ("int", True, 128)

    def bytestr(self):
        r = self.rnd
        return (r.choice(["bytes", "string"]), r.choice([1, 2, 5, 31, 32, 33, 40]))

    def new_struct(self, depth):
        r = self.rnd
        name = f"S{len(self.structs)}"
        self.structs.append(None)  # reserve
        n = r.randint(1, 3)
        names = [f"{'zma'[j]}{j}" for j in range(n)]   # z0, m1, a2: declaration order is not alphabetical order
        ts = []
        for _ in range(n):
            if r.random() < 0.1:
                ts.append(("tuple", [self.prim(), self.vtype(0)]))
            else:
                ts.append(self.vtype(depth - 1))
        s = ("struct", name, names, ts)
        self.structs[int(name[1:])] = s
        return s

    def struct(self, depth):
        done = [s for s in self.structs if s is not None]
        if done and (self.rnd.random() < 0.5 or len(self.structs) >= 4):
            return self.rnd.choice(done)
        return self.new_struct(depth)

    def elem(self, depth, dyn):
        r = self.rnd
        c = r.random()
        if depth <= 0 or c < 0.45:
            if dyn and c < 0.12:
                return self.bytestr()
            return self.prim(allow_flag=False)
        if c < 0.6:
            return ("sarr", self.elem(depth - 1, False), r.randint(1, 3))
        if c < 0.75:
            return ("darr", self.elem(depth - 1, True), r.randint(1, 3))
        return self.struct(depth)

    def vtype(self, depth):
        r = self.rnd
        c = r.random()
        if depth <= 0 or c < 0.35:
            return self.bytestr() if r.random() < 0.25 else self.prim()
        if c < 0.55:
            return ("sarr", self.elem(depth - 1, False), r.randint(1, 3))
        if c < 0.75:
            return ("darr", self.elem(depth - 1, True), r.randint(1, 3))
        return self.struct(depth)

    def keytype(self):
        return self.bytestr() if self.rnd.random() < 0.2 else self.prim()

    def ptype(self):
        r = self.rnd
        p = ("val", self.vtype(2))
        for _ in range(r.choice([0, 0, 1, 1, 2])):
            p = ("map", self.keytype(), p)
        return p


MUTS = ["pure", "view", "nonpayable", "payable"]


def gen_contract(rnd, decimals=True, with_lib=True):
    """Returns dict(src=..., funcs=[...], pubvars=[...], events, errors, ctor) -- the generator's knowledge."""
    g = Gen(rnd, decimals)
    pubvars = []
    for i in range(rnd.randint(2, 4)):
        pubvars.append({"name": f"v{i}", "p": g.ptype(), "kind": "storage"})
    # a public constant and an immutable
    for i in range(2):
        for _ in range(20):
            t = g.vtype(1)
            if not contains(t, ("iface", "tuple", "flag") + (("struct",) if i == 0 else ())):
                break
        else:
            t = ("int", False, 256)
        if i == 0:
            e, v = literal(t, rnd)
            pubvars.append({"name": "K0", "p": ("val", t), "kind": "constant", "lit": e, "pyval": v})
        else:
            pubvars.append({"name": "im0", "p": ("val", t), "kind": "immutable"})
    funcs, events, errors = [], [], []
    pragma_nonre = rnd.random() < 0.3
    nf = rnd.randint(3, 5)
    for i in range(nf):
        mut = MUTS[i % 4] if i < 4 else rnd.choice(MUTS)
        npos = rnd.randint(0, 3)
        nkw = rnd.choice([0, 0, 1, 2, 3])
        pos, kws = [], []
        for j in range(npos):
            if rnd.random() < 0.12:
                t = ("tuple", [g.prim(), g.vtype(1)])
            else:
                t = g.vtype(2)
            pos.append((f"a{j}", t))
        for j in range(nkw):
            for _ in range(20):
                t = g.vtype(2)
                if not contains(t, ("iface", "tuple", "struct", "flag")):
                    break
            else:
                t = ("bool",)
            e, v = literal(t, rnd)
            kws.append((f"k{j}", t, e, v))
        allargs = [(n, t) for n, t in pos] + [(n, t) for n, t, _, _ in kws]
        # return: kwargs preferred (shows defaults), up to two components
        cands = [a for a in allargs]
        ret = []
        if cands and rnd.random() < 0.9:
            k = rnd.choice([1, 1, 2]) if len(cands) >= 2 else 1
            pick = (kws and [(kws[-1][0], kws[-1][1])] or []) + rnd.sample(cands, min(len(cands), 2))
            seen = []
            for n, t in pick:
                if n not in [x[0] for x in seen]:
                    seen.append((n, t))
            ret = seen[:k]
            if len(ret) == 2 and any(t[0] == "tuple" for _, t in ret):
                ret = ret[:1]
        ev = None
        if mut in ("nonpayable", "payable") and rnd.random() < 0.8 and allargs:
            evargs = []
            for n, t in rnd.sample(allargs, min(len(allargs), rnd.randint(1, 3))):
                if t[0] == "tuple":
                    continue
                indexed = t[0] in ("bool", "address", "int", "bytesM", "decimal", "flag", "iface") and rnd.random() < 0.5
                if sum(1 for x in evargs if x[2]) >= 3:
                    indexed = False
                evargs.append((n, t, indexed))
            if evargs:
                ev = {"name": f"E{len(events)}", "args": evargs}
                events.append(ev)
        wrap1 = len(ret) == 1 and ret[0][1][0] != "tuple" and rnd.random() < 0.25
        nonre = (not pragma_nonre) and mut != "pure" and rnd.random() < 0.45
        funcs.append({"name": f"f{i}", "mut": mut, "pos": pos, "kws": kws, "ret": ret, "event": ev, "kind": "echo",
                      "wrap1": wrap1, "nonreentrant": nonre})
    # an error-raising function
    eargs = []
    for j in range(rnd.randint(0, 3)):
        for _ in range(20):
            t = g.vtype(1)
            if not contains(t, ("tuple",)):
                break
        else:
            t = ("bool",)
        eargs.append((f"x{j}", t))
    errors.append({"name": "R0", "args": eargs})
    funcs.append({"name": "bad0", "mut": "nonpayable", "pos": eargs, "kws": [], "ret": [], "event": None,
                  "kind": "raise", "error": "R0"})
    # setters
    for pv in pubvars:
        if pv["kind"] != "storage":
            continue
        keys, p = [], pv["p"]
        while p[0] == "map":
            keys.append(p[1])
            p = p[2]
        pv["keys"], pv["vt"] = keys, p[1]
        funcs.append({"name": "set_" + pv["name"], "mut": "nonpayable",
                      "pos": [(f"k{j}", k) for j, k in enumerate(keys)] + [("val", p[1])], "kws": [], "ret": [],
                      "event": None, "kind": "setter", "var": pv["name"], "nkeys": len(keys)})
    # optionally: a library module whose external functions / public variable are re-exported (`exports:`)
    lib = None
    if rnd.random() < 0.5 and with_lib:
        lfuncs = []
        for i in range(rnd.randint(1, 2)):
            mut = rnd.choice(["pure", "view", "nonpayable", "payable"])
            pos, kws = [], []
            for j in range(rnd.randint(1, 3)):
                for _ in range(30):
                    t = g.vtype(2)
                    if not contains(t, ("iface", "tuple", "struct", "flag")):
                        break
                else:
                    t = ("int", False, 256)
                pos.append((f"a{j}", t))
            if rnd.random() < 0.5:
                for _ in range(30):
                    t = g.vtype(1)
                    if not contains(t, ("iface", "tuple", "struct", "flag")):
                        break
                else:
                    t = ("bool",)
                e, v = literal(t, rnd)
                kws.append(("k0", t, e, v))
            allargs = pos + [(k[0], k[1]) for k in kws]
            ret = [allargs[-1]] + ([allargs[0]] if len(allargs) > 1 and rnd.random() < 0.5 else [])
            lfuncs.append({"name": f"lib_f{i}", "mut": mut, "pos": pos, "kws": kws, "ret": ret, "event": None, "kind": "echo",
                           "in_lib": True})
        lib = {"funcs": lfuncs, "var": "lib_total"}
        funcs += lfuncs
        pubvars.append({"name": "lib_total", "p": ("val", ("int", False, 256)), "kind": "exported"})
    ctor_payable = rnd.random() < 0.5
    imm = [pv for pv in pubvars if pv["kind"] == "immutable"][0]
    ctor = {"name": "__init__", "mut": "payable" if ctor_payable else "nonpayable",
            "pos": [("i0", imm["p"][1])], "kws": [], "ret": [], "kind": "ctor"}

    out = []
    if pragma_nonre:
        out.append("# pragma nonreentrancy on\n")
    for f in g.flags:
        out.append(f"flag {f[1]}:\n" + "".join(f"    {FLAG_MEMBERS[j]}\n" for j in range(f[2])))
    out.append("interface I0:\n    def foo() -> uint256: view\n")
    for s in g.structs:
        out.append(f"struct {s[1]}:\n" + "".join(f"    {n}: {ann(t)}\n" for n, t in zip(s[2], s[3])))
    for ev in events:
        out.append(f"event {ev['name']}:\n" + "".join(
            f"    {n}: {'indexed(' + ann(t) + ')' if ix else ann(t)}\n" for n, t, ix in ev["args"]))
    for er in errors:
        out.append(f"error {er['name']}:\n" + ("".join(f"    {n}: {ann(t)}\n" for n, t in er["args"]) or "    pass\n"))
    for pv in pubvars:
        if pv["kind"] == "storage":
            out.append(f"{pv['name']}: public({pann(pv['p'])})\n")
        elif pv["kind"] == "constant":
            out.append(f"{pv['name']}: public(constant({pann(pv['p'])})) = {pv['lit']}\n")
        elif pv["kind"] == "exported":
            pass  # declared in lib0.vy
        else:
            out.append(f"{pv['name']}: public(immutable({pann(pv['p'])}))\n")
    out.append("counter: uint256\n")
    out.append(f"@deploy\n{'@payable' + chr(10) if ctor_payable else ''}def __init__(i0: {ann(imm['p'][1])}):\n"
               f"    self.{imm['name']} = i0\n")
    libsrc = None
    if lib is not None:
        names = [f["name"] for f in lib["funcs"]] + [lib["var"]]
        style = rnd.randrange(3)
        exports = "lib0.__interface__" if style == 0 else ("(" + ", ".join("lib0." + n for n in names) + ")" if style == 1 else None)
        if exports is None:
            out.insert(1 if pragma_nonre else 0, "import lib0\ninitializes: lib0\n" + "".join(f"exports: lib0.{n}\n" for n in names))
        else:
            out.insert(1 if pragma_nonre else 0, f"import lib0\ninitializes: lib0\nexports: {exports}\n")
    for which in ("main", "lib"):
      chunk = []
      for f in funcs:
          if bool(f.get("in_lib")) != (which == "lib"):
              continue
          decos = "@external\n" + (f"@{f['mut']}\n" if f["mut"] != "nonpayable" else "") + ("@nonreentrant\n" if f.get("nonreentrant") else "")
          args = [f"{n}: {ann(t)}" for n, t in f["pos"]] + [f"{n}: {ann(t)} = {e}" for n, t, e, _ in f["kws"]]
          rett = ""
          if f["ret"]:
              rett = " -> " + (ann(f["ret"][0][1]) if len(f["ret"]) == 1 else "(" + ", ".join(ann(t) for _, t in f["ret"]) + ")")
              if f.get("wrap1"):
                  rett = " -> (" + ann(f["ret"][0][1]) + ",)"
          body = []
          if f["kind"] == "echo":
              if f["mut"] in ("nonpayable", "payable"):
                  body.append("self.lib_total += 1" if f.get("in_lib") else "self.counter += 1")
              if f["event"]:
                  body.append(f"log {f['event']['name']}(" + ", ".join(f"{n}={n}" for n, _, _ in f["event"]["args"]) + ")")
              if f["ret"]:
                  body.append("return " + (f"({f['ret'][0][0]},)" if f.get("wrap1") else ", ".join(n for n, _ in f["ret"])))
              if not body:
                  body.append("pass")
          elif f["kind"] == "raise":
              body.append("self.counter += 1")
              body.append(f"raise R0(" + ", ".join(f"{n}={n}" for n, _ in f["pos"]) + ")")
          elif f["kind"] == "setter":
              body.append(f"self.{f['var']}" + "".join(f"[k{j}]" for j in range(f["nkeys"])) + " = val")
          chunk.append(f"{decos}def {f['name']}({', '.join(args)}){rett}:\n" + "".join(f"    {b}\n" for b in body))
      if which == "main":
          out += chunk
      elif lib is not None:
          libsrc = "lib_total: public(uint256)\n\n" + "\n".join(chunk)
    src = "\n".join(out)
    return {"lib": libsrc, "pragma_nonreentrancy": pragma_nonre, "src": src, "funcs": funcs, "pubvars": pubvars, "events": events, "errors": errors, "ctor": ctor,
            "structs": [s for s in g.structs], "flags": g.flags}


def coq_fn(f):
    kind = {"ctor": "KConstructor"}.get(f["kind"], "KFunction")
    pos = "[" + "; ".join(f"({qs(n)}, {coq_ty(t)})" for n, t in f["pos"]) + "]"
    kws = "[" + "; ".join(f"({qs(k[0])}, {coq_ty(k[1])})" for k in f["kws"]) + "]"
    if not f["ret"]:
        ret = "None"
    elif len(f["ret"]) == 1 and f.get("wrap1"):
        ret = f"(Some (VTuple [{coq_ty(f['ret'][0][1])}]))"
    elif len(f["ret"]) == 1:
        ret = f"(Some {coq_ty(f['ret'][0][1])})"
    else:
        ret = "(Some (VTuple [" + "; ".join(coq_ty(t) for _, t in f["ret"]) + "]))"
    mut = f["mut"].capitalize()
    return f"(mkfn {qs(f['name'])} {kind} {pos} {kws} {ret} {mut})"


# ---------------------------------------------------------------- multi-module programs: events / errors of imported modules
ME_TYPES = [("int", False, 256), ("int", False, 8), ("int", True, 128), ("int", True, 256), ("bool",), ("address",), ("bytesM", 32),
            ("bytesM", 4), ("bytes", 40), ("string", 20), ("darr", ("int", False, 256), 3), ("sarr", ("int", False, 16), 2)]
ME_EVENT_NAMES = ["Ping", "Moved", "Note"]
ME_ERROR_NAMES = ["Denied", "Bad"]


def abi_canon(t):
    """canonical ABI type string of a generator type (independent of the compiler)"""
    k = t[0]
    if k == "int":
        return f"{'int' if t[1] else 'uint'}{t[2]}"
    if k in ("bool", "address"):
        return k
    if k == "bytesM":
        return f"bytes{t[1]}"
    if k == "bytes":
        return "bytes"
    if k == "string":
        return "string"
    if k == "sarr":
        return f"{abi_canon(t[1])}[{t[2]}]"
    if k == "darr":
        return f"{abi_canon(t[1])}[]"
    raise ValueError(t)


def gen_module_events(rnd):
    """A main contract importing 2..3 library modules.  The modules declare events and custom errors whose NAMES come from
    a small shared pool (so two modules regularly declare the same name with different -- or the same -- fields); module
    m<i> may reach module m<i+1> only transitively.  Every external function of main emits exactly one event or raises
    exactly one error, locally declared or of a module.  Returns the files, the calls and the set of events / errors which
    are declared locally or reachable (what the ABI must list)."""
    nmod = rnd.randint(2, 3)

    def fields(prefix, event):
        out = []
        for j in range(rnd.randint(0 if not event else 1, 3)):
            t = rnd.choice(ME_TYPES)
            ix = event and t[0] in ("int", "bool", "address", "bytesM") and rnd.random() < 0.4 and sum(1 for f in out if f[2]) < 3
            out.append((f"{prefix}{j}", t, ix))
        return out

    mods = []
    for m in range(nmod):
        decls = []
        for nm in rnd.sample(ME_EVENT_NAMES, rnd.randint(1, len(ME_EVENT_NAMES))):
            # sometimes the very same declaration as in the previous module
            prev = [d for d in (mods[-1]["decls"] if mods else []) if d["name"] == nm and d["kind"] == "event"]
            fs = prev[0]["fields"] if prev and rnd.random() < 0.25 else fields("a", True)
            decls.append({"kind": "event", "name": nm, "fields": fs, "mod": m})
        for nm in rnd.sample(ME_ERROR_NAMES, rnd.randint(1, len(ME_ERROR_NAMES))):
            prev = [d for d in (mods[-1]["decls"] if mods else []) if d["name"] == nm and d["kind"] == "error"]
            fs = prev[0]["fields"] if prev and rnd.random() < 0.25 else fields("x", False)
            decls.append({"kind": "error", "name": nm, "fields": fs, "mod": m})
        mods.append({"decls": decls, "name": f"m{m}"})
    local = []
    for i in range(rnd.randint(1, 2)):
        local.append({"kind": "event", "name": f"L{i}", "fields": fields("a", True), "mod": None})
    local.append({"kind": "error", "name": "LE0", "fields": fields("x", False), "mod": None})
    if rnd.random() < 0.5:
        local.append({"kind": "event", "name": "Unused", "fields": fields("a", True), "mod": None})   # declared, never emitted: listed

    def sig(d):
        return d["name"] + "(" + ",".join(abi_canon(t) for _, t, _ in d["fields"]) + ")"

    def params(d):
        return ", ".join(f"{n}: {ann(t)}" for n, t, _ in d["fields"])

    def kwargs(d):
        return ", ".join(f"{n}={n}" for n, _, _ in d["fields"])

    def names(d):
        return ", ".join(n for n, _, _ in d["fields"])

    def decl_src(d):
        if d["kind"] == "event":
            return f"event {d['name']}:\n" + ("".join(f"    {n}: {'indexed(' + ann(t) + ')' if ix else ann(t)}\n" for n, t, ix in d["fields"])
                                              or "    pass\n")
        return f"error {d['name']}:\n" + ("".join(f"    {n}: {ann(t)}\n" for n, t, _ in d["fields"]) or "    pass\n")

    def act(d, q=""):
        return (f"log {q}{d['name']}({kwargs(d)})" if d["kind"] == "event" else f"raise {q}{d['name']}({kwargs(d)})")

    # which module declarations main reaches: directly, or through the previous module (m<i>.via_<name> calls m<i+1>.do_<name>)
    files, calls, reachable = {}, [], []
    via = {}
    for m in reversed(range(nmod)):
        M = mods[m]
        src = []
        nxt = mods[m + 1] if m + 1 < nmod else None
        if nxt is not None:
            src.append(f"import {nxt['name']}\n")
        for d in M["decls"]:
            src.append(decl_src(d))
        for d in M["decls"]:
            src.append(f"@internal\ndef do_{d['kind']}_{d['name']}({params(d)}):\n    {act(d)}\n")
        via[m] = []
        if nxt is not None:
            for d in nxt["decls"]:
                if rnd.random() < 0.5:
                    via[m].append(d)
                    src.append(f"@internal\ndef via_{d['kind']}_{d['name']}({params(d)}):\n    {nxt['name']}.do_{d['kind']}_{d['name']}({names(d)})\n")
        files[f"{M['name']}.vy"] = "\n".join(src)
    direct = [m for m in range(nmod) if m == 0 or rnd.random() < 0.6]    # modules imported by main (m0 always)
    main = [f"import {mods[m]['name']}\n" for m in direct]
    for d in local:
        main.append(decl_src(d))
    k = 0
    for d in local:
        if d["name"] == "Unused":
            reachable.append(d)
            continue
        main.append(f"@external\ndef c{k}({params(d)}):\n    {act(d)}\n")
        calls.append({"fn": f"c{k}", "decl": d})
        reachable.append(d)
        k += 1
    for m in direct:
        for d in mods[m]["decls"]:
            if rnd.random() < 0.8:
                main.append(f"@external\ndef c{k}({params(d)}):\n    {mods[m]['name']}.do_{d['kind']}_{d['name']}({names(d)})\n")
                calls.append({"fn": f"c{k}", "decl": d})
                reachable.append(d)
                k += 1
        for d in via[m]:
            if rnd.random() < 0.8:
                main.append(f"@external\ndef c{k}({params(d)}):\n    {mods[m]['name']}.via_{d['kind']}_{d['name']}({names(d)})\n")
                calls.append({"fn": f"c{k}", "decl": d})
                reachable.append(d)
                k += 1
    for c in calls:
        c["sig"] = sig(c["decl"])
        c["fsig"] = c["fn"] + "(" + ",".join(abi_canon(t) for _, t, _ in c["decl"]["fields"]) + ")"
    expected = {"event": set(), "error": set()}
    for d in reachable:
        expected[d["kind"]].add((sig(d), tuple(n for n, _, _ in d["fields"]), tuple(bool(ix) for _, _, ix in d["fields"]) if d["kind"] == "event" else ()))
    return {"src": "\n".join(main), "files": files, "calls": calls, "expected": expected}
