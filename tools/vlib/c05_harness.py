"""C05 tie: echo contracts on the real compiler + pyrevm fed canonical encodings and a structured
corruption stream through four decoder entry points: external function arguments (calldata),
abi_decode (memory), constructor arguments (code), external-call return data (returndata)."""
import traceback

from . import c06_abi as A

W = 2 ** 256


SEL_REACH = (2 ** 256 - 4).to_bytes(32, "big")


def corruptions(rng, base, quick=True, cap=110):
    """list of (coq_term, python_fn) over the base encoding (bytes).  Word-level corruptions are type
    agnostic: every word is tried as if it were a scalar, a length and an offset."""
    n = len(base) // 32
    out = []
    words = list(range(n))
    for i in words:
        w = int.from_bytes(base[32 * i:32 * i + 32], "big")
        vals = {0, 32 * i, len(base), len(base) + 1, len(base) - 32, W - 32, W - 1, 2 ** 255, (w + 1) % W, (w - 1) % W,
                w | (0xFF << 248), w | 1, w ^ (1 << 255), w + 32 if w + 32 < W else 0, 2 ** 160, 2 ** 128, 256, 2,
                (W - 32 + w) % W, (w | (1 << 64)), max(len(base) - 64, 0), max(len(base) - 96, 0),
                max(len(base) - 128, 0)}
        vals.discard(w)
        for x in sorted(vals):
            out.append((f"CW {i} {hex(x)}", lambda b, i=i, x=x: b[:32 * i] + x.to_bytes(32, "big") + b[32 * i + 32:]))
    for k in range(0, len(base) + 1, 32):
        for kk in (k - 1, k, k + 1):
            if 0 <= kk < len(base):
                out.append((f"CT {kk}", lambda b, kk=kk: b[:kk]))
    out.append(("CX [255]", lambda b: b + b"\xff"))
    out.append(("CX (repeat 255 32)", lambda b: b + b"\xff" * 32))
    out.append(("CX (repeat 0 64)", lambda b: b + b"\x00" * 64))
    for i in range(len(base)):
        if base[i] == 0 and (i % 32 in (0, 11, 31) or rng.random() < 0.05):
            out.append((f"CB {i} 1", lambda b, i=i: b[:i] + b"\x01" + b[i + 1:]))
    # directed: every word that looks like an offset (a multiple of 32 inside the payload; element / member head words
    # of nested dynamic types) is replaced by pointers near 2^256: after wrap-around they alias the count word, the
    # enclosing offset word or memory in front of the payload.  These are never dropped by the cap and go to every
    # memory / returndata entry point (fn.prio).
    prio = []
    offs = [i for i in words if 0 < int.from_bytes(base[32 * i:32 * i + 32], "big") <= len(base)
            and int.from_bytes(base[32 * i:32 * i + 32], "big") % 32 == 0]
    pick = offs if len(offs) <= 3 else [offs[0], offs[1], offs[len(offs) // 2], offs[-1]]
    for i in dict.fromkeys(pick):
        for x in (W - 32, W - 64, (W - 32 * (i + 2)) % W, 2 ** 255):
            term = f"CW {i} {hex(x)}"
            fn = (lambda b, i=i, x=x: b[:32 * i] + x.to_bytes(32, "big") + b[32 * i + 32:])
            fn.prio = True
            prio.append((term, fn))
    ptxt = {c for c, _ in prio}
    out = [c for c in out if c[0] not in ptxt]
    # truncations / extensions first (they are given to every entry point), then the word/byte corruptions
    te = [c for c in out if c[0].startswith(("CT", "CX"))]
    rest = [c for c in out if not c[0].startswith(("CT", "CX"))]
    if len(out) > cap:
        if len(te) > 30:
            te = te[:9] + te[9::max(1, (len(te) - 9) // 21)][:21]
        rng.shuffle(rest)
        rest = rest[:cap - len(te)]
    out = te + prio + rest
    return out


def build_source(t):
    d = A.Decls()
    T = d.vy(t)
    n = A.size_bound(("tuple", (t,))) + 96
    has_len = t[0] in ("bytes", "string", "darr")
    LN = f"@external\ndef ln(x: {T}) -> uint256:\n    return len(x)\n" if has_len else ""
    KW = (f"@external\ndef kw(x: {T}, b: uint8 = 5, c: Bytes[4] = b\"\\x01\\x02\") -> ({T}, uint8, Bytes[4]):\n"
          f"    return x, b, c\n")
    LN += "\n" + KW
    lit = scalar_literal(t, d)
    if lit is not None:
        LN += (f"\n@external\ndef viaret_d(a: address) -> {T}:\n"
               f"    return staticcall Ret(a).get(default_return_value={lit[0]})\n")
    if t[0] in A.SCALARS:
        # bare word, no tuple wrapping: the payload must be exactly one word
        LN += f"\n@external\ndef dec_nt(b: Bytes[{n}]) -> {T}:\n    return abi_decode(b, {T}, unwrap_tuple=False)\n"
    src = d.text() + f"""
interface Ret:
    def get() -> {T}: view
    def getx(x: {T}) -> {T}: view
    def getn(x: {T}) -> {T}: nonpayable

s: {T}

@deploy
def __init__(x: {T}):
    self.s = x

@external
def get() -> {T}:
    return self.s

@external
def echo(x: {T}) -> {T}:
    return x

@external
def echo_mem(x: {T}) -> {T}:
    y: {T} = x
    return y

{LN}
@external
def dec(b: Bytes[{n}]) -> {T}:
    return abi_decode(b, {T})

@external
def viaret(a: address) -> {T}:
    return staticcall Ret(a).get()

# the outgoing argument x stays in the call buffer: short returndata must NOT be completed from it
@external
def viaret_x(a: address, x: {T}) -> {T}:
    return staticcall Ret(a).getx(x)

@external
def viaret_dx(a: address, x: {T}) -> {T}:
    return staticcall Ret(a).getx(x, default_return_value=x)

@external
def viaret_nx(a: address, x: {T}) -> {T}:
    return extcall Ret(a).getn(x, skip_contract_check=True)

@external
def rawdec(a: address) -> {T}:
    b: Bytes[{n}] = raw_call(a, b"", max_outsize={n}, is_static_call=True)
    return abi_decode(b, {T})
"""
    return src, n


def scalar_literal(t, d):
    """(vyper literal, value) usable as default_return_value, or None"""
    k = t[0]
    if k == "uint":
        return ("7", 7)
    if k == "int":
        return ("-3", -3)
    if k == "bool":
        return ("True", 1)
    if k == "address":
        return ("0x0000000000000000000000000000000000000009", 9)
    if k == "bytesM":
        return ("0x" + "ab" * t[1], bytes([0xAB]) * t[1])
    if k == "decimal":
        return ("1.5", 15 * 10 ** 9)
    return None


def enc_bytes_arg(payload):
    """python encoding of a single `bytes` argument (offset, length, data, padding)"""
    pad = (-len(payload)) % 32
    return (32).to_bytes(32, "big") + len(payload).to_bytes(32, "big") + payload + bytes(pad)


def returner_runtime(payload):
    """EVM runtime that returns `payload` to any call"""
    n = len(payload)
    hdr = bytes([0x61]) + n.to_bytes(2, "big") + bytes([0x61, 0x00, 0x0F, 0x60, 0x00, 0x39, 0x61]) + n.to_bytes(2, "big") + \
        bytes([0x60, 0x00, 0xF3])
    assert len(hdr) == 15
    return hdr + payload


def run_job(job):
    """job = (src, cfg, base_list, inputs) ; inputs[k] = list of (kind, data bytes) per value k
    kind in call | mem | ctor | ret.  Returns per input (ok, out)."""
    src, cfg, bases, inputs = job[:4]
    kwsel = job[4] if len(job) > 4 else None
    tt, xvs = (job[5], job[6]) if len(job) > 6 else (None, None)
    from .configs import compile_src
    from .evm import Chain
    res = {"cfg": cfg.name, "error": None, "obs": []}
    try:
        c = compile_src(src, cfg, formats=("bytecode", "bytecode_runtime", "method_identifiers"))
        if (len(c["bytecode_runtime"]) - 2) // 2 > 24576:
            res["skipped"] = "runtime code larger than the EIP-170 limit under this configuration"
            return res
        mids = {k.split("(")[0]: int(v, 16).to_bytes(4, "big") for k, v in c["method_identifiers"].items()}
        init = bytes.fromhex(c["bytecode"][2:])
        res["initcode"] = init
        ch = Chain(cfg.evm)
        main = ch.deploy(init + bases[0])
        if main is None:
            res["error"] = "deploy with canonical constructor args failed"
            return res
        for k, ins in enumerate(inputs):
            obs = []
            for kind, data in ins:
                if kind == "call":
                    r = ch.call(main, mids["echo"] + data)
                    r2 = ch.call(main, mids["echo_mem"] + data)
                    # an offset word in [2^256-4, 2^256-1] wraps into the (different) selector bytes: the two entry
                    # points may then legitimately differ; the model is evaluated with echo's selector
                    reach = any(data[i:i + 32] >= SEL_REACH for i in range(0, len(data) - 31, 32))
                    if (r.ok, r.out) != (r2.ok, r2.out) and not reach:
                        obs.append(("split", r.out.hex() + "/" + r2.out.hex()))
                        continue
                elif kind == "len":
                    r = ch.call(main, mids["ln"] + data)
                elif kind == "mem":
                    r = ch.call(main, mids["dec"] + enc_bytes_arg(data))
                elif kind.startswith("kw"):
                    r = ch.call(main, kwsel[int(kind[2])] + data)
                elif kind in ("retx", "retdx", "retnx"):
                    cal = ch.set_code(None, returner_runtime(data))
                    fn = {"retx": "viaret_x", "retdx": "viaret_dx", "retnx": "viaret_nx"}[kind]
                    args = int(cal, 16).to_bytes(32, "big") + xvs[k]      # xvs[k]: ABI arguments after the address word
                    r = ch.call(main, mids[fn] + args)
                elif kind == "rawdec":
                    cal = ch.set_code(None, returner_runtime(data))
                    r = ch.call(main, mids["rawdec"] + int(cal, 16).to_bytes(32, "big"))
                elif kind == "retd":
                    cal = ch.set_code(None, returner_runtime(data))
                    r = ch.call(main, mids["viaret_d"] + int(cal, 16).to_bytes(32, "big"))
                elif kind == "memnt":
                    r = ch.call(main, mids["dec_nt"] + enc_bytes_arg(data))
                elif kind in ("ctor", "ctorx"):
                    a = ch.deploy(init + data)
                    if a is None:
                        obs.append((False, b""))
                        continue
                    r = ch.call(a, mids["get"])
                else:
                    cal = ch.set_code(None, returner_runtime(data))
                    r = ch.call(main, mids["viaret"] + int(cal, 16).to_bytes(32, "big"))
                obs.append((r.ok, r.out if r.ok else b""))
            res["obs"].append(obs)
    except Exception as e:  # noqa
        msg = f"{type(e).__name__}: {e}"
        if "too deep" in msg.lower() or "stacktoodeep" in msg.lower():
            res["skipped"] = msg[:120]      # legacy back-end capacity limit for a large generated type
        else:
            res["error"] = f"{msg} {traceback.format_exc()[-600:]}"
    return res
