"""C14 (memory passes): hand-written Venom IR families (parsed by the real parser) whose behaviour exposes a wrong
LoadElimination / CSE decision on ordinary inputs: store p / store q aliasing p / load p (memory at overlapping byte offsets,
storage and transient storage at run-time-equal keys), a store between two identical loads.

For every (program, pass): the real pass class is run on the parsed function; if it changes the function
 * the proved validator is evaluated on the exported pair (verdict as in c14m_part);
 * before and after are compiled by the real back end (the O2 pipeline with the pass under test turned into a no-op, so the
   only difference is this invocation) and executed on pyrevm on a grid of calldata: a difference is a FAILING INPUT;
 * both are executed by the byte-accurate semantics of coq/C14M/MemSem.v under the concrete oracle of MemRun.v (vm_compute) and
   compared with pyrevm (tie of the model) and with each other."""
from vlib import coqrun

HEAD = "function runtime {\n  runtime:\n"
TAIL = "}\n"


def _ret(x):
    # the result buffer has a size no other allocation of the families uses: CSE merges equal `alloca N` (latent finding
    # cse-merges-allocas, corpus/C14/cse_alloca_merge_replay.py), which is not what these families are about
    return f"    %r = alloca 160\n    mstore %r, {x}\n    return %r, 32\n"


def programs():
    P = {}
    for d in (1, 16, 31, 32, 48):
        # [m, m+32) then [m+d, m+d+32): overlapping for d < 32
        P[f"le_mem_overlap_{d}"] = (HEAD + "    %a = calldataload 0\n    %b = calldataload 32\n    %m = alloca 96\n"
                                    f"    %q = add %m, {d}\n    mstore %m, %a\n    mstore %q, %b\n    %x = mload %m\n" + _ret("%x") + TAIL)
    for d in (16, 32):
        # the second store is below the first: [m+32-d .. ) overlaps [m+32, m+64) for d < 32
        P[f"le_mem_below_{d}"] = (HEAD + "    %a = calldataload 0\n    %b = calldataload 32\n    %m = alloca 128\n"
                                  f"    %p = add %m, 32\n    %q = add %m, {32 - d}\n    mstore %p, %a\n    mstore %q, %b\n    %x = mload %p\n"
                                  + _ret("%x") + TAIL)
    for st, ld in (("sstore", "sload"), ("tstore", "tload")):
        P[f"le_{st}_alias"] = (HEAD + "    %k1 = calldataload 0\n    %k2 = calldataload 32\n    %a = calldataload 64\n    %b = calldataload 96\n"
                               f"    {st} %k1, %a\n    {st} %k2, %b\n    %x = {ld} %k1\n" + _ret("%x") + TAIL)
        P[f"cse_{ld}_across_{st}"] = (HEAD + "    %k = calldataload 0\n    %v = calldataload 32\n"
                                      f"    %x = {ld} %k\n    %w = add %x, %v\n    %w1 = add %w, 1\n    {st} %k, %w1\n    %y = {ld} %k\n    %s = xor %x, %y\n" + _ret("%s") + TAIL)
    P["cse_mload_across_mstore"] = (HEAD + "    %a = calldataload 0\n    %b = calldataload 32\n    %m = alloca 32\n    mstore %m, %a\n"
                                    "    %x = mload %m\n    %c = add %x, %b\n    %c1 = add %c, 1\n    mstore %m, %c1\n    %y = mload %m\n    %s = xor %x, %y\n" + _ret("%s") + TAIL)
    P["cse_mload_across_mcopy"] = (HEAD + "    %a = calldataload 0\n    %b = calldataload 32\n    %m = alloca 64\n    %n = add %m, 32\n"
                                   "    mstore %m, %a\n    mstore %n, %b\n    %x = mload %m\n    mcopy %m, %n, 32\n    %y = mload %m\n    %s = xor %x, %y\n" + _ret("%s") + TAIL)
    # regression for the repaired finding C14M:cse-merges-allocas: two live allocations of the same size must stay distinct
    P["cse_alloca_merge"] = (HEAD + "    %a = calldataload 0\n    %b = calldataload 32\n    %m = alloca 32\n    mstore %m, %a\n"
                             "    %r2 = alloca 32\n    mstore %r2, %b\n    %x = mload %m\n    %o = alloca 64\n    mstore %o, %x\n    return %o, 32\n" + TAIL)
    return P


KEYS = {"cse_alloca_merge": "C14M:cse-merges-allocas"}
PASSES = ["LoadElimination", "CSE"]
GRID = [(1, 2, 3, 4), (1, 1, 5, 9), (0, 0, 7, 8), (2, 1, 2 ** 255, 2 ** 256 - 1), (0x1122334455667788, 0xffeeddccbbaa9988 << 64, 3, 3)]


def _calldata(ws):
    return b"".join(w.to_bytes(32, "big") for w in ws)


def run(ctx, M):
    """M = c14m_part module (Export, evaluate).  -> (number of evaluations, stats)"""
    from vyper.compiler.settings import Settings, set_global_settings
    from vyper.venom.analysis import IRAnalysesCache
    from vyper.venom.parser import parse_venom
    from vlib import c14_pass_harness as H
    from vlib import c14_pass_sem as S
    from vlib.evm import DEPLOYER
    set_global_settings(Settings(evm_version="cancun"))
    H.install()
    stats = {"programs": 0, "invocations": 0, "changed": 0, "verdicts": {}, "backend_runs": 0, "model_runs": 0, "model_vs_evm_mismatch": 0}
    recs = []
    for name, text in sorted(programs().items()):
        stats["programs"] += 1
        for pname in PASSES:
            try:
                c = parse_venom(text)
                fn = list(c.functions.values())[0]
                ex = M.Export(fn)
                before, _ = ex.snapshot()
                tb = H.snap_text(fn, fn)
                H.PASS_CLASSES[pname](IRAnalysesCache(fn), fn).run_pass()
                after, _ = ex.snapshot()
                ta = H.snap_text(fn, fn)
            except Exception as e:  # noqa
                ctx.violation("failing-input", f"{pname} raises {type(e).__name__} on hand-written IR {name}",
                              {"ir_text": text, "pass": pname, "error": str(e)[:400]}, key=f"C14M:hand-crash:{pname}:{name}")
                continue
            stats["invocations"] += 1
            if after == before:
                continue
            stats["changed"] += 1
            recs.append(dict(name=name, pass_name=pname, kind="fwd", before=before, after=after, text_before=tb, text_after=ta, new_phis=0,
                             changes=[]))
    if not recs:
        return 0, stats
    verdicts = M.evaluate(recs, name="c14m_hand", shard=4, timeout=600)
    # the model on both sides
    exprs, meta = [], []
    for r in recs:
        for k, ws in enumerate(GRID):
            cd = "[" + "; ".join(str(b) for b in _calldata(ws)) + "]"
            keys = "[" + "; ".join(coqrun.hexlit(w) for w in ws[:2]) + "]"
            for side in ("before", "after"):
                exprs.append(f"exec_render ({r[side]}) {cd} [] {keys}")
                meta.append((r["name"], r["pass_name"], k, side))
    imports = "From Verif Require Import C14M.MemSem C14M.MemRun.\nOpen Scope string_scope.\nOpen Scope Z_scope.\n"
    try:
        model = dict(zip(meta, coqrun.eval_zlists(imports, exprs, "c14m_handrun", shard=max(1, len(exprs) // 8), timeout=600)))
    except RuntimeError as e:
        model = {}
        ctx.violation("correspondence-broken", "MemRun.v could not execute the hand-written IR", {"error": str(e)[-800:]})
    stats["model_runs"] = len(model)
    n = 0
    for r, v in zip(recs, verdicts):
        d = stats["verdicts"].setdefault(r["pass_name"], {"accepted": 0, "unsupported": 0, "rejected": 0})
        d[v] += 1
        n += 1
        try:
            cb = S.backend_bytecode(r["text_before"], "pipeline", skip=(r["pass_name"],))
            ca = S.backend_bytecode(r["text_after"], "pipeline", skip=(r["pass_name"],))
        except Exception as e:  # noqa
            ctx.violation("failing-input", f"the real back end fails on hand-written IR {r['name']} after {r['pass_name']}",
                          {"ir_before": r["text_before"], "ir_after": r["text_after"], "error": f"{type(e).__name__}: {str(e)[:300]}"},
                          key=f"C14M:hand-backend:{r['pass_name']}:{r['name']}")
            continue
        witness = None
        for k, ws in enumerate(GRID):
            inp = {"data": _calldata(ws).hex(), "value": 0, "sender": DEPLOYER}
            ob, oa = S.evm_run(cb, inp), S.evm_run(ca, inp)
            stats["backend_runs"] += 2
            if ob is None or oa is None:
                continue
            rb = (ob["ok"], ob["out"].hex(), tuple(ob["chain"].storage(ob["addr"], w) for w in ws[:2]))
            ra = (oa["ok"], oa["out"].hex(), tuple(oa["chain"].storage(oa["addr"], w) for w in ws[:2]))
            if rb != ra and witness is None:
                witness = {"calldata": "0x" + inp["data"], "before": {"ok": rb[0], "out": rb[1], "storage": [hex(x) for x in rb[2]]},
                           "after": {"ok": ra[0], "out": ra[1], "storage": [hex(x) for x in ra[2]]}}
            # tie of the model: MemRun on `before` against pyrevm on `before`
            m = model.get((r["name"], r["pass_name"], k, "before"))
            if m and rb[0] and m[0] == 1:
                data = bytes(m[2:2 + m[1]]).hex()
                if data != rb[1] or tuple(m[2 + m[1]:]) != rb[2]:
                    stats["model_vs_evm_mismatch"] += 1
                    if stats["model_vs_evm_mismatch"] == 1:
                        ctx.violation("correspondence-broken", f"MemSem.v/MemRun.v disagrees with the real back end + pyrevm on {r['name']}",
                                      {"ir_text": r["text_before"], "calldata": "0x" + inp["data"], "model": m, "evm": rb})
            ma = model.get((r["name"], r["pass_name"], k, "after"))
            if witness is None and m and ma and m != ma:
                witness = {"calldata": "0x" + inp["data"], "model_before": m, "model_after": ma, "note": "difference under the semantics of MemSem.v"}
        if witness is not None:
            ctx.violation("failing-input", f"{r['pass_name']} changes the behaviour of hand-written IR {r['name']}"
                          + ("" if v == "rejected" else f" although the validator says {v}"),
                          {"pass": r["pass_name"], "ir_before": r["text_before"], "ir_after": r["text_after"], "witness": witness,
                           "validator": v, "how": "parse_venom(text) -> pass -> O2 pipeline with this pass skipped -> assembly -> pyrevm",
                           "expected": "same return data and storage before and after the pass"},
                          key=KEYS.get(r["name"], f"C14M:hand:{r['pass_name']}:{r['name']}"))
        elif v == "rejected":
            ctx.violation("theorem-broken", f"{r['pass_name']} on hand-written IR {r['name']}: replacement not justified by the proved validator",
                          {"ir_before": r["text_before"], "ir_after": r["text_after"]},
                          key=KEYS.get(r["name"], f"C14M:hand-reject:{r['pass_name']}:{r['name']}"))
    return n, stats
