"""C10 glue, part 2: HashMap entries addressed through every *shape of key expression*.

Oracle (unchanged, model-free): the entry  m[k1]..[kd]  of a HashMap reported at slot s lives at
keccak(..keccak(s || k1).. || kd)  -- a write through any key expression changes exactly that word of the map's
address space, a read through the same expression finds it, and every other entry (same keys in the other maps,
earlier entries) keeps its value.  The key expressions are: argument, local, storage variable, immutable (scalar and
array element), constant, msg.sender, keccak256(..) / sha256(..) results, reads of other mappings (also nested and
keyed by an immutable), internal call results, convert(..) results and IfExp, at 1-3 nesting levels, for storage and
transient maps.  Every contract covers every shape at least once."""
import hashlib
import warnings

from .c10_glue import journal, keccak_slot
from .evm import DEPLOYER

KT = {"U": "uint256", "B": "bytes32", "A": "address"}

SHAPES = {
    "U": ["arg", "local", "storage", "imm", "immarr", "const", "keccak", "sha", "mapread", "mapread2", "mapimm", "call",
          "callimm", "convert", "convimm", "ifexp", "ifimm"],
    "B": ["arg", "local", "storage", "imm", "const", "keccak", "sha", "mapread", "mapread2", "mapimm", "call", "callimm",
          "convimm", "ifexp", "ifimm"],
    "A": ["arg", "local", "storage", "imm", "const", "sender", "mapread", "mapimm", "call", "ifexp", "ifimm"],
}
ALL_SHAPES = sorted({(k, s) for k, l in SHAPES.items() for s in l})


def _kec(b):
    from vyper.utils import keccak256
    return int.from_bytes(keccak256(b), "big")


def _w(v):
    return (v % 2**256).to_bytes(32, "big")


def lit(k, v):
    if k == "U":
        return str(v)
    if k == "B":
        return "0x%064x" % v
    from vyper.utils import checksum_encode
    return checksum_encode("0x%040x" % v)


def rand_key(k, rnd):
    if k == "A":
        return rnd.randrange(1, 2**160)
    return rnd.choice([0, 1, 2**255, 2**256 - 1, rnd.randrange(2**256), rnd.randrange(2**256)])


class KContract:
    def __init__(self, rnd, idx):
        self.idx = idx
        r = rnd
        self.imm = {k: rand_key(k, r) | 1 for k in KT}
        self.immarr = [r.randrange(1, 2**256) for _ in range(3)]
        self.const = {k: rand_key(k, r) | 1 for k in KT}
        self.sv = {k: rand_key(k, r) | 1 for k in KT}
        # index maps  i<K>: HashMap[K, K]; preset keys include the immutable and values that are again keys
        self.imap = {}
        for k in KT:
            ks = [rand_key(k, r) | 1 for _ in range(3)]
            d = {ks[0]: ks[1], ks[1]: ks[2], ks[2]: rand_key(k, r) | 1, self.imm[k]: rand_key(k, r) | 1}
            self.imap[k] = d
        self.pads = r.randint(0, 3)
        # maps: groups of 2-3 maps with the same key signature
        self.maps = []      # (name, sig, loc)
        for gi in range(2):
            sig = [r.choice("UUBA") for _ in range(r.randint(1, 3))]
            for j in range(r.randint(2, 3)):
                self.maps.append((f"m{gi}_{j}", sig, r.choice(["storage", "storage", "transient"])))
        # operations: every (key type, shape) that fits some map level is used at least once per contract
        levels = [(mi, li) for mi, (_, sig, _) in enumerate(self.maps) for li in range(len(sig))]
        todo = [ks for ks in ALL_SHAPES if any(self.maps[mi][1][li] == ks[0] for mi, li in levels)]
        r.shuffle(todo)
        self.ops = []
        while todo:
            k, s = todo.pop()
            mi, li = r.choice([(mi, li) for mi, li in levels if self.maps[mi][1][li] == k])
            sig = self.maps[mi][1]
            shapes = []
            for l2, k2 in enumerate(sig):
                if l2 == li:
                    shapes.append(s)
                else:
                    rest = [x for x in todo if x[0] == k2]
                    if rest and r.random() < 0.7:
                        todo.remove(rest[0])
                        shapes.append(rest[0][1])
                    else:
                        shapes.append(r.choice(SHAPES[k2]))
            self.ops.append(self._op(r, mi, shapes))

    def _f(self, k, v):
        """python mirror of the internal functions _fU/_fB/_fA"""
        if k == "U":
            return (v + 12345) % 2**256
        if k == "B":
            return _kec(_w(v) + b"\x01")
        return self.imap["A"].get(v, 0)

    def _op(self, r, mi, shapes):
        name, sig, loc = self.maps[mi]
        params, args, pre, exprs, keys = [], [], [], [], []
        for L, (k, s) in enumerate(zip(sig, shapes)):
            a = r.choice(list(self.imap[k])) if r.random() < 0.6 else rand_key(k, r)
            h = r.randrange(2**256)
            f = r.random() < 0.5
            params += [f"a{L}: {KT[k]}", f"h{L}: bytes32", f"f{L}: bool"]
            args += [(KT[k], a), ("bytes32", h), ("bool", int(f))]
            I, C, S, M = f"IM{k}", f"C{k}", f"self.s{k}", f"self.i{k}"
            if s == "arg":
                e, v = f"a{L}", a
            elif s == "local":
                pre.append(f"x{L}: {KT[k]} = a{L}")
                e, v = f"x{L}", a
            elif s == "storage":
                e, v = S, self.sv[k]
            elif s == "imm":
                e, v = I, self.imm[k]
            elif s == "immarr":
                j = r.randrange(3)
                e, v = f"IMARR[{j}]", self.immarr[j]
            elif s == "const":
                e, v = C, self.const[k]
            elif s == "sender":
                e, v = "msg.sender", int(DEPLOYER, 16)
            elif s == "keccak":
                v = _kec(_w(h))
                e = f"keccak256(h{L})" if k == "B" else f"convert(keccak256(h{L}), uint256)"
            elif s == "sha":
                v = int.from_bytes(hashlib.sha256(_w(h)).digest(), "big")
                e = f"sha256(h{L})" if k == "B" else f"convert(sha256(h{L}), uint256)"
            elif s == "mapread":
                e, v = f"{M}[a{L}]", self.imap[k].get(a, 0)
            elif s == "mapread2":
                e, v = f"{M}[{M}[a{L}]]", self.imap[k].get(self.imap[k].get(a, 0), 0)
            elif s == "mapimm":
                e, v = f"{M}[{I}]", self.imap[k][self.imm[k]]
            elif s == "call":
                e, v = f"self._f{k}(a{L})", self._f(k, a)
            elif s == "callimm":
                e, v = f"self._f{k}({I})", self._f(k, self.imm[k])
            elif s == "convert":        # U only
                e, v = f"convert(h{L}, uint256)", h
            elif s == "convimm":
                if k == "U":
                    e, v = "convert(IMB, uint256)", self.imm["B"]
                else:
                    e, v = "convert(IMU, bytes32)", self.imm["U"]
            elif s == "ifexp":
                e, v = f"(a{L} if f{L} else {S})", (a if f else self.sv[k])
            elif s == "ifimm":
                e, v = f"({I} if f{L} else a{L})", (self.imm[k] if f else a)
            else:
                raise ValueError(s)
            exprs.append(e)
            keys.append(v % 2**256)
        return {"map": mi, "shapes": list(zip(sig, shapes)), "params": params, "args": args, "pre": pre,
                "path": f"self.{name}" + "".join(f"[{e}]" for e in exprs), "keys": keys,
                "value": r.randrange(1, 2**200)}

    def source(self, transient_ok):
        L = []
        for k, t in KT.items():
            L.append(f"IM{k}: immutable({t})")
        L.append("IMARR: immutable(uint256[3])")
        for k, t in KT.items():
            L.append(f"C{k}: constant({t}) = {lit(k, self.const[k])}")
        for j in range(self.pads):
            L.append(f"pad{j}: uint256")
        for k, t in KT.items():
            L.append(f"s{k}: {t}")
            L.append(f"i{k}: HashMap[{t}, {t}]")
        for name, sig, loc in self.maps:
            ty = "uint256"
            for k in reversed(sig):
                ty = f"HashMap[{KT[k]}, {ty}]"
            if loc == "transient" and transient_ok:
                ty = f"transient({ty})"
            L.append(f"{name}: public({ty})")
        L.append("@deploy\ndef __init__():")
        for k in KT:
            L.append(f"    IM{k} = {lit(k, self.imm[k])}")
        L.append("    IMARR = [" + ", ".join(map(str, self.immarr)) + "]")
        for k in KT:
            L.append(f"    self.s{k} = {lit(k, self.sv[k])}")
            for a, b in self.imap[k].items():
                L.append(f"    self.i{k}[{lit(k, a)}] = {lit(k, b)}")
        L.append("@internal\n@view\ndef _fU(x: uint256) -> uint256:\n    return unsafe_add(x, 12345)")
        L.append('@internal\n@view\ndef _fB(x: bytes32) -> bytes32:\n    return keccak256(concat(x, b"\\x01"))')
        L.append("@internal\n@view\ndef _fA(x: address) -> address:\n    return self.iA[x]")
        for n, op in enumerate(self.ops):
            ps = ", ".join(op["params"])
            body = "".join(f"    {p}\n" for p in op["pre"])
            L.append(f"@external\ndef op{n}({ps}, v: uint256):\n{body}    {op['path']} = v")
            L.append(f"@external\n@view\ndef rd{n}({ps}) -> uint256:\n{body}    return {op['path']}")
        return "\n".join(L) + "\n"


def _enc(args):
    return b"".join(_w(v) for _, v in args)


def run(ctx, n):
    """returns (#operations checked, found)"""
    from vyper.utils import method_id
    from .configs import compile_src, core_configs
    from .evm import Chain
    rnd = ctx.rng("keyexpr")
    contracts = [KContract(rnd, i) for i in range(n)]
    n_ops, shapes_seen = 0, set()
    for c in contracts:
        for cfg in core_configs():
            tr_ok = cfg.evm in ("cancun", "prague")
            src = c.source(tr_ok)
            with warnings.catch_warnings():
                warnings.simplefilter("ignore")
                out = compile_src(src, cfg, formats=("bytecode", "layout"))
            layout = out["layout"]
            ch = Chain(cfg.evm)
            addr = ch.deploy(bytes.fromhex(out["bytecode"][2:]))
            base = {"source": src, "config": cfg.name}
            if addr is None:
                ctx.violation("correspondence-broken", "key-expression contract failed to deploy", base)
                return n_ops, True
            where = {}
            for name, sig, loc in c.maps:
                lc = loc if (loc != "transient" or tr_ok) else "storage"
                e = layout["transient_storage_layout" if lc == "transient" else "storage_layout"][name]
                where[name] = (lc, e["slot"])
            expected = {}     # (map name, keys) -> value
            for oi, op in enumerate(c.ops):
                name, sig, _ = c.maps[op["map"]]
                lc, slot = where[name]
                want = slot
                for kw in op["keys"]:
                    want = keccak_slot(want, kw)
                types = ",".join(t for t, _ in op["args"])
                data = _enc(op["args"])
                detail = dict(base, statement=f"{op['path']} = v", call=f"op{oi}({types},uint256)",
                              args=[hex(v) for _, v in op["args"]] + [hex(op["value"])], key_shapes=[f"{KT[k]}:{s}" for k, s in op["shapes"]],
                              key_values=[hex(k) for k in op["keys"]], map=name, location=lc, reported_slot=slot,
                              expected_entry_slot=hex(want), how="expected slot = keccak(..keccak(reported slot || key1).. || keyd)")
                pre_st, pre_tr = journal(ch, addr)
                r = ch.call(addr, method_id(f"op{oi}({types},uint256)") + data + _w(op["value"]))
                post_st, post_tr = journal(ch, addr)
                if not r.ok:
                    ctx.violation("correspondence-broken", "key-expression setter reverted", detail)
                    return n_ops, True
                ch_st = {s for s, (orig, present) in post_st.items() if present != (pre_st[s][1] if s in pre_st else orig)}
                ch_tr = {s for s in set(post_tr) | set(pre_tr) if post_tr.get(s, 0) != pre_tr.get(s, 0)}
                changed, other = (ch_st, ch_tr) if lc == "storage" else (ch_tr, ch_st)
                n_ops += 1
                shapes_seen.update(op["shapes"])
                detail["changed"] = sorted(hex(x) for x in changed)
                if other or changed != {want}:
                    ctx.violation("failing-input", "write to a HashMap entry through a key expression did not change exactly the word "
                                  "keccak(reported slot || key) of the map's address space", dict(detail, other_space=sorted(map(hex, other))))
                    return n_ops, True
                expected[(name, tuple(op["keys"]))] = op["value"]
                # the same expression as an rvalue
                g = ch.call(addr, method_id(f"rd{oi}({types})") + data)
                if not g.ok or g.out != _w(op["value"]):
                    ctx.violation("failing-input", "reading a HashMap entry through the key expression it was written with gives another value",
                                  dict(detail, observed=g.out.hex() if g.ok else "revert"))
                    return n_ops, True
                # model-free read-back through plain argument keys: this entry, the same keys in the other maps of the
                # group, and every entry written before
                probes = {(nm, tuple(op["keys"])) for nm, sg, _ in c.maps if sg == sig} | set(expected)
                for nm, ks in sorted(probes):
                    sg = next(s for n_, s, _ in c.maps if n_ == nm)
                    g = ch.call(addr, method_id(f"{nm}({','.join(KT[k] for k in sg)})") + b"".join(_w(k) for k in ks))
                    exp = expected.get((nm, ks), 0)
                    if not g.ok or g.out != _w(exp):
                        ctx.violation("failing-input", "a write to one HashMap entry changed (or missed) the value read from an entry by its keys",
                                      dict(detail, probe=f"{nm}{[hex(k) for k in ks]}", expected=hex(exp),
                                           observed=g.out.hex() if g.ok else "revert"))
                        return n_ops, True
    ctx.corr["glue_keyexpr"] = {"contracts": len(contracts), "ops": n_ops, "shapes": sorted(f"{KT[k]}:{s}" for k, s in shapes_seen),
                                "configs": [c.name for c in core_configs()]}
    return n_ops, False
