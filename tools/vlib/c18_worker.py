"""C18 worker: run in a FRESH interpreter (PYTHONHASHSEED set by the parent).  Reads a JSON session from argv[1]:
  {"root": dir, "jobs": [{"prog": name, "target": relpath, "layout": relpath|None, "cfg": {...}, "formats": [...]}, ...]}
compiles the jobs in order in this one process and prints {job index: {format: value-or-digest}} as JSON."""
import hashlib
import json
import sys
import warnings


def main():
    sess = json.load(open(sys.argv[1]))
    from pathlib import Path

    from vyper.cli.vyper_compile import compile_files
    from vyper.compiler.settings import OptimizationLevel, Settings
    out = {}
    for i, job in enumerate(sess["jobs"]):
        c = job["cfg"]
        st = Settings(optimize=OptimizationLevel.from_string(c["level"]), experimental_codegen=c["venom"],
                      evm_version=c.get("evm"))
        root = Path(sess["root"]) / job["prog"]
        try:
            with warnings.catch_warnings():
                warnings.simplefilter("ignore")
                r = compile_files([str(root / job["target"])], job["formats"],
                                  paths=[str(root / x) for x in job.get("paths") or ["."]], include_sys_path=False,
                                  settings=st,
                                  storage_layout_paths=[str(root / job["layout"])] if job.get("layout") else None)
            r = list(r.values())[0]
            res = {}
            for k, v in r.items():
                s = v if isinstance(v, str) else json.dumps(v, sort_keys=False, default=str)
                res[k] = s if len(s) < 200 else "sha256:" + hashlib.sha256(s.encode()).hexdigest()
            out[i] = res
        except Exception as e:  # noqa
            out[i] = {"error": f"{type(e).__name__}: {str(e)[:300]}"}
    print("C18RESULT" + json.dumps(out))


if __name__ == "__main__":
    main()
