"""C12 dynamic return types: caller functions, crafted returndata (structured corruptions of a canonical
encoding, the same CW/CT/CX/CB operations as coq/C05/Harness.v apply_c), model expressions."""
import eth_abi

from vlib.coqrun import hexlit

W = 2**256
STRUCTS = ("struct S:\n    a: uint256\n    b: Bytes[5]\n\nflag Fl:\n    A\n    B\n    C\n\n"
           "interface Token:\n    def balanceOf(a: address) -> uint256: view\n\nstruct T:\n    a: Token\n    b: Bytes[5]\n")
# name: (vyper type, coq wrapped ty, eth_abi component types of the wrapped tuple, sample values, bound-ish numbers)
DYN = {
    "bytes5": ("Bytes[5]", "TTuple [TBytes 5]", ["bytes"], (b"abc",), [5]),
    "str7": ("String[7]", "TTuple [TString 7]", ["string"], ("hello",), [7]),
    "darr3": ("DynArray[uint256, 3]", "TTuple [TDArr (TUInt 256) 3]", ["uint256[]"], ([W - 1, 2],), [3]),
    "darr8": ("DynArray[uint8, 2]", "TTuple [TDArr (TUInt 8) 2]", ["uint8[]"], ([255, 1],), [2, 255]),
    "tup": ("(uint256, Bytes[5])", "TTuple [TUInt 256; TBytes 5]", ["uint256", "bytes"], (9, b"xyz12"), [5]),
    "st": ("S", "TTuple [TTuple [TUInt 256; TBytes 5]]", ["(uint256,bytes)"], ((9, b"xy"),), [5]),
    "nest": ("DynArray[Bytes[4], 2]", "TTuple [TDArr (TBytes 4) 2]", ["bytes[]"], ([b"ab", b"cdef"],), [2, 4]),
    "sarr": ("(bool, String[3])[2]", None, None, None, None),   # placeholder (not generated)
}
del DYN["sarr"]
# session 3 (seeded change C12_m5): word-sized element / member types other than uintN inside dynamic return types
A1, A2 = "0x" + "ff" * 20, "0x" + "00" * 19 + "01"
DYN.update({
    "darrtok": ("DynArray[Token, 2]", "TTuple [TDArr TAddress 2]", ["address[]"], ([A1, A2],), [2, 2**160 - 1]),
    "darrfl": ("DynArray[Fl, 2]", "TTuple [TDArr (TFlag 3) 2]", ["uint256[]"], ([5, 7],), [2, 7]),
    "darrdec": ("DynArray[decimal, 2]", "TTuple [TDArr TDecimal 2]", ["int168[]"], ([-(2**167), 2**167 - 1],), [2, 2**167 - 1, W - 2**167 - 1]),
    "sttok": ("T", "TTuple [TTuple [TAddress; TBytes 5]]", ["(address,bytes)"], ((A1, b"xy"),), [5, 2**160 - 1]),
    "tupb4": ("(bytes4, Bytes[5])", "TTuple [TBytesM 4; TBytes 5]", ["bytes4", "bytes"], (b"\x01\x02\x03\x04", b"xyz12"), [5, (0x01020304 << 224) + 1]),
})
RAW = {"darrtok": ["uint256[]"], "darrfl": ["uint256[]"], "darrdec": ["uint256[]"], "sttok": ["(uint256,bytes)"],
       "tupb4": ["uint256", "bytes"]}
DEFAULTS = {"bytes5": ('b"xy"', "VList [VBytes [120; 121]]"),
            "str7": ('"hi"', "VList [VBytes [104; 105]]"),
            "darr3": ("[1, 2]", "VList [VList [VInt 1; VInt 2]]")}
MUTS = {"n": ("nonpayable", "Nonpayable"), "v": ("view", "ViewM"), "u": ("pure", "Pure")}
SIZE_BOUND = {"bytes5": 96, "str7": 96, "darr3": 160, "darr8": 128, "tup": 128, "st": 160, "nest": 256,
              "darrtok": 128, "darrfl": 128, "darrdec": 128, "sttok": 160, "tupb4": 128}


def iface_lines():
    out = []
    for ty, (vt, *_r) in DYN.items():
        for m, (mut, _) in MUTS.items():
            out.append(f"    def fd_{ty}_{m}(x: uint256) -> {vt}: {mut}")
    return out


def caller_functions():
    """-> (source lines, [(name, ty, m, skip, dflt)])"""
    L, fns = [], []
    for ty, (vt, *_r) in DYN.items():
        combos = [("n", False, False), ("v", False, False), ("u", False, False)]
        if ty in DEFAULTS:
            combos += [("n", False, True), ("v", True, True), ("n", True, False), ("u", False, True)]
        for m, skip, dflt in combos:
            kws = []
            if skip:
                kws.append("skip_contract_check=True")
            if dflt:
                kws.append(f"default_return_value={DEFAULTS[ty][0]}")
            kw = "".join(", " + k for k in kws)
            name = f"d_{ty}_{m}_{int(skip)}{int(dflt)}"
            callkw = "staticcall" if m in ("v", "u") else "extcall"
            L += ["@external", f"def {name}(x: uint256) -> {vt}:", f"    return {callkw} C(self.t).fd_{ty}_{m}(x{kw})", ""]
            fns.append((name, ty, m, skip, dflt))
        # the same extcall in STATEMENT position (result discarded): must fail closed exactly like d_<ty>_n_<skip><dflt>
        for skip, dflt in ([(False, False)] + ([(False, True), (True, False)] if ty in DEFAULTS else [])):
            kws = (["skip_contract_check=True"] if skip else []) + ([f"default_return_value={DEFAULTS[ty][0]}"] if dflt else [])
            kw = "".join(", " + k for k in kws)
            name = f"ds_{ty}_n_{int(skip)}{int(dflt)}"
            L += ["@external", f"def {name}(x: uint256):", f"    extcall C(self.t).fd_{ty}_n(x{kw})", ""]
            fns.append((name, ty, "n", skip, dflt))
    return L, fns


def base_encoding(ty):
    _vt, _coq, comps, vals, _b = DYN[ty]
    return eth_abi.encode(comps, list(vals))


def corruptions(ty, rnd):
    """list of ('CW', i, w) | ('CT', n) | ('CX', bytes) | ('CB', i, b)"""
    base = base_encoding(ty)
    nw = len(base) // 32
    bnds = DYN[ty][4]
    out = [("CX", b"")]                                  # canonical
    out.append(("CX", bytes(rnd.randrange(256) for _ in range(32))))
    out.append(("CX", b"\x01"))
    for n in sorted({0, 1, 31, 32, 33, 63, 64, 65, len(base) - 33, len(base) - 32, len(base) - 31, len(base) - 1}):
        if 0 <= n < len(base):
            out.append(("CT", n))
    for i in range(nw):
        orig = int.from_bytes(base[32 * i:32 * i + 32], "big")
        cand = {0, 1, 32, 64, 96, orig + 1, orig + 32, 2**255, W - 1, W - 32, 2**64, len(base), len(base) - 32, len(base) + 32, 256}
        for b in bnds:
            cand |= {b, b + 1}
        if orig >= 32:
            cand.add(orig - 32)
        cand.discard(orig)
        for w in sorted(cand):
            if 0 <= w < W:
                out.append(("CW", i, w))
    out.append(("CB", len(base) - 1, 0xFF))            # dirty padding / last data byte
    out.append(("CB", len(base) - 31, 0x80)) if len(base) >= 31 else None
    # oversized returndata: the (valid) tail object is moved to position P at/around the declared size bound and the
    # top-level offset word is redirected to it (must revert as soon as the item leaves min(returndatasize, size_bound))
    sb = SIZE_BOUND[ty]
    hw = 1 if ty in ("tup", "tupb4") else 0                      # index of the head word holding the offset
    off = int.from_bytes(base[32 * hw:32 * hw + 32], "big")
    tail = base[off:]
    for P in sorted({sb - 64, sb - 32, sb, sb + 32, sb + 64, len(base), len(base) + 32}):
        if P < len(base) or P + len(tail) > 32 * 20:
            continue
        out.append(("SEQ", [("CX", bytes(P - len(base)) + tail), ("CW", hw, P)]))
        # ... and with the length word of the moved object at the boundary values
        if ty in ("bytes5", "str7", "darr3", "darr8", "darrtok", "darrfl", "darrdec"):
            for ln in (0, bnds[0], bnds[0] + 1):
                out.append(("SEQ", [("CX", bytes(P - len(base)) + tail), ("CW", hw, P), ("CW", P // 32, ln)]))
    return [c for c in out if c is not None]


def apply_c(c, b):
    if c[0] == "SEQ":
        for x in c[1]:
            b = apply_c(x, b)
        return b
    if c[0] == "CW":
        i, w = c[1], c[2]
        return b[:32 * i] + w.to_bytes(32, "big") + b[32 * i + 32:]
    if c[0] == "CT":
        return b[:c[1]]
    if c[0] == "CX":
        return b + c[1]
    if c[0] == "CB":
        i = c[1]
        return b[:i] + bytes([c[2]]) + b[i + 1:]
    raise ValueError(c)


def coq_c(c):
    """a list of primitive corruptions (applied left to right)"""
    if c[0] == "SEQ":
        return "[" + "; ".join(coq_prim(x) for x in c[1]) + "]"
    return "[" + coq_prim(c) + "]"


def coq_prim(c):
    if c[0] == "CW":
        return f"CW {c[1]} {hexlit(c[2])}"
    if c[0] == "CT":
        return f"CT {c[1]}"
    if c[0] == "CX":
        return "CX [" + "; ".join(str(x) for x in c[1]) + "]"
    return f"CB {c[1]} {c[2]}"


def zb(b):
    return "[" + "; ".join(str(x) for x in b) + "]"


def model_expr(fn, cs, code=True, mode=0):
    """one Coq expression (list Z): for every corruption: length-prefixed dres_to_list"""
    name, ty, m, skip, dflt = fn
    coq = DYN[ty][1]
    d = f"(Some ({DEFAULTS[ty][1]}))" if dflt else "None"
    base = zb(base_encoding(ty))
    return (f"flat_map (fun c => let r := dres_to_list ({coq}) (ext_call_dyn {'true' if skip else 'false'} {d} 0 {MUTS[m][1]} ({coq}) "
            f"(scripted_callee {'true' if code else 'false'} {mode} (fold_left (fun b c0 => apply_c c0 b) c {base}))) in zlen r :: r) "
            f"[{'; '.join(coq_c(c) for c in cs)}]")


def split(v):
    out, i = [], 0
    while i < len(v):
        n = v[i]
        out.append(v[i + 1:i + 1 + n])
        i += 1 + n
    return out


def in_bounds(ty, out_bytes):
    """property oracle on a successful caller result: decodes and respects the declared bounds"""
    _vt, _coq, comps, _vals, _b = DYN[ty]
    if ty in RAW:
        # read the words raw: every word-sized slot must hold a value of its type
        try:
            vals = eth_abi.decode(RAW[ty], out_bytes, strict=False)
        except Exception as e:  # noqa
            return f"caller output does not decode: {e}"
        v = vals[0]
        ok = {"darrtok": lambda: len(v) <= 2 and all(e < 2**160 for e in v),
              "darrfl": lambda: len(v) <= 2 and all(e < 8 for e in v),
              "darrdec": lambda: len(v) <= 2 and all(e < 2**167 or e >= W - 2**167 for e in v),
              "sttok": lambda: v[0] < 2**160 and len(v[1]) <= 5,
              "tupb4": lambda: v % 2**224 == 0 and len(vals[1]) <= 5}[ty]()
        return None if ok else f"value outside the declared type: {vals!r}"
    try:
        vals = eth_abi.decode([c.replace('string', 'bytes') for c in comps], out_bytes, strict=False)
    except Exception as e:  # noqa
        return f"caller output does not decode: {e}"
    v = vals[0]
    lim = {"bytes5": lambda: len(v) <= 5, "str7": lambda: len(v) <= 7, "darr3": lambda: len(v) <= 3,
           "darr8": lambda: len(v) <= 2 and all(0 <= e < 256 for e in v),
           "tup": lambda: len(vals[1]) <= 5, "st": lambda: len(v[1]) <= 5,
           "nest": lambda: len(v) <= 2 and all(len(e) <= 4 for e in v)}[ty]()
    return None if lim else f"value outside the declared bounds: {vals!r}"


def decodes_returndata(ty, returndata, out_bytes):
    """property oracle: a successful result must be the decoding of the callee's returndata (following the offsets
    as given), re-encoded canonically -- not of anything else (e.g. stale memory behind the return buffer)."""
    comps = [c.replace("string", "bytes") for c in DYN[ty][2]]
    try:
        vals = eth_abi.decode(comps, returndata, strict=False)
        want = eth_abi.encode(comps, list(vals))
    except Exception:  # noqa  (eth_abi cannot follow this payload: no verdict)
        return None
    if want != out_bytes:
        return f"result {out_bytes.hex()[:200]} is not the decoding of the returndata ({want.hex()[:200]})"
    return None
