"""C14L: the decision kernel of ReduceLiteralsCodesize (vyper/venom/passes/literals_codesize.py).

The body of the instruction loop of `_process_bb` -- everything from `val = op.value % (2**256)` on -- is sliced out by
AST position (fail closed when the expected statements are not found) and turned into a pure function
    lit_decide(value) -> (kind, a, b)       kind 0: unchanged, 1: `not a`, 2: `shl b, a` (operands [a, b])
by replacing `inst.opcode = K; inst.operands = [IRLiteral(e1), ...]; continue` with `return (code K, e1, e2)`.  The three
string idioms `len(hex(e))`, `len(bin(e)[2:])`, `bin(e)[2:].rfind("1")` become calls of hexlen/binlen/bin_rfind1, which the
synthetic module defines by exactly those Python expressions and coq/C14L/LitBase.v defines arithmetically (validated
against CPython on every run).  The synthetic module is translated by py2coq into coq/C14L/GenLit.v."""
import ast
import importlib
import sys
import textwrap

from .common import BUILD, REPO
from .py2coq import Translator, Ty, Unsupported

MODNAME = "c14l_lit_mod"
KIND = {"not": 1, "shl": 2}


class SliceError(Unsupported):
    pass


class _Idioms(ast.NodeTransformer):
    """len(hex(e)) -> hexlen(e); len(binz) -> binlen(<bin arg>); binz.rfind("1") -> bin_rfind1(<bin arg>);
    op.value -> value"""

    def __init__(self):
        self.binvars = {}

    def visit_Attribute(self, node):
        self.generic_visit(node)
        if isinstance(node.value, ast.Name) and node.value.id == "op" and node.attr == "value":
            return ast.Name(id="value", ctx=ast.Load())
        return node

    def visit_Call(self, node):
        self.generic_visit(node)
        f = node.func
        if isinstance(f, ast.Name) and f.id == "len" and len(node.args) == 1:
            a = node.args[0]
            if isinstance(a, ast.Call) and isinstance(a.func, ast.Name) and a.func.id == "hex" and len(a.args) == 1:
                return ast.Call(func=ast.Name(id="hexlen", ctx=ast.Load()), args=[a.args[0]], keywords=[])
            if isinstance(a, ast.Name) and a.id in self.binvars:
                return ast.Call(func=ast.Name(id="binlen", ctx=ast.Load()), args=[self.binvars[a.id]], keywords=[])
        if isinstance(f, ast.Attribute) and f.attr == "rfind" and isinstance(f.value, ast.Name) and f.value.id in self.binvars \
                and len(node.args) == 1 and isinstance(node.args[0], ast.Constant) and node.args[0].value == "1":
            return ast.Call(func=ast.Name(id="bin_rfind1", ctx=ast.Load()), args=[self.binvars[f.value.id]], keywords=[])
        return node


def _is_bin_slice(v):
    """bin(e)[2:] -> e"""
    if isinstance(v, ast.Subscript) and isinstance(v.slice, ast.Slice) and v.slice.upper is None and v.slice.step is None \
            and isinstance(v.slice.lower, ast.Constant) and v.slice.lower.value == 2 \
            and isinstance(v.value, ast.Call) and isinstance(v.value.func, ast.Name) and v.value.func.id == "bin" \
            and len(v.value.args) == 1:
        return v.value.args[0]
    return None


def _rewrite_block(stmts, idi):
    """statement list of the loop body -> statement list of the pure function"""
    out = []
    opcode = None
    operands = None
    for s in stmts:
        if isinstance(s, ast.Assign) and len(s.targets) == 1:
            t = s.targets[0]
            if isinstance(t, ast.Name):
                e = _is_bin_slice(s.value)
                if e is not None:
                    idi.binvars[t.id] = idi.visit(e)
                    continue
            if isinstance(t, ast.Attribute) and isinstance(t.value, ast.Name) and t.value.id == "inst":
                if t.attr == "opcode" and isinstance(s.value, ast.Constant) and s.value.value in KIND:
                    opcode = s.value.value
                    continue
                if t.attr == "operands" and isinstance(s.value, ast.List):
                    es = []
                    for el in s.value.elts:
                        if not (isinstance(el, ast.Call) and isinstance(el.func, ast.Name) and el.func.id == "IRLiteral"
                                and len(el.args) == 1):
                            raise SliceError("operand of the rewritten instruction is not IRLiteral(e)")
                        es.append(idi.visit(el.args[0]))
                    operands = es
                    continue
                raise SliceError(f"unexpected update of the instruction: {ast.unparse(s)}")
        if isinstance(s, ast.Continue):
            if opcode is None and operands is None:
                out.append(ast.Return(value=ast.Tuple(elts=[ast.Constant(0), ast.Constant(0), ast.Constant(0)], ctx=ast.Load())))
            else:
                if opcode is None or operands is None or not (1 <= len(operands) <= 2):
                    raise SliceError("opcode/operands of the rewritten instruction not both assigned")
                want = {"not": 1, "shl": 2}[opcode]
                if len(operands) != want:
                    raise SliceError(f"{opcode} with {len(operands)} operands")
                es = operands + [ast.Constant(0)] * (2 - len(operands))
                out.append(ast.Return(value=ast.Tuple(elts=[ast.Constant(KIND[opcode])] + es, ctx=ast.Load())))
            return out
        if isinstance(s, ast.If):
            s2 = ast.If(test=idi.visit(s.test), body=_rewrite_block(s.body, idi), orelse=_rewrite_block(s.orelse, idi) if s.orelse else [])
            out.append(s2)
            continue
        if isinstance(s, (ast.Assign, ast.AugAssign, ast.Assert)):
            if isinstance(s, ast.Assert):
                s = ast.Assert(test=s.test, msg=None)
            out.append(idi.visit(s))
            continue
        if isinstance(s, ast.Expr) and isinstance(s.value, ast.Constant):
            continue
        raise SliceError(f"unexpected statement in _process_bb: {ast.unparse(s)[:80]}")
    if opcode is not None or operands is not None:
        raise SliceError("instruction updated without `continue`")
    return out


def build_module_source():
    src = (REPO / "vyper" / "venom" / "passes" / "literals_codesize.py").read_text()
    tree = ast.parse(src)
    meth = None
    for n in tree.body:
        if isinstance(n, ast.ClassDef) and n.name == "ReduceLiteralsCodesize":
            for m in n.body:
                if isinstance(m, ast.FunctionDef) and m.name == "_process_bb":
                    meth = m
    if meth is None:
        raise SliceError("ReduceLiteralsCodesize._process_bb not found")
    loops = [s for s in meth.body if isinstance(s, ast.For)]
    if len(loops) != 1 or ast.unparse(loops[0].iter) != "bb.instructions" or ast.unparse(loops[0].target) != "inst":
        raise SliceError("_process_bb: expected one loop `for inst in bb.instructions`")
    body = loops[0].body
    # guards: only `assign` of a literal is touched
    guards = [ast.unparse(s) for s in body[:3]]
    want = ["if inst.opcode != 'assign':\n    continue", "op, = inst.operands", "if not isinstance(op, IRLiteral):\n    continue"]
    if guards != want:
        raise SliceError(f"_process_bb: unexpected guards {guards}")
    rest = body[3:]
    if not rest or not ast.unparse(rest[0]).startswith("val = op.value"):
        raise SliceError("_process_bb: `val = op.value % ...` not found")
    idi = _Idioms()
    stmts = _rewrite_block(rest, idi)
    # falling off the end of the loop body = instruction unchanged
    stmts.append(ast.Return(value=ast.Tuple(elts=[ast.Constant(0), ast.Constant(0), ast.Constant(0)], ctx=ast.Load())))
    fn = ast.FunctionDef(name="lit_decide", args=ast.arguments(posonlyargs=[], args=[ast.arg(arg="value", annotation=ast.Name(id="int", ctx=ast.Load()))],
                                                               kwonlyargs=[], kw_defaults=[], defaults=[]),
                         body=stmts, decorator_list=[], returns=None, type_params=[])
    hdr = textwrap.dedent("""
        # GENERATED by tools/vlib/c14l_lit.py: decision kernel sliced from vyper/venom/passes/literals_codesize.py
        from vyper.utils import evm_not
        from vyper.venom.passes.literals_codesize import NOT_THRESHOLD, SHL_THRESHOLD


        def hexlen(x):
            return len(hex(x))


        def binlen(x):
            assert x >= 0
            return len(bin(x)[2:])


        def bin_rfind1(x):
            assert x >= 0
            return bin(x)[2:].rfind("1")
    """)
    return hdr + "\n\n" + ast.unparse(ast.fix_missing_locations(ast.Module(body=[fn], type_ignores=[]))) + "\n"


def load_module():
    BUILD.mkdir(exist_ok=True)
    src = build_module_source()
    (BUILD / f"{MODNAME}.py").write_text(src)
    if str(BUILD) not in sys.path:
        sys.path.insert(0, str(BUILD))
    sys.modules.pop(MODNAME, None)
    return importlib.import_module(MODNAME), src


def gen_coq():
    mod, src = load_module()
    bindings = {
        "hexlen": dict(coq="hexlen", args=[Ty.Z], ret=Ty.Z),
        "binlen": dict(coq="binlen", args=[Ty.Z], ret=Ty.Z, partial=True),
        "bin_rfind1": dict(coq="bin_rfind1", args=[Ty.Z], ret=Ty.Z, partial=True),
    }
    tr = Translator(MODNAME, bindings=bindings, extra_modules=["vyper.utils"])
    tr.translate_function("lit_decide")
    return tr.render(header="From Verif Require Import C14L.LitBase."), src
