"""C16 round 2: translate the two assembler loops (symbols.py:resolve_symbols, core.py:_assembly_to_evm,
_compile_data_item) to Gallina over the `item` type of coq/C16/Asm.v.

Method: the loop body is *partially evaluated per item kind*.  For each constructor of `item` the Python
class of `item` (and of `item.label` / `item.data`) is known, so every `isinstance` test is decided at
translation time and the residual straight-line code (dict updates, pc arithmetic, asserts, raises, byte
appends) is emitted in the `res` monad.  Anything outside the recognised shapes raises Unsupported (fail closed).

Deliberate erasures (documented in notes/C16.md): statements that only maintain `source_map`
(`note_line_num(...)`, `source_map[...][pc] = ...`, the local `last`) are dropped -- they cannot change
symbol_map / pc / bytes -- but the `assert i != 0` that sits among them is kept.
`f"PUSH{k}"` mnemonics produced by PUSH/PUSH_N are numbers (see c16_instr.py), `_compile_push_instruction`
is the hand model `compile_push` (InstrBridge.v)."""
import ast
import inspect
import textwrap

from .py2coq import Unsupported

# item kinds: constructor pattern, python class of `item`, fields
KINDS = [
    ("IOp", "IOp s", "str", {}),
    ("IInt", "IInt n", "int", {}),
    ("IPushLabel", "IPushLabel l", "PUSHLABEL", {"label": ("label", "l")}),
    ("ILabel", "ILabel l", "Label", {}),
    ("IPushOfstL", "IPushOfstL l o", "PUSH_OFST", {"label": ("label", "l"), "ofst": ("Z", "o")}),
    ("IPushOfstC", "IPushOfstC c o", "PUSH_OFST", {"label": ("constref", "c"), "ofst": ("Z", "o")}),
    ("IDataBytes", "IDataBytes db", "DATA_ITEM", {"data": ("LZ", "db")}),
    ("IDataLabel", "IDataLabel l", "DATA_ITEM", {"data": ("label", "l")}),
    ("IDataHeader", "IDataHeader l", "DataHeader", {"label": ("label", "l")}),
    ("IConst", "IConst c v", "CONST", {"name": ("constname", "c"), "value": ("Z", "v")}),
]
PYCLASS = {"label": "Label", "constref": "CONSTREF", "LZ": "bytes", "Z": "int", "S": "str", "B": "bool"}
ERASED_CALLS = {"note_line_num"}
ERASED_LOCALS = {"last"}
ERASED_ROOTS = {"source_map"}


class V:
    """symbolic value"""

    def __init__(self, kind, text=None, pre=None, static=None):
        self.kind, self.text, self.pre, self.static = kind, text, pre or [], static

    @property
    def pyclass(self):
        if self.kind == "static":
            return type(self.static).__name__
        if self.kind == "item":
            return self.text  # python class name of the item
        return PYCLASS.get(self.kind)


def static(v):
    return V("static", static=v)


class LoopTranslator:
    def __init__(self):
        import vyper.evm.assembler.core as core
        import vyper.evm.assembler.symbols as symbols
        self.core, self.symbols = core, symbols
        self.funcs = {}
        for m in (core, symbols):
            for node in ast.parse(inspect.getsource(m)).body:
                if isinstance(node, ast.FunctionDef):
                    self.funcs[node.name] = (node, m)
        self.tmp = 0
        self.kind = None
        self.fields = None
        self.mod = None

    def fresh(self, b="t"):
        self.tmp += 1
        return f"{b}__{self.tmp}"

    # ------------------------------------------------------------ expressions
    def const(self, name):
        v = getattr(self.mod, name, None)
        if isinstance(v, int) and not isinstance(v, bool):
            return static(v)
        return None

    def ev(self, node, env):
        if isinstance(node, ast.Constant):
            return static(node.value)
        if isinstance(node, ast.Name):
            if node.id in env:
                return env[node.id]
            c = self.const(node.id)
            if c is not None:
                return c
            raise Unsupported(f"name {node.id}")
        if isinstance(node, ast.Tuple):
            vals = [self.ev(e, env) for e in node.elts]
            if all(v.kind == "static" for v in vals):
                return static(tuple(v.static for v in vals))
            raise Unsupported("non-constant tuple")
        if isinstance(node, ast.Attribute):
            base = self.ev(node.value, env)
            if base.kind == "item":
                if node.attr in self.fields:
                    k, var = self.fields[node.attr]
                    return V(k, var)
                raise Unsupported(f"attribute {node.attr} of {self.kind}")
            raise Unsupported(f"attribute {node.attr} of {base.kind}")
        if isinstance(node, ast.BinOp) and isinstance(node.op, ast.Add):
            a, b = self.z(self.ev(node.left, env)), self.z(self.ev(node.right, env))
            if a.kind == "static" and b.kind == "static":
                return static(a.static + b.static)
            return V("Z", f"({self.txt(a)} + {self.txt(b)})", a.pre + b.pre)
        if isinstance(node, ast.BoolOp):
            return self.boolop(node, env)
        if isinstance(node, ast.UnaryOp) and isinstance(node.op, ast.Not):
            v = self.ev(node.operand, env)
            if v.kind == "static":
                return static(not v.static)
            return V("B", f"(negb {v.text})", v.pre)
        if isinstance(node, ast.Compare):
            return self.compare(node, env)
        if isinstance(node, ast.Subscript):
            return self.subscript(node, env)
        if isinstance(node, ast.Call):
            return self.call(node, env)
        raise Unsupported(f"expression {type(node).__name__}")

    def z(self, v):
        if v.kind == "static" and isinstance(v.static, int) and not isinstance(v.static, bool):
            return v
        if v.kind == "Z":
            return v
        if v.kind == "item" and v.text == "int":
            return V("Z", "n")
        raise Unsupported(f"int expected, got {v.kind}")

    def txt(self, v):
        if v.kind == "static":
            if isinstance(v.static, bool):
                return "true" if v.static else "false"
            if isinstance(v.static, int):
                return f"({v.static})" if v.static < 0 else str(v.static)
            if isinstance(v.static, str):
                return '"' + v.static + '"%string'
            raise Unsupported(f"static {v.static!r}")
        return v.text

    def s(self, v):
        if v.kind == "item" and v.text == "str":
            return V("S", "s")
        if v.kind == "S" or (v.kind == "static" and isinstance(v.static, str)):
            return v
        raise Unsupported(f"str expected, got {v.kind}")

    def boolop(self, node, env):
        is_and = isinstance(node.op, ast.And)
        parts, pre = [], []
        for sub in node.values:
            v = self.ev(sub, env)
            if v.kind == "static":
                if bool(v.static) == is_and:      # neutral element: drop
                    continue
                if not parts:                     # absorbing element first: decided statically
                    return static(not is_and)
                parts.append("false" if is_and else "true")
                break
            if v.kind != "B":
                raise Unsupported("non-bool operand of and/or")
            if v.pre and parts:
                raise Unsupported("partial operation after a dynamic short-circuit operand")
            pre += v.pre
            parts.append(v.text)
        if not parts:
            return static(is_and)
        return V("B", self._join(parts, is_and), pre)

    @staticmethod
    def _join(parts, is_and):
        return parts[0] if len(parts) == 1 else "(" + (" && " if is_and else " || ").join(parts) + ")"

    def compare(self, node, env):
        ops, operands = node.ops, [node.left] + list(node.comparators)
        vals = [self.ev(o, env) if not (isinstance(o, ast.Constant) and o.value is None) else V("none") for o in operands]
        if len(ops) == 1 and isinstance(ops[0], (ast.Is, ast.IsNot)):
            a, b = vals
            if b.kind == "none" and a.kind in ("Z", "LZ", "S"):
                return static(isinstance(ops[0], ast.IsNot))   # modelled values are never None (gate in gen_opcodes)
            raise Unsupported("is/is not")
        if len(ops) == 1 and isinstance(ops[0], (ast.Eq, ast.NotEq)):
            a, b = vals
            r = self.eq(a, b)
            if isinstance(ops[0], ast.NotEq):
                r = static(not r.static) if r.kind == "static" else V("B", f"(negb {r.text})", r.pre)
            return r
        if len(ops) == 1 and isinstance(ops[0], (ast.In, ast.NotIn)):
            a, b = vals
            if b.kind == "optable":
                sa = self.s(a) if a.pyclass == "str" else None
                r = static(False) if sa is None else V("B", f"(smem tbl {self.txt(sa)})", sa.pre)
            elif b.kind == "static" and isinstance(b.static, tuple):
                rs = [self.eq(a, static(x)) for x in b.static]
                if all(r.kind == "static" for r in rs):
                    r = static(any(r.static for r in rs))
                else:
                    r = V("B", self._join([x.text for x in rs if x.kind != "static"], False))
            else:
                raise Unsupported("`in` right operand")
            if isinstance(ops[0], ast.NotIn):
                r = static(not r.static) if r.kind == "static" else V("B", f"(negb {r.text})", r.pre)
            return r
        # ordering chain on ints
        sym = {ast.Lt: "<?", ast.LtE: "<=?", ast.Gt: ">?", ast.GtE: ">=?"}
        parts, pre = [], []
        for i, op in enumerate(ops):
            if type(op) not in sym:
                raise Unsupported(f"compare {type(op).__name__}")
            a, b = self.z(vals[i]), self.z(vals[i + 1])
            pre += a.pre + b.pre
            parts.append(f"({self.txt(a)} {sym[type(op)]} {self.txt(b)})")
        return V("B", self._join(parts, True), pre)

    def eq(self, a, b):
        """python == between symbolic values"""
        if a.kind == "static" and b.kind == "static":
            return static(a.static == b.static)
        ca, cb = a.pyclass, b.pyclass
        if ca != cb:
            return static(False)   # different classes never compare equal here (str vs Label/int/...)
        if ca == "str":
            x, y = self.s(a), self.s(b)
            return V("B", f"(String.eqb {self.txt(x)} {self.txt(y)})", x.pre + y.pre)
        if ca == "int":
            x, y = self.z(a), self.z(b)
            return V("B", f"({self.txt(x)} =? {self.txt(y)})", x.pre + y.pre)
        raise Unsupported(f"== on {ca}")

    def subscript(self, node, env):
        base = self.ev(node.value, env)
        sl = node.slice
        if base.kind == "map":
            k = self.ev(sl, env)
            if k.kind not in ("label", "constref"):
                raise Unsupported(f"map key {k.kind}")
            t = self.fresh()
            return V("Z", t, k.pre + [(t, f"get {base.text} {k.text}")])
        if base.kind == "optable":
            k = self.s(self.ev(sl, env))
            return V("opentry", self.txt(k), k.pre)
        if base.kind == "opentry":
            i = self.ev(sl, env)
            if not (i.kind == "static" and i.static == 0):
                raise Unsupported("opcode tuple index")
            t = self.fresh()
            return V("Z", t, base.pre + [(t, f"sget tbl {base.text}")])
        if base.pyclass == "str" and isinstance(sl, ast.Slice) and sl.step is None:
            sv = self.s(base)
            lo = None if sl.lower is None else self.ev(sl.lower, env)
            hi = None if sl.upper is None else self.ev(sl.upper, env)
            for b in (lo, hi):
                if b is not None and not (b.kind == "static" and isinstance(b.static, int) and b.static >= 0):
                    raise Unsupported("slice bound")
            if lo is None and hi is not None:
                return V("S", f"(str_take {hi.static} {self.txt(sv)})", sv.pre)
            if hi is None and lo is not None:
                return V("S", f"(str_drop {lo.static} {self.txt(sv)})", sv.pre)
        raise Unsupported(f"subscript on {base.kind}")

    def call(self, node, env):
        f = node.func
        kw = {k.arg: k.value for k in node.keywords}
        if isinstance(f, ast.Name):
            nm = f.id
            if nm == "isinstance":
                x = self.ev(node.args[0], env)
                t = node.args[1]
                names = [e.id for e in t.elts] if isinstance(t, ast.Tuple) else [t.id]
                if x.pyclass is None:
                    raise Unsupported(f"isinstance on {x.kind}")
                cls = x.pyclass
                return static(cls in names or (cls == "bool" and "int" in names))
            if nm == "len":
                x = self.ev(node.args[0], env)
                if x.kind != "LZ":
                    raise Unsupported("len of non-bytes")
                return V("Z", f"(zlen {x.text})", x.pre)
            if nm == "int":
                x = self.s(self.ev(node.args[0], env))
                t = self.fresh()
                return V("Z", t, x.pre + [(t, f"py_int_of_str {self.txt(x)}")])
            if nm == "get_opcodes" and not node.args:
                return V("optable")
            if nm == "calc_push_size":
                x = self.z(self.ev(node.args[0], env))
                t = self.fresh()
                return V("Z", t, x.pre + [(t, f"GenAsmInstr.calc_push_size evm {self.txt(x)}")])
            if nm == "PUSH":
                x = self.z(self.ev(node.args[0], env))
                t = self.fresh()
                return V("pushasm", t, x.pre + [(t, f"GenAsmInstr.PUSH evm {self.txt(x)}")])
            if nm == "PUSH_N":
                x = self.z(self.ev(node.args[0], env))
                n = self.z(self.ev(node.args[1] if len(node.args) > 1 else kw["n"], env))
                t = self.fresh()
                return V("pushasm", t, x.pre + n.pre + [(t, f"GenAsmInstr.PUSH_N {self.txt(x)} {self.txt(n)}")])
            if nm == "_compile_push_instruction":
                x = self.ev(node.args[0], env)
                if x.kind != "pushasm":
                    raise Unsupported("_compile_push_instruction of a non-PUSH result")
                t = self.fresh()
                return V("LZ", t, x.pre + [(t, f"compile_push {x.text}")])
            if nm == "Label":
                a = self.ev(node.args[0], env)
                if a.kind == "static" and a.static == "code_end":
                    return V("label", "CODE_END")
                raise Unsupported("Label(...) of a non-magic name")
            if nm == "CONSTREF":
                a = self.ev(node.args[0], env)
                if a.kind == "constname":
                    return V("constref", a.text)
                raise Unsupported("CONSTREF(...)")
            if nm == "bytes" and len(node.args) == 1:
                a = self.ev(node.args[0], env)
                if a.kind == "LZ":
                    return a     # every element was range-checked when appended
                raise Unsupported("bytes(...)")
            if nm in self.funcs and nm not in ERASED_CALLS:
                return self.inline(nm, node, env)
            raise Unsupported(f"call {nm}")
        if isinstance(f, ast.Attribute):
            base = self.ev(f.value, env)
            if f.attr == "upper" and base.pyclass == "str" and not node.args:
                sv = self.s(base)
                return V("S", f"(str_upper {self.txt(sv)})", sv.pre)
            if f.attr == "to_bytes" and base.kind == "Z":
                n = self.ev(node.args[0], env)
                order = self.ev(node.args[1], env)
                if not (n.kind == "static" and order.kind == "static" and order.static == "big"):
                    raise Unsupported("to_bytes arguments")
                t = self.fresh()
                return V("LZ", t, base.pre + [(t, f"to_bytes_be {base.text} {n.static}")])
            raise Unsupported(f"method {f.attr} on {base.kind}")
        raise Unsupported("call of computed function")

    def inline(self, nm, node, env):
        fdef, mod = self.funcs[nm]
        params = [a.arg for a in fdef.args.args]
        if len(params) != len(node.args) or node.keywords:
            raise Unsupported(f"call shape of {nm}")
        env2 = {p: self.ev(a, env) for p, a in zip(params, node.args)}
        box = {}

        def ret(v):
            box.setdefault("kind", v.kind)
            if box["kind"] != v.kind:
                raise Unsupported("inlined function returns different kinds")
            return self.wrap(v.pre, f"Ok {v.text}")

        saved = self.mod
        self.mod = mod
        try:
            body = self.block(fdef.body, env2, on_return=ret, fall=lambda e: (_ for _ in ()).throw(Unsupported(f"{nm} may fall off the end")))
        finally:
            self.mod = saved
        t = self.fresh()
        return V(box.get("kind", "LZ"), t, [(t, "(" + body + ")")])

    # ------------------------------------------------------------ statements
    def wrap(self, pre, body):
        for v, m in reversed(pre):
            body = f"{v} <- {m} ;;\n{body}"
        return body

    def erased_target(self, t):
        while isinstance(t, (ast.Subscript, ast.Attribute)):
            t = t.value
        return isinstance(t, ast.Name) and t.id in ERASED_ROOTS

    def only_erased(self, stmts):
        for s in stmts:
            if isinstance(s, ast.Assign) and len(s.targets) == 1 and (
                    self.erased_target(s.targets[0]) or (isinstance(s.targets[0], ast.Name) and s.targets[0].id in ERASED_LOCALS)):
                continue
            if isinstance(s, ast.Expr) and isinstance(s.value, ast.Call) and isinstance(s.value.func, ast.Name) \
                    and s.value.func.id in ERASED_CALLS:
                continue
            if isinstance(s, ast.If) and self.only_erased(s.body) and self.only_erased(s.orelse):
                continue
            return False
        return True

    def block(self, stmts, env, on_return=None, fall=None, on_continue=None):
        if not stmts:
            return fall(env)
        s, rest = stmts[0], stmts[1:]
        nxt = lambda e: self.block(rest, e, on_return, fall, on_continue)  # noqa
        if isinstance(s, ast.Expr) and isinstance(s.value, ast.Constant):
            return nxt(env)
        if isinstance(s, ast.Pass):
            return nxt(env)
        if isinstance(s, ast.Continue):
            return on_continue(env)
        if isinstance(s, ast.Return):
            return on_return(self.ev(s.value, env))
        if isinstance(s, ast.Raise):
            return "Err Raised"
        if isinstance(s, ast.Assert):
            c = self.ev(s.test, env)
            if c.kind == "static":
                return nxt(env) if c.static else "Err AssertFail"
            return self.wrap(c.pre, f"if {c.text} then\n{textwrap.indent(nxt(env), '  ')}\nelse Err AssertFail")
        if isinstance(s, ast.Expr) and isinstance(s.value, ast.Call):
            c = s.value
            if isinstance(c.func, ast.Name) and c.func.id in ERASED_CALLS:
                return nxt(env)
            if isinstance(c.func, ast.Name) and c.func.id == "_add_to_symbol_map":
                m, k, v = (self.ev(a, env) for a in c.args)
                if m.kind != "map":
                    raise Unsupported("_add_to_symbol_map target")
                if k.kind == "item" and k.text == "Label":
                    k = V("label", "l")
                if k.kind not in ("label", "constref"):
                    raise Unsupported(f"symbol key {k.kind}")
                v = self.z(v)
                e2 = dict(env)
                return self.wrap(k.pre + v.pre, f"{m.text} <- add_sym {m.text} {k.text} {self.txt(v)} ;;\n{nxt(e2)}")
            if isinstance(c.func, ast.Attribute) and isinstance(c.func.value, ast.Name) and c.func.value.id in env \
                    and env[c.func.value.id].kind == "LZ" and c.func.attr in ("extend", "append"):
                var = env[c.func.value.id].text
                a = self.ev(c.args[0], env)
                if c.func.attr == "extend":
                    if a.kind != "LZ":
                        raise Unsupported("extend with non-bytes")
                    return self.wrap(a.pre, f"let {var} := {var} ++ {a.text} in\n{nxt(env)}")
                a = self.z(a)
                return self.wrap(a.pre, f"if byte_ok {self.txt(a)} then\n  let {var} := {var} ++ [{self.txt(a)}] in\n"
                                        f"{textwrap.indent(nxt(env), '  ')}\nelse Err Raised")
            raise Unsupported("expression statement")
        if isinstance(s, ast.AugAssign) and isinstance(s.target, ast.Name) and isinstance(s.op, ast.Add):
            cur = env.get(s.target.id)
            if cur is None or cur.kind != "Z":
                raise Unsupported("augmented assignment target")
            v = self.z(self.ev(s.value, env))
            return self.wrap(v.pre, f"let {cur.text} := {cur.text} + {self.txt(v)} in\n{nxt(env)}")
        if isinstance(s, ast.Assign) and len(s.targets) == 1:
            t = s.targets[0]
            if self.erased_target(t) or (isinstance(t, ast.Name) and t.id in ERASED_LOCALS):
                return nxt(env)
            if isinstance(t, ast.Name):
                v = self.ev(s.value, env)
                if v.kind == "static":
                    e2 = dict(env)
                    e2[t.id] = v
                    return nxt(e2)
                if v.kind not in ("Z", "LZ", "S", "B", "label", "constref"):
                    raise Unsupported(f"assignment of {v.kind}")
                e2 = dict(env)
                e2[t.id] = V(v.kind, t.id)
                return self.wrap(v.pre, f"let {t.id} := {v.text} in\n{nxt(e2)}")
            raise Unsupported("assignment target")
        if isinstance(s, ast.If) and self.only_erased(s.body) and self.only_erased(s.orelse):
            return nxt(env)      # pure source-map bookkeeping; its condition is not evaluated (assumed effect-free)
        if isinstance(s, ast.If):
            c = self.ev(s.test, env)
            if c.kind == "static":
                return self.block((s.body if c.static else list(s.orelse)) + rest, env, on_return, fall, on_continue)
            if c.kind != "B":
                raise Unsupported("non-bool condition")
            a = self.block(s.body + rest, env, on_return, fall, on_continue)
            b = self.block(list(s.orelse) + rest, env, on_return, fall, on_continue)
            if a == b and not c.pre:
                return a     # both branches only differed in erased bookkeeping
            return self.wrap(c.pre, f"if {c.text} then\n{textwrap.indent(a, '  ')}\nelse\n{textwrap.indent(b, '  ')}")
        raise Unsupported(f"statement {type(s).__name__}")

    # ------------------------------------------------------------ the loops
    def find_loops(self, fname):
        fdef, mod = self.funcs[fname]
        return [n for n in fdef.body if isinstance(n, ast.For)], mod, fdef

    def per_kind(self, body, base_env, result, item_name="item"):
        arms = []
        for kind, pat, cls, fields in KINDS:
            self.kind, self.fields = kind, fields
            env = dict(base_env)
            env[item_name] = V("item", cls)
            txt = self.block(body, env, fall=lambda e: result(e), on_continue=lambda e: result(e))
            arms.append(f"  | {pat} =>\n{textwrap.indent(txt, '      ')}")
        return "\n".join(arms)

    def translate(self):
        out = []
        # ---- pass 1
        loops, mod, fdef = self.find_loops("resolve_symbols")
        if len(loops) != 2:
            raise Unsupported("resolve_symbols no longer has exactly two loops")
        self.mod = mod
        l1, l2 = loops
        if not (isinstance(l1.target, ast.Name) and isinstance(l1.iter, ast.Name) and l1.iter.id == "assembly"):
            raise Unsupported("first loop header")
        arms = self.per_kind(l1.body, {"const_map": V("map", "cm")}, lambda e: "Ok cm", l1.target.id)
        out.append("Definition gen_const_item (it : item) (cm : list (Z * Z)) : res (list (Z * Z)) :=\n"
                   f"  match it with\n{arms}\n  end.")
        if not (isinstance(l2.target, ast.Tuple) and len(l2.target.elts) == 2 and isinstance(l2.iter, ast.Call)
                and getattr(l2.iter.func, "id", None) == "enumerate" and l2.iter.args[0].id == "assembly"):
            raise Unsupported("second loop header")
        iv, itv = (e.id for e in l2.target.elts)
        env = {"symbol_map": V("map", "sm"), "const_map": V("map", "cm"), "pc": V("Z", "pc"), iv: V("Z", "i")}
        arms = self.per_kind(l2.body, env, lambda e: "Ok (sm, pc)", itv)
        out.append("Definition gen_resolve_item (cm : list (Z * Z)) (i : Z) (it : item) (sm : list (Z * Z)) (pc : Z)\n"
                   "  : res (list (Z * Z) * Z) :=\n" f"  match it with\n{arms}\n  end.")
        # statements after the loops that touch symbol_map: the magic code_end label
        tail = [n for n in fdef.body[fdef.body.index(l2) + 1:]
                if not (isinstance(n, ast.Assign) and self.erased_target(n.targets[0])) and not isinstance(n, ast.Return)]
        self.kind, self.fields = None, {}
        t = self.block(tail, {"symbol_map": V("map", "sm"), "pc": V("Z", "pc")}, fall=lambda e: "Ok sm")
        out.append(f"Definition gen_resolve_finish (sm : list (Z * Z)) (pc : Z) : res (list (Z * Z)) :=\n{textwrap.indent(t, '  ')}.")
        # ---- pass 2
        loops, mod, fdef = self.find_loops("_assembly_to_evm")
        if len(loops) != 1:
            raise Unsupported("_assembly_to_evm no longer has exactly one loop")
        self.mod = mod
        lp = loops[0]
        env = {"symbol_map": V("map", "sm"), "const_map": V("map", "cm"), "ret": V("LZ", "ret")}
        arms = self.per_kind(lp.body, env, lambda e: "Ok ret", lp.target.id)
        out.append("Definition gen_emit_item (sm cm : list (Z * Z)) (it : item) : res (list Z) :=\n"
                   "  let ret := (@nil Z) in\n" f"  match it with\n{arms}\n  end.")
        return out


TEMPLATE_TAIL = """
(* the loops themselves (`for item in assembly`, `for i, item in enumerate(assembly)`) *)
Fixpoint gen_collect_consts (asm : list item) (cm : list (Z * Z)) : res (list (Z * Z)) :=
  match asm with
  | [] => Ok cm
  | it :: r => cm' <- gen_const_item it cm ;; gen_collect_consts r cm'
  end.

Fixpoint gen_resolve_walk (cm : list (Z * Z)) (asm : list item) (i : Z) (sm : list (Z * Z)) (pc : Z)
  : res (list (Z * Z) * Z) :=
  match asm with
  | [] => Ok (sm, pc)
  | it :: r => '(sm', pc') <- gen_resolve_item cm i it sm pc ;; gen_resolve_walk cm r (i + 1) sm' pc'
  end.

Fixpoint gen_emit (sm cm : list (Z * Z)) (asm : list item) : res (list Z) :=
  match asm with
  | [] => Ok []
  | it :: r => b <- gen_emit_item sm cm it ;; bs <- gen_emit sm cm r ;; Ok (b ++ bs)
  end.

(* assembly_to_evm = resolve_symbols then _assembly_to_evm *)
Definition gen_assemble (asm : list item) : res (list Z * list (Z * Z) * list (Z * Z)) :=
  cm <- gen_collect_consts asm [] ;;
  '(sm, pc) <- gen_resolve_walk cm asm 0 [] 0 ;;
  sm' <- gen_resolve_finish sm pc ;;
  bs <- gen_emit sm' cm asm ;;
  Ok (bs, sm', cm).
"""


def gen_loops():
    tr = LoopTranslator()
    defs = tr.translate()
    head = ["(* GENERATED by tools/vlib/c16_loops.py from vyper/evm/assembler/{symbols,core}.py -- do not edit *)",
            "From Coq Require Import ZArith Bool List String.",
            "From Verif Require Import Base.PyInt C16.Asm C16.InstrBridge C16.LoopsPrelude C16.GenAsmInstr.",
            "Import ListNotations.", "Open Scope list_scope.", "Open Scope Z_scope.", "",
            "Section Loops.", "Variable tbl : list (string * Z).  (* get_opcodes() *)",
            "Variable evm : Z.                    (* active EVM version index *)", ""]
    return "\n".join(head) + "\n\n".join(defs) + "\n" + TEMPLATE_TAIL + "\nEnd Loops.\n"
