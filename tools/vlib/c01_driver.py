"""Shared driver for C01/C02/C08: generate programs, evaluate VyCore, run all configurations, diff."""
import multiprocessing as mp
import time

from vlib import c01_harness as H
from vlib.c01_ast import count_kinds
from vlib.c01_gen import Gen, ALL_FEATURES
from vlib.configs import compile_src, Config

REF_CFG = Config(False, "gas", "prague")
PRE_CANCUN = ("london", "paris", "shanghai")
# compile-time rejections that are a documented outcome for some configuration only
BENIGN_REJECT = ("StaticAssertionException",)


def cfg_applicable(prog, cfg):
    return not (prog.uses_transient() and cfg.evm in PRE_CANCUN)


def filter_calls(calls, results, keep, max_revert_frac=0.25):
    """drop reverted calls (they leave no trace in the state, so the other results stay valid) until at most
    max_revert_frac of the kept calls revert; keep at most `keep` calls (a prefix, so state stays consistent)."""
    idx = list(range(len(calls)))
    if calls and getattr(calls[0], "deploy", False):
        if results[0][0] != "ok":          # the constructor reverts: there is no contract to call
            return [calls[0]], [results[0]], [0]
    ok = [i for i in idx if results[i][0] == "ok"]
    rv = [i for i in idx if results[i][0] != "ok"]
    allow = max(1, int(max_revert_frac * max(len(ok), 1)))
    rv_probe = [i for i in rv if getattr(calls[i], "probe", False)]      # boundary probes: the revert IS the test
    rv_rand = [i for i in rv if not getattr(calls[i], "probe", False)]
    chosen = sorted(ok + rv_probe + rv_rand[:allow])
    # cutting a suffix is always sound; cutting a reverted call in the middle is sound too.  The cap counts the random
    # calls only: probe calls (fixed boundary arguments of the operator/feature probes) are cheap and are all kept.
    cut, n_rand = len(chosen), 0
    for pos, i in enumerate(chosen):
        if not getattr(calls[i], "probe", False):
            n_rand += 1
            if n_rand > keep:
                cut = pos
                break
    chosen = chosen[:cut]
    return [calls[i] for i in chosen], [results[i] for i in chosen], chosen


def generate(ctx, salt, nprog, features=None, ncalls=8, size=1.0, stats=None, nprobe=0):
    """-> list of dict(prog, calls, model=(results, final)), statistics.  The first `nprobe` programs consist of probe
    functions only (operator table, boundaries): small, so the quick tier runs them under every configuration."""
    stats = stats if stats is not None else {}
    stats.setdefault("generated", 0)
    stats.setdefault("rejected_by_compiler", 0)
    stats.setdefault("reject_reasons", {})
    progs = []
    k = 0
    while len(progs) < nprog and k < nprog * 3:
        po = len(progs) < nprobe
        g = Gen(ctx.rng(f"{salt}:{k}"), features, size, index=len(progs) + nprog * (ctx.seed % 8), probe_only=po)
        k += 1
        p = g.program()
        stats["generated"] += 1
        try:
            compile_src(p.vy(), REF_CFG, formats=("bytecode",))
        except Exception as e:  # generator imperfection (or a front-end bug: those belong to C11/C20)
            stats["rejected_by_compiler"] += 1
            key = type(e).__name__
            stats["reject_reasons"][key] = stats["reject_reasons"].get(key, 0) + 1
            continue
        progs.append((p, g.calls(p, 2 if po else ncalls * 2)))
    models = H.model_eval(progs, f"{ctx.pid}{salt}")
    items = []
    for (p, calls), (res, fin) in zip(progs, models):
        cs, rs, chosen = filter_calls(calls, res, ncalls + 12, max_revert_frac=0.4)
        items.append({"prog": p, "calls": cs, "all_calls": calls, "chosen": chosen, "model": (rs, None),
                      "all_configs": len(items) < nprobe})
    # final storage must be recomputed for the kept prefix: re-evaluate the kept sequences
    # (only where calls were dropped; otherwise the first evaluation already is the answer)
    redo = [it for it in items if len(it["calls"]) != len(it["all_calls"])]
    for it, m in zip(items, models):
        if len(it["calls"]) == len(it["all_calls"]):
            it["model"] = m
    models2 = H.model_eval([(it["prog"], it["calls"]) for it in redo], f"{ctx.pid}{salt}b") if redo else []
    for it, m in zip(redo, models2):
        it["model"] = m
    kinds = stats.setdefault("node_kinds", {})
    for it in items:
        count_kinds(it["prog"], kinds)
    return items, stats


def raise_site(e):
    """'file.py:function' of the innermost vyper frame of an exception (stable across message details)"""
    import traceback
    site = ""
    for fr in traceback.extract_tb(e.__traceback__):
        if "/vyper/" in fr.filename:
            site = fr.filename.split("/vyper/", 1)[1] + ":" + fr.name
    return site


_ITEMS = None
_CFGS = None


def _observe_one(args):
    i, j = args
    it, cfg = _ITEMS[i], _CFGS[j]
    t0 = time.time()
    try:
        mf = it["model"][1] if it.get("model") is not None else None
        obs = H.observe(it["prog"], cfg, it["calls"], it.get("src"), model_final=mf)
        return (i, j, "ok", obs, time.time() - t0)
    except Exception as e:
        return (i, j, "exc", (type(e).__name__, str(e)[:400], raise_site(e)), time.time() - t0)


def sample_configs(items, cfgs, per_item, salt=0):
    """quick tier: every program runs under `per_item` of the configurations, rotating so that every configuration is used by
    about the same number of programs (items carrying a fixed key - minimized past failures - keep all configurations)"""
    n = len(cfgs)
    for i, it in enumerate(items):
        if it.get("key") or it.get("all_configs") or per_item >= n:
            continue
        chosen = {(i * per_item + salt + k * (n // per_item if per_item else 1) + (i // n)) % n for k in range(per_item)}
        k = 0
        while len(chosen) < per_item:
            chosen.add((i + k) % n)
            k += 1
        prev = it.get("applicable", lambda c: True)
        names = {cfgs[j].name for j in chosen}
        it["applicable"] = (lambda c, prev=prev, names=names: prev(c) and c.name in names)


def observe_all(items, cfgs, procs=3):
    """-> dict (i, j) -> ('ok', obs) | ('exc', (type, msg))"""
    global _ITEMS, _CFGS
    _ITEMS, _CFGS = items, cfgs
    for it in items:
        it.setdefault("src", it["prog"].vy() if it.get("prog") is not None and hasattr(it["prog"], "vy") else it.get("src"))
    work = [(i, j) for i in range(len(items)) for j in range(len(cfgs))
            if items[i].get("applicable", lambda c: True)(cfgs[j])]
    out = {}
    if procs <= 1 or len(work) < 8:
        for w in work:
            r = _observe_one(w)
            out[(r[0], r[1])] = (r[2], r[3])
        return out
    ctxm = mp.get_context("fork")
    with ctxm.Pool(procs) as pool:
        for r in pool.imap_unordered(_observe_one, work, chunksize=4):
            out[(r[0], r[1])] = (r[2], r[3])
    return out


def revert_stats(items):
    n = sum(len(it["model"][0]) for it in items)
    rv = sum(1 for it in items for r in it["model"][0] if r[0] != "ok")
    first_stmt = 0
    return {"calls": n, "reverting": rv, "revert_ratio": round(rv / max(n, 1), 3)}
