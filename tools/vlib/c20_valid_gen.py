"""C20: generator of (intended-)VALID Vyper programs over many language features.  A program the front end rejects
is simply not counted (the property concerns programs accepted by semantic analysis), so the generator does not
have to be perfect; it has to be broad.  Everything derives from the `random.Random` passed in."""

INT_TYPES = ["uint256", "uint8", "uint128", "int128", "int256", "int8", "uint64"]


class VG:
    def __init__(self, rnd):
        self.r = rnd
        self.n = 0

    def fresh(self, p="t"):
        self.n += 1
        return f"{p}{self.n}"

    # ---- expressions: env maps type -> list of variable names (readable)
    def lit(self, t):
        r = self.r
        if t == "DynArray[uint256, 5]":
            return r.choice(["[]", "[1, 2, 3]", "[7]", "empty(DynArray[uint256, 5])"])
        if t == "uint256[3]":
            return r.choice(["[1, 2, 3]", "empty(uint256[3])"])
        if t.startswith("uint"):
            bits = int(t[4:])
            return str(r.choice([0, 1, 2, 7, 3, r.randrange(2 ** min(bits, 7))]))
        if t.startswith("int"):
            bits = int(t[3:])
            return str(r.choice([0, 1, -1, 5, r.randrange(-100, 100)]))
        if t == "bool":
            return r.choice(["True", "False"])
        if t == "address":
            return r.choice(["msg.sender", "self", "empty(address)", "0x0000000000000000000000000000000000000123", "tx.origin"])
        if t == "bytes32":
            return r.choice(["empty(bytes32)", "keccak256(b\"ab\")", "0x" + "ab" * 32, "block.prevhash"])
        if t == "bytes4":
            return r.choice(["0x01020304", "empty(bytes4)"])
        if t == "decimal":
            return r.choice(["0.0", "1.5", "-2.25", "100.0", "0.0000000001"])
        if t == "Bytes[32]":
            return r.choice(['b""', 'b"abc"', 'b"\\x01\\x02"', "empty(Bytes[32])"])
        if t == "String[16]":
            return r.choice(['""', '"hello"', '"a b c"', "empty(String[16])"])
        if t == "DynArray[uint256, 5]":
            return r.choice(["[]", "[1, 2, 3]", "[7]", "empty(DynArray[uint256, 5])"])
        if t == "uint256[3]":
            return r.choice(["[1, 2, 3]", "empty(uint256[3])"])
        if t == "P":
            return "P(a=" + self.lit("uint256") + ", b=" + self.lit("int128") + ", c=" + self.lit("bool") + ")"
        if t == "F":
            return r.choice(["F.A", "F.B", "F.A | F.C", "empty(F)"])
        raise ValueError(t)

    def var(self, t, env):
        c = env.get(t, [])
        return self.r.choice(c) if c and self.r.random() < 0.7 else None

    def expr(self, t, env, d=2):
        r = self.r
        v = self.var(t, env)
        if d <= 0 or r.random() < 0.25:
            return v or self.lit(t)
        e = lambda tt=t, dd=d - 1: self.expr(tt, env, dd)  # noqa
        if t in INT_TYPES:
            signed = t.startswith("int")
            k = r.randrange(16)
            if k == 0:
                return f"({e()} + {e()})"
            if k == 1:
                return f"({e()} - {e()})"
            if k == 2:
                return f"({e()} * {e()})"
            if k == 3:
                return f"({e()} // {self.nonzero(t, env)})"
            if k == 4:
                return f"({e()} % {self.nonzero(t, env)})"
            if k == 5:
                return f"min({e()}, {e()})"
            if k == 6:
                return f"max({e()}, {e()})"
            if k == 7 and not signed:
                return f"({e()} & {e()})" if r.random() < 0.5 else f"({e()} | {e()})"
            if k == 8 and t == "uint256":
                return r.choice([f"({e()} << 3)", f"({e()} >> {e()})", f"pow_mod256({e()}, {e()})",
                                 f"unsafe_add({e()}, {e()})", f"unsafe_mul({e()}, {e()})", f"uint256_addmod({e()}, {e()}, 7)",
                                 f"len({self.expr('DynArray[uint256, 5]', env, 0)})", f"len({self.expr('Bytes[32]', env, 0)})",
                                 "block.timestamp", "block.number", "msg.gas", "self.balance", "chain.id", "self.counter",
                                 f"convert({self.expr('bytes32', env, d - 1)}, uint256)", f"convert({self.expr('uint8', env, d - 1)}, uint256)",
                                 f"convert({self.expr('bool', env, d - 1)}, uint256)", f"self.m[{self.expr('address', env, 0)}]",
                                 f"self.arr[{e()} % 3]", f"self.pt.a", f"(2 ** 7)", f"({e()} ** 2)", f"(3 ** ({e()} % 5))",
                                 f"self._sq({e()})", f"self._opt({e()})", f"self._opt({e()}, {e()})", f"self._pair({e()})[0]"])
            if k == 9:
                return f"({e()} if {self.expr('bool', env, d - 1)} else {e()})"
            if k == 10 and signed:
                return f"abs({e()})" if t == "int256" else f"(-{e()})"
            if k == 11:
                src = r.choice([x for x in INT_TYPES if x != t])
                return f"convert({self.expr(src, env, d - 1)}, {t})"
            if k == 12:
                return f"max_value({t})" if r.random() < 0.5 else f"min_value({t})"
            if k == 13 and t == "int128":
                return "self.pt.b"
            if k == 14 and t == "uint8":
                return f"convert({self.expr('uint256', env, d - 1)} % 256, uint8)"
            return v or self.lit(t)
        if t == "bool":
            k = r.randrange(9)
            it = r.choice(INT_TYPES)
            if k == 0:
                return f"({self.expr(it, env, d - 1)} {r.choice(['<', '<=', '>', '>=', '==', '!='])} {self.expr(it, env, d - 1)})"
            if k == 1:
                return f"({e()} and {e()})"
            if k == 2:
                return f"({e()} or {e()})"
            if k == 3:
                return f"(not {e()})"
            if k == 4:
                return f"({self.expr('address', env, 0)} == {self.expr('address', env, 0)})"
            if k == 5:
                return f"({self.expr('uint256', env, d - 1)} in [1, 2, 3])"
            if k == 6:
                return f"({self.expr('F', env, d - 1)} in {self.expr('F', env, 0)})"
            if k == 7:
                return r.choice(["self.pt.c", f"{self.expr('address', env, 0)}.is_contract", f"({self.expr('bytes32', env, 0)} != empty(bytes32))"])
            return v or self.lit(t)
        if t == "address":
            return v or self.lit(t)
        if t == "bytes32":
            k = r.randrange(6)
            if k == 0:
                return f"keccak256({self.expr('Bytes[32]', env, d - 1)})"
            if k == 1:
                return f"sha256({self.expr('Bytes[32]', env, d - 1)})"
            if k == 2:
                return f"convert({self.expr('uint256', env, d - 1)}, bytes32)"
            if k == 3:
                return f"keccak256({self.expr('String[16]', env, d - 1)})"
            if k == 4:
                return f"keccak256(abi_encode({self.expr('uint256', env, d - 1)}, {self.expr('address', env, 0)}))"
            return v or self.lit(t)
        if t == "decimal":
            k = r.randrange(6)
            if k == 0:
                return f"({e()} + {e()})"
            if k == 1:
                return f"({e()} * {e()})"
            if k == 2:
                return f"({e()} / 2.0)"
            if k == 3:
                return f"convert({self.expr('int128', env, d - 1)}, decimal)"
            if k == 4:
                return f"(-{e()})"
            return v or self.lit(t)
        if t == "Bytes[32]":
            k = r.randrange(5)
            if k == 0:
                return f"slice({e()}, 0, 1)" if r.random() < 0.0 else f"slice(concat({e()}, b\"0123456789abcdef0123456789abcdef\"), 1, 32)"
            if k == 1:
                return f"convert({self.expr('String[16]', env, d - 1)}, Bytes[32])"
            if k == 2:
                return f"abi_encode({self.expr('uint256', env, d - 1)}, ensure_tuple=False)"
            return v or self.lit(t)
        if t == "String[16]":
            k = r.randrange(4)
            if k == 0:
                return f"slice(concat({e()}, \"0123456789abcdef\"), 0, 16)"
            if k == 1:
                return f"slice(uint2str({self.expr('uint8', env, d - 1)}), 0, 3)"
            return v or self.lit(t)
        if t == "P":
            k = r.randrange(3)
            if k == 0:
                return f"P(a={self.expr('uint256', env, d - 1)}, b={self.expr('int128', env, d - 1)}, c={self.expr('bool', env, d - 1)})"
            if k == 1:
                return "self.pt"
            return v or self.lit(t)
        if t == "F":
            k = r.randrange(4)
            if k == 0:
                return f"({e()} | {e()})"
            if k == 1:
                return f"({e()} & {e()})"
            if k == 2:
                return f"(~{e()})"
            return v or self.lit(t)
        return v or self.lit(t)

    def nonzero(self, t, env):
        if t.startswith("uint"):
            return f"({self.expr(t, env, 0)} | 1)" if self.r.random() < 0.5 else self.r.choice(["3", "7", "255"])
        return self.r.choice(["3", "-7", "5"])

    # ---- statements
    def stmts(self, env, mut, depth, n, in_loop=False, ind="    "):
        r = self.r
        out = []
        env = {k: list(v) for k, v in env.items()}
        writes = mut in ("nonpayable", "payable")
        reads = mut != "pure"
        for _ in range(n):
            k = r.randrange(24)
            t = r.choice(INT_TYPES + ["bool", "address", "bytes32", "decimal", "Bytes[32]", "String[16]", "P", "F",
                                      "DynArray[uint256, 5]", "uint256[3]"])
            sub_env = env if reads else {kk: [x for x in vv if not x.startswith("self.")] for kk, vv in env.items()}
            ex = lambda tt, d=2: self.expr(tt, sub_env, d) if reads else self.pure_expr(tt, sub_env, d)  # noqa
            if k <= 4:
                v = self.fresh("v")
                out.append(f"{ind}{v}: {t} = {ex(t)}")
                env.setdefault(t, []).append(v)
            elif k == 5:
                c = [x for x in env.get(t, []) if x.startswith("v")]
                if c:
                    out.append(f"{ind}{r.choice(c)} = {ex(t)}")
            elif k == 6:
                it = r.choice(INT_TYPES)
                c = [x for x in env.get(it, []) if x.startswith("v")]
                if c:
                    out.append(f"{ind}{r.choice(c)} {r.choice(['+=', '-=', '*='])} {ex(it, 1)}")
            elif k == 7 and depth > 0:
                out.append(f"{ind}if {ex('bool')}:")
                out += self.stmts(env, mut, depth - 1, r.randint(1, 3), in_loop, ind + "    ")
                if r.random() < 0.5:
                    out.append(f"{ind}elif {ex('bool', 1)}:")
                    out += self.stmts(env, mut, depth - 1, r.randint(1, 2), in_loop, ind + "    ")
                if r.random() < 0.6:
                    out.append(f"{ind}else:")
                    out += self.stmts(env, mut, depth - 1, r.randint(1, 2), in_loop, ind + "    ")
            elif k == 8 and depth > 0:
                i = self.fresh("i")
                form = r.randrange(4)
                if form == 0:
                    out.append(f"{ind}for {i}: uint256 in range({r.randint(1, 5)}):")
                elif form == 1:
                    out.append(f"{ind}for {i}: uint256 in range({ex('uint256', 1)}, bound=4):")
                elif form == 2:
                    out.append(f"{ind}for {i}: uint256 in {ex('DynArray[uint256, 5]', 0)}:")
                else:
                    out.append(f"{ind}for {i}: uint256 in range(2, 6):")
                e2 = {kk: list(vv) for kk, vv in env.items()}
                e2.setdefault("uint256", []).append(i)
                body = self.stmts(e2, mut, depth - 1, r.randint(1, 3), True, ind + "    ")
                out += [l for l in body if f" {i} =" not in l and f" {i} +=" not in l and f" {i} -=" not in l and f" {i} *=" not in l]
                out.append(f"{ind}    pass")
            elif k == 9 and in_loop:
                out.append(f"{ind}if {ex('bool', 1)}:\n{ind}    {r.choice(['continue', 'break'])}")
            elif k == 10:
                out.append(f"{ind}assert {ex('bool')}" + r.choice(["", ', "reason"', ", UNREACHABLE"]))
            elif k == 11 and writes:
                out.append(f"{ind}" + r.choice([
                    f"self.counter += {ex('uint256', 1)}", f"self.m[{ex('address', 0)}] = {ex('uint256')}",
                    f"self.arr[{r.randrange(3)}] = {ex('uint256')}", f"self.pt = {ex('P')}", f"self.pt.a = {ex('uint256')}",
                    f"self.name = {ex('String[16]')}", f"self.blob = {ex('Bytes[32]')}", f"self.role[{ex('address', 0)}] = {ex('F')}",
                    f"self.dec = {ex('decimal')}", f"self.sm[{ex('bytes32', 0)}].a = {ex('uint256')}"]))
            elif k == 12 and writes:
                out.append(f"{ind}if len(self.dyn) < 5:\n{ind}    self.dyn.append({ex('uint256', 1)})")
            elif k == 13 and writes:
                out.append(f"{ind}if len(self.dyn) > 0:\n{ind}    self.dyn.pop()")
            elif k == 14 and writes:
                out.append(f"{ind}" + r.choice([f"log Ev(who={ex('address', 0)}, amt={ex('uint256')}, tag={ex('bytes32', 0)})",
                                                 f"log Ev2(p={ex('P')}, s={ex('String[16]', 1)})"]))
            elif k == 15 and writes:
                out.append(f"{ind}" + r.choice([f"self._note({ex('uint256', 1)})", f"self._never({ex('uint256', 1)})" if r.random() < 0.3 else
                                                 f"self._note({ex('uint256', 0)})", f"send({ex('address', 0)}, 0)",
                                                 f"extcall Other({ex('address', 0)}).poke({ex('uint256', 1)})",
                                                 f"{self.fresh('ok')}: bool = raw_call({ex('address', 0)}, b\"\\x01\", revert_on_failure=False)"]))
            elif k == 16 and reads:
                v = self.fresh("v")
                out.append(f"{ind}{v}: uint256 = staticcall Other({ex('address', 0)}).peek({ex('uint256', 1)})")
                env.setdefault("uint256", []).append(v)
            elif k == 17:
                a, b = self.fresh("v"), self.fresh("v")
                out.append(f"{ind}{a}: uint256 = 0\n{ind}{b}: bool = False\n{ind}{a}, {b} = self._pair({ex('uint256', 1)})")
                env.setdefault("uint256", []).append(a)
                env.setdefault("bool", []).append(b)
            elif k == 18:
                c = [x for x in env.get("DynArray[uint256, 5]", []) if x.startswith("v")]
                if c:
                    a = r.choice(c)
                    out.append(f"{ind}if len({a}) < 5:\n{ind}    {a}.append({ex('uint256', 1)})")
            elif k == 19:
                c = [x for x in env.get("uint256[3]", []) if x.startswith("v")]
                if c:
                    out.append(f"{ind}{r.choice(c)}[{r.randrange(3)}] = {ex('uint256', 1)}")
            elif k == 20 and depth > 0:
                out.append(f"{ind}if {ex('bool', 1)}:\n{ind}    raise" + r.choice(["", ' "boom"']))
            elif k in (21, 22):
                # constants that reach an operator only through propagation (local variable / internal-call argument):
                # huge shift amounts, extreme operands, zero divisors.  May revert at run time; must compile.
                c = self.fresh("c")
                v = self.fresh("v")
                big = r.choice(["max_value(uint256)", "2**255", "256", "257", "255", "2**128", "0", "1"])
                op = r.choice(["<<", ">>", "<<", ">>", "*", "+", "-", "//", "%", "**", "&", "|", "^"])
                lhs = r.choice([f"({ex('uint256', 1)} | 1)", "1", "max_value(uint256)", "7"])
                form = r.randrange(3)
                if form == 1 and op in ("<<", ">>"):
                    out.append(f"{ind}{v}: uint256 = self._{'shl' if op == '<<' else 'shr'}({lhs}, {big})")
                elif form == 2:
                    out.append(f"{ind}{c}: uint256 = {big}\n{ind}{v}: uint256 = {c} {op} {lhs}")
                else:
                    out.append(f"{ind}{c}: uint256 = {big}\n{ind}{v}: uint256 = {lhs} {op} {c}")
                env.setdefault("uint256", []).append(v)
            else:
                out.append(f"{ind}pass")
        if not out:
            out.append(f"{ind}pass")
        return out

    def pure_expr(self, t, env, d):
        for _ in range(8):
            e = self.expr(t, env, d)
            if not any(w in e for w in ("self", "block.", "msg.", "tx.", "chain.", "staticcall", ".is_contract")):
                return e
        return self.lit(t) if "self" not in self.lit(t) and "msg" not in self.lit(t) and "block" not in self.lit(t) and "tx." not in self.lit(t) \
            else {"address": "empty(address)", "bytes32": "empty(bytes32)"}.get(t, "0")


PRELUDE = """
struct P:
    a: uint256
    b: int128
    c: bool

flag F:
    A
    B
    C

interface Other:
    def peek(x: uint256) -> uint256: view
    def poke(x: uint256): nonpayable

event Ev:
    who: indexed(address)
    amt: uint256
    tag: bytes32

event Ev2:
    p: P
    s: String[16]

counter: public(uint256)
m: public(HashMap[address, uint256])
sm: HashMap[bytes32, P]
role: HashMap[address, F]
arr: uint256[3]
dyn: public(DynArray[uint256, 5])
pt: public(P)
name: String[16]
blob: Bytes[32]
dec: decimal
LIMIT: constant(uint256) = 10 ** 6
OWNER: immutable(address)

@deploy
def __init__():
    OWNER = msg.sender
    self.pt = P(a=1, b=-1, c=True)

@internal
@pure
def _sq(x: uint256) -> uint256:
    return (x % 1000) * (x % 1000)

@internal
@view
def _opt(x: uint256, y: uint256 = 3) -> uint256:
    return x % 100 + y % 100 + self.counter % 100

@internal
@pure
def _pair(x: uint256) -> (uint256, bool):
    return x // 2, x % 2 == 0

@internal
def _note(x: uint256):
    self.counter = x % LIMIT

@internal
def _never(x: uint256) -> uint256:
    raise "never"

@internal
@pure
def _shl(x: uint256, s: uint256) -> uint256:
    return x << s

@internal
@pure
def _shr(x: uint256, s: uint256) -> uint256:
    return x >> s
"""


def gen_program(rnd):
    g = VG(rnd)
    out = [PRELUDE]
    for i in range(rnd.randint(2, 4)):
        mut = rnd.choice(["pure", "view", "nonpayable", "nonpayable", "payable"])
        args = []
        env = {}
        if mut != "pure":
            env = {"uint256": ["self.counter"], "P": ["self.pt"], "DynArray[uint256, 5]": ["self.dyn"], "address": ["OWNER"]}
        for j in range(rnd.randint(0, 3)):
            t = rnd.choice(INT_TYPES + ["bool", "address", "bytes32", "decimal", "Bytes[32]", "String[16]", "P", "F",
                                        "DynArray[uint256, 5]", "uint256[3]"])
            args.append(f"a{j}: {t}")
            env.setdefault(t, []).append(f"a{j}")
        rt = rnd.choice([None, "uint256", "int128", "bool", "bytes32", "P", "decimal", "String[16]", "(uint256, bool)"])
        deco = "@external\n" + (f"@{mut}\n" if mut != "nonpayable" else "") + ("@nonreentrant\n" if mut == "nonpayable" and rnd.random() < 0.3 else "")
        body = g.stmts(env, mut, 2, rnd.randint(2, 6))
        ex = (lambda tt: g.expr(tt, env, 2)) if mut != "pure" else (lambda tt: g.pure_expr(tt, {k: [x for x in v if not x.startswith("self.") and x != "OWNER"] for k, v in env.items()}, 2))
        if mut == "pure":
            body = [l for l in body if not any(w in l for w in ("self", "block.", "msg.", "tx.", "chain.", "staticcall", "OWNER", ".is_contract"))] or ["    pass"]
            body = fix_blocks(body)
        if rt == "(uint256, bool)":
            body.append(f"    return {ex('uint256')}, {ex('bool')}")
        elif rt:
            body.append(f"    return {ex(rt)}")
        out.append(f"{deco}def f{i}({', '.join(args)})" + (f" -> {rt}" if rt else "") + ":\n" + "\n".join(body) + "\n")
    return "\n".join(out)


def fix_blocks(lines):
    """after filtering lines, make sure every block header is followed by an indented line"""
    out = []
    for i, l in enumerate(lines):
        out.append(l)
        if l.rstrip().endswith(":"):
            ind = len(l) - len(l.lstrip())
            nxt = lines[i + 1] if i + 1 < len(lines) else ""
            if len(nxt) - len(nxt.lstrip()) <= ind or not nxt.strip():
                out.append(" " * (ind + 4) + "pass")
    return out
