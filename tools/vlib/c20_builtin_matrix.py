"""C20 round 4: builtin x argument-shape matrix.

Every builtin of vyper/builtins/functions.py (DISPATCH_TABLE + STMT_DISPATCH_TABLE; the check fails closed when a builtin
has no template here) is called through one or more *templates* (incl. kwarg variants); each argument position ("hole") of
a template is filled, one at a time, from a list of *shapes* for its type (literal, constant, immutable, empty(T), IfExp,
storage / transient / memory / calldata, internal-call result, struct member, array element, convert, max/min_value, folded
arithmetic, environment values, nested call of the same builtin, and for bytestrings: literals of length 0/1/max, slice /
concat / abi_encode / convert results).  The other holes are calldata arguments.  Each program is one external function
plus declarations and type-checks by construction (programs the front end rejects are counted, not reported).
"""
import itertools

ADDR1 = "0x0000000000000000000000000000000000000123"
ADDR2 = "0x0000000000000000000000000000000000000456"
B32_1 = "0x" + "ab" * 32
B32_2 = "0x" + "01" * 32
BYTES64 = 'b"' + "0123456789abcdef" * 4 + '"'
STR64 = '"' + "0123456789abcdef" * 4 + '"'

U256, U8, I128, I256, DEC, BOOL, ADDR, B32, B4 = "uint256", "uint8", "int128", "int256", "decimal", "bool", "address", "bytes32", "bytes4"
BY, ST, BY32, ARR2, DYNB = "Bytes[64]", "String[64]", "Bytes[32]", "uint256[2]", "DynArray[bytes32, 4]"

# two literals per type (the second one for the other IfExp branch)
LITS = {
    U256: ("7", "3"), U8: ("17", "1"), I128: ("-5", "9"), I256: ("-5", "9"), DEC: ("1.5", "-2.25"), BOOL: ("True", "False"),
    ADDR: (ADDR1, ADDR2), B32: (B32_1, B32_2), B4: ("0x01020304", "0xdeadbeef"), BY: ('b"hello"', 'b"wo"'),
    ST: ('"hello"', '"wo"'), BY32: ('b"hello"', 'b"wo"'), ARR2: ("[1, 2]", "[3, 4]"), DYNB: (f"[{B32_1}]", f"[{B32_2}, {B32_1}]"),
}
ABI_TYPE = {U256: "uint256", U8: "uint8", I128: "int128", I256: "int256", DEC: "int168", BOOL: "bool", ADDR: "address", B32: "bytes32",
            B4: "bytes4", BY: "bytes", ST: "string", BY32: "bytes", ARR2: "uint256[2]", DYNB: "bytes32[]"}
# two value sets for execution (A with b_=True, B with b_=False)
VALUES = {
    U256: (5, 2 ** 256 - 1), U8: (9, 255), I128: (-3, 2 ** 127 - 1), I256: (-3, -(2 ** 255)), DEC: (15 * 10 ** 9, -(2 ** 167)), BOOL: (True, False),
    ADDR: ("0x" + "11" * 20, "0x" + "00" * 20), B32: (b"\x07" * 32, b"\x00" * 32), B4: (b"\x01\x02\x03\x04", b"\xff" * 4),
    BY: (b"abcdefgh" * 5, b""), ST: ("abcdefgh" * 5, ""), BY32: (b"q" * 32, b""), ARR2: ([1, 2], [0, 2 ** 256 - 1]),
    DYNB: ([b"\x01" * 32], []),
}
NUMERIC = (U256, U8, I128, I256, DEC)
CONVERT_FROM = {U256: (U8, "17"), U8: (U256, "17"), I128: (U8, "17"), I256: (I128, "-5"), DEC: (I128, "-5"), BOOL: (U256, "7"),
                ADDR: (B32, "0x" + "00" * 12 + "11" * 20), B32: (U256, "7"), B4: None, BY: (ST, '"hello"'), ST: (BY, 'b"hello"'),
                BY32: (ST, '"hi"')}
ENV = {ADDR: ["msg.sender", "self", "tx.origin", "block.coinbase"], U256: ["block.timestamp", "block.number", "msg.value", "chain.id"],
       B32: ["block.prevhash", "self.codehash"]}

SHAPES = ["literal", "constant", "immutable", "empty", "ifexp_rt", "ifexp_const", "storage", "transient", "local", "calldata",
          "internal", "struct_storage", "struct_memory", "arr_elem", "dyn_elem", "convert", "max_value", "min_value", "fold",
          "env0", "env1", "env2", "env3", "nested", "len0", "len1", "lenmax", "slice_res", "concat_res", "abi_encode_res", "ifexp_const_f",
          # round 4, second batch: producers with several definitions / locations / side effects
          "ifexp_args", "ifexp_nested", "ifexp_storage", "internal_ifexp", "hashmap_val", "struct_nested", "staticcall_res",
          "abi_decode_res", "pop_res"]


def short(t):
    return t.replace("[", "_").replace("]", "").replace(", ", "_").replace(" ", "")


class Prog:
    def __init__(self):
        self.decls, self.init, self.helpers, self.pre, self.params = [], [], [], [], []
        self.payable = False


def shape_expr(shape, T, P, k, nested=None):
    """expression of type T for hole k built with `shape`; mutates the program parts P; None if not applicable"""
    l1, l2 = LITS[T]
    s = short(T)
    bytestr = T in (BY, ST, BY32)
    pre = 'b' if T in (BY, BY32) else ''
    if shape == "literal":
        return l1
    if shape == "constant":
        P.decls.append(f"C{k}_: constant({T}) = {l1}")
        return f"C{k}_"
    if shape == "immutable":
        P.decls.append(f"IM{k}_: immutable({T})")
        P.init.append(f"IM{k}_ = {l1}")
        return f"IM{k}_"
    if shape == "empty":
        return f"empty({T})"
    if shape == "ifexp_rt":
        return f"({l1} if b_ else {l2})"
    if shape == "ifexp_const":
        return f"({l1} if True else {l2})"
    if shape == "ifexp_const_f":
        return f"({l1} if False else {l2})"
    if shape == "ifexp_args":
        P.params.append((f"ia{k}_", T))
        P.params.append((f"ib{k}_", T))
        return f"(ia{k}_ if b_ else ib{k}_)"
    if shape == "ifexp_nested":
        return f"({l1} if b_ else ({l2} if not b_ else {l1}))"
    if shape == "ifexp_storage":
        P.decls.append(f"si{k}_: {T}")
        P.init.append(f"self.si{k}_ = {l1}")
        return f"(self.si{k}_ if b_ else {l2})"
    if shape == "internal_ifexp":
        P.helpers.append(f"@internal\n@pure\ndef _ii{k}_(x: {T}) -> {T}:\n    return x\n")
        return f"self._ii{k}_(({l1} if b_ else {l2}))"
    if shape == "hashmap_val":
        P.decls.append(f"hm{k}_: HashMap[uint256, {T}]")
        P.init.append(f"self.hm{k}_[1] = {l1}")
        return f"self.hm{k}_[1]"
    if shape == "struct_nested":
        P.decls.append(f"struct In{k}_:\n    q: {T}\n")
        P.decls.append(f"struct Out{k}_:\n    p: uint256\n    inner: In{k}_\n")
        P.decls.append(f"so{k}_: Out{k}_")
        P.init.append(f"self.so{k}_ = Out{k}_(p=1, inner=In{k}_(q={l1}))")
        return f"self.so{k}_.inner.q"
    if shape == "staticcall_res":
        P.decls.append(f"interface Ie{k}_:\n    def echo{k}_(x: {T}) -> {T}: view\n")
        P.helpers.append(f"@external\n@view\ndef echo{k}_(x: {T}) -> {T}:\n    return x\n")
        return f"staticcall Ie{k}_(self).echo{k}_({l1})"
    if shape == "abi_decode_res":
        P.params.append((f"ad{k}_", T))
        return f"abi_decode(abi_encode(ad{k}_), {T})"
    if shape == "pop_res":
        P.decls.append(f"dp{k}_: DynArray[{T}, 3]")
        P.pre.append(f"self.dp{k}_ = [{l2}, {l1}]")
        return f"self.dp{k}_.pop()"
    if shape == "storage":
        P.decls.append(f"s{k}_: {T}")
        P.init.append(f"self.s{k}_ = {l1}")
        return f"self.s{k}_"
    if shape == "transient":
        P.decls.append(f"t{k}_: transient({T})")
        P.pre.append(f"self.t{k}_ = {l1}")
        return f"self.t{k}_"
    if shape == "local":
        P.pre.append(f"m{k}_: {T} = {l1}")
        return f"m{k}_"
    if shape == "calldata":
        P.params.append((f"a{k}_", T))
        return f"a{k}_"
    if shape == "internal":
        P.helpers.append(f"@internal\n@pure\ndef _id{k}_(x: {T}) -> {T}:\n    return x\n")
        return f"self._id{k}_({l1})"
    if shape == "struct_storage":
        P.decls.append(f"struct S{k}_:\n    p: uint256\n    q: {T}\n")
        P.decls.append(f"ss{k}_: S{k}_")
        P.init.append(f"self.ss{k}_ = S{k}_(p=1, q={l1})")
        return f"self.ss{k}_.q"
    if shape == "struct_memory":
        P.decls.append(f"struct M{k}_:\n    p: uint256\n    q: {T}\n")
        P.pre.append(f"sm{k}_: M{k}_ = M{k}_(p=1, q={l1})")
        return f"sm{k}_.q"
    if shape == "arr_elem":
        if bytestr or T in (ARR2, DYNB):
            return None
        P.decls.append(f"ar{k}_: {T}[3]")
        P.init.append(f"self.ar{k}_ = [{l2}, {l1}, {l2}]")
        return f"self.ar{k}_[1]"
    if shape == "dyn_elem":
        if T in (DYNB,):
            return None
        P.pre.append(f"da{k}_: DynArray[{T}, 3] = [{l2}, {l1}]")
        return f"da{k}_[1]"
    if shape == "convert":
        src = CONVERT_FROM.get(T)
        if not src:
            return None
        P.params.append((f"c{k}_", src[0]))
        return f"convert(c{k}_, {T})" if T not in (BY, ST, BY32) else f"convert({src[1]}, {T})"
    if shape in ("max_value", "min_value"):
        if T not in NUMERIC:
            return None
        return f"{shape}({T})"
    if shape == "fold":
        if T not in NUMERIC:
            return None
        return {U256: "(2 * 3 + 1)", U8: "(16 + 1)", I128: "(2 - 7)", I256: "(2 - 7)", DEC: "(1.0 + 0.5)"}[T]
    if shape.startswith("env"):
        i = int(shape[3:])
        if T not in ENV or i >= len(ENV[T]):
            return None
        if ENV[T][i] == "msg.value":
            P.payable = True
        return ENV[T][i]
    if shape == "nested":
        return nested
    if shape in ("len0", "len1", "lenmax", "slice_res", "concat_res", "abi_encode_res"):
        if not bytestr:
            return None
        n = 32 if T == BY32 else 64
        if shape == "len0":
            return pre + '""'
        if shape == "len1":
            return pre + '"x"'
        if shape == "lenmax":
            return pre + '"' + ("0123456789abcdef" * 4)[:n] + '"'
        if shape == "slice_res":
            P.params.append((f"sl{k}_", T))
            return f"slice(sl{k}_, 1, 2)"
        if shape == "concat_res":
            P.params.append((f"cc{k}_", "Bytes[8]" if pre else "String[8]"))
            return f"concat(cc{k}_, {pre}\"ab\")"
        if shape == "abi_encode_res":
            if not pre:
                return None
            P.params.append((f"ae{k}_", U256))
            return f"abi_encode(ae{k}_, ensure_tuple=False)"
    return None


# (builtin, template id, return type or None for a statement, call format, hole types, flags)
T_ = []


def t(b, tid, ret, fmt, holes, **flags):
    T_.append({"builtin": b, "id": tid, "ret": ret, "fmt": fmt, "holes": holes, "flags": flags})


for enc in ("abi_encode", "_abi_encode"):
    t(enc, "2", "Bytes[192]", enc + "({0}, {1})", [U256, BY])
    t(enc, "1u", "Bytes[32]", enc + "({0}, ensure_tuple=False)", [U256])
    t(enc, "1b", "Bytes[128]", enc + "({0})", [BY])
    t(enc, "mid", "Bytes[36]", enc + "({0}, method_id=0x01020304)", [U256])
    t(enc, "arr", "Bytes[64]", enc + "({0})", [ARR2])
    t(enc, "mix", "Bytes[384]", enc + "({0}, {1}, {2}, {3})", [ADDR, ST, BOOL, DYNB])
for dec in ("abi_decode", "_abi_decode"):
    t(dec, "u", U256, dec + "({0}, uint256)", [BY])
    t(dec, "tup", "(uint256, bool)", dec + "({0}, (uint256, bool))", [BY])
    t(dec, "nounwrap", U256, dec + "({0}, uint256, unwrap_tuple=False)", [BY])
    t(dec, "addr", ADDR, dec + "({0}, address)", [BY32])
t("floor", "", I256, "floor({0})", [DEC])
t("ceil", "", I256, "ceil({0})", [DEC])
for dst, srcs in {U256: [U8, I128, BOOL, B32, ADDR, DEC, BY32, B4, I256], I128: [U256, DEC, B32, U8, BOOL], B32: [U256, ADDR, BY32, I128, B4, BOOL],
                  ADDR: [U256, B32], DEC: [I128, U8, U256, BOOL], BOOL: [U256, B32, I128, DEC, ADDR, BY32], BY: [ST], ST: [BY], U8: [U256, I128, B32],
                  B4: [B32, U256, BY32], I256: [U256, I128, B32, DEC]}.items():
    for src in srcs:
        t("convert", f"{short(src)}->{short(dst)}", dst, "convert({0}, " + dst + ")", [src])
t("slice", "bytes", BY, "slice({0}, {1}, {2})", [BY, U256, U256])
t("slice", "string", ST, "slice({0}, {1}, {2})", [ST, U256, U256])
t("slice", "b32", BY32, "slice({0}, {1}, {2})", [B32, U256, U256])
t("slice", "litlen", "Bytes[5]", "slice({0}, {1}, 5)", [BY, U256])
t("slice", "msgdata", "Bytes[4]", "slice(msg.data, {0}, 4)", [U256])
t("slice", "code", "Bytes[8]", "slice({0}.code, {1}, 8)", [ADDR, U256])
t("slice", "selfcode", "Bytes[8]", "slice(self.code, {0}, 8)", [U256])
t("len", "bytes", U256, "len({0})", [BY])
t("len", "string", U256, "len({0})", [ST])
t("len", "dyn", U256, "len({0})", [DYNB])
t("len", "msgdata", U256, "len(msg.data)", [])
t("concat", "bb", "Bytes[128]", "concat({0}, {1})", [BY, BY])
t("concat", "ss", "String[128]", "concat({0}, {1})", [ST, ST])
t("concat", "b32b", "Bytes[96]", "concat({0}, {1})", [B32, BY])
t("concat", "b4b32", "Bytes[36]", "concat({0}, {1})", [B4, B32])
t("concat", "3", "Bytes[160]", "concat({0}, {1}, {2})", [BY, B32, BY])
for h in ("sha256", "keccak256"):
    t(h, "bytes", B32, h + "({0})", [BY])
    t(h, "string", B32, h + "({0})", [ST])
    t(h, "b32", B32, h + "({0})", [B32])
t("method_id", "", "Bytes[4]", 'method_id("foo(uint256)")', [])
t("method_id", "b4", B4, 'method_id("foo(uint256)", output_type=bytes4)', [])
t("ecrecover", "u", ADDR, "ecrecover({0}, {1}, {2}, {3})", [B32, U256, U256, U256])
t("ecrecover", "b", ADDR, "ecrecover({0}, {1}, {2}, {3})", [B32, U8, B32, B32])
t("ecadd", "", ARR2, "ecadd({0}, {1})", [ARR2, ARR2])
t("ecmul", "", ARR2, "ecmul({0}, {1})", [ARR2, U256])
t("extract32", "", B32, "extract32({0}, {1})", [BY, U256])
t("extract32", "u", U256, "extract32({0}, {1}, output_type=uint256)", [BY, U256])
t("extract32", "i", I128, "extract32({0}, {1}, output_type=int128)", [BY, U256])
t("extract32", "a", ADDR, "extract32({0}, {1}, output_type=address)", [BY, U256])
for unit in ("ether", "wei", "gwei"):
    t("as_wei_value", "u_" + unit, U256, 'as_wei_value({0}, "' + unit + '")', [U256])
t("as_wei_value", "i", U256, 'as_wei_value({0}, "ether")', [I128])
t("as_wei_value", "d", U256, 'as_wei_value({0}, "ether")', [DEC])
t("as_wei_value", "u8", U256, 'as_wei_value({0}, "finney")', [U8])
t("raw_call", "stmt", None, "raw_call({0}, {1})", [ADDR, BY])
t("raw_call", "out", BY32, "raw_call({0}, {1}, max_outsize=32)", [ADDR, BY])
t("raw_call", "nofail", BOOL, "raw_call({0}, {1}, revert_on_failure=False)", [ADDR, BY])
t("raw_call", "both", "(bool, Bytes[32])", "raw_call({0}, {1}, max_outsize=32, revert_on_failure=False)", [ADDR, BY])
t("raw_call", "gasvalue", BY32, "raw_call({0}, {1}, max_outsize=32, gas={2}, value={3})", [ADDR, BY, U256, U256])
t("raw_call", "static", BY32, "raw_call({0}, {1}, max_outsize=32, is_static_call=True)", [ADDR, BY], view=True)
t("raw_call", "delegate", BY32, "raw_call({0}, {1}, max_outsize=32, is_delegate_call=True)", [ADDR, BY])
t("blockhash", "", B32, "blockhash({0})", [U256])
t("blobhash", "", B32, "blobhash({0})", [U256])
t("uint256_addmod", "", U256, "uint256_addmod({0}, {1}, {2})", [U256, U256, U256])
t("uint256_mulmod", "", U256, "uint256_mulmod({0}, {1}, {2})", [U256, U256, U256])
for op in ("unsafe_add", "unsafe_sub", "unsafe_mul", "unsafe_div"):
    t(op, "u", U256, op + "({0}, {1})", [U256, U256])
    t(op, "i", I128, op + "({0}, {1})", [I128, I128])
    t(op, "u8", U8, op + "({0}, {1})", [U8, U8])
    t(op, "i256", I256, op + "({0}, {1})", [I256, I256])
t("pow_mod256", "", U256, "pow_mod256({0}, {1})", [U256, U256])
t("uint2str", "u", "String[78]", "uint2str({0})", [U256])
t("uint2str", "u8", "String[3]", "uint2str({0})", [U8])
t("sqrt", "", DEC, "sqrt({0})", [DEC])
t("isqrt", "", U256, "isqrt({0})", [U256])
t("shift", "u", U256, "shift({0}, {1})", [U256, I128])
t("shift", "i", I256, "shift({0}, {1})", [I256, I128])
for c in ("create_minimal_proxy_to", "create_forwarder_to", "create_copy_of"):
    t(c, "", ADDR, c + "({0})", [ADDR])
    t(c, "vs", ADDR, c + "({0}, value={1}, salt={2})", [ADDR, U256, B32], payable=True)
    t(c, "nofail", ADDR, c + "({0}, revert_on_failure=False)", [ADDR])
t("create_from_blueprint", "", ADDR, "create_from_blueprint({0})", [ADDR])
t("create_from_blueprint", "args", ADDR, "create_from_blueprint({0}, {1}, {2})", [ADDR, U256, BY])
t("create_from_blueprint", "raw", ADDR, "create_from_blueprint({0}, {1}, raw_args=True)", [ADDR, BY])
t("create_from_blueprint", "ofs", ADDR, "create_from_blueprint({0}, code_offset={1}, value={2}, salt={3})", [ADDR, U256, U256, B32], payable=True)
for mm in ("min", "max"):
    for ty in (U256, I128, DEC, U8, I256):
        t(mm, short(ty), ty, mm + "({0}, {1})", [ty, ty])
t("empty", "u", U256, "empty(uint256)", [])
t("empty", "b", BY, "empty(Bytes[64])", [])
t("empty", "arr", ARR2, "empty(uint256[2])", [])
t("abs", "", I256, "abs({0})", [I256])
t("min_value", "", I128, "min_value(int128)", [])
t("max_value", "", U8, "max_value(uint8)", [])
t("epsilon", "", DEC, "epsilon(decimal)", [])
t("send", "", None, "send({0}, {1})", [ADDR, U256])
t("send", "gas", None, "send({0}, {1}, gas={2})", [ADDR, U256, U256])
t("print", "2", None, "print({0}, {1})", [U256, BY])
t("print", "s", None, "print({0})", [ST])
t("print", "hh", None, "print({0}, {1}, hardhat_compat=True)", [U256, ADDR])
t("print", "many", None, "print({0}, {1}, {2}, {3})", [I128, BOOL, B32, DEC])
t("breakpoint", "", None, "breakpoint()", [])
t("selfdestruct", "", None, "selfdestruct({0})", [ADDR])
t("raw_create", "", ADDR, "raw_create({0})", [BY])
t("raw_create", "vs", ADDR, "raw_create({0}, value={1}, salt={2})", [BY, U256, B32], payable=True)
t("raw_create", "args", ADDR, "raw_create({0}, {1})", [BY, U256])
t("raw_create", "nofail", ADDR, "raw_create({0}, revert_on_failure=False)", [BY])
t("raw_log", "b", None, "raw_log([{0}, {1}], {2})", [B32, B32, BY])
t("raw_log", "b32", None, "raw_log([{0}], {1})", [B32, B32])
t("raw_log", "none", None, "raw_log([], {0})", [BY])
t("raw_revert", "", None, "raw_revert({0})", [BY])

# ---- other consumers of an argument shape (pseudo builtins, names start with "@")
CONSUMER_TYPES = [U256, I128, DEC, BOOL, ADDR, B32, BY, ST, ARR2, DYNB]
WORD_TYPES = (U256, U8, I128, I256, DEC, BOOL, ADDR, B32, B4)
for ty in CONSUMER_TYPES:
    sn = short(ty)
    t("@log", sn, None, "log Ev_(x={0}, y=b_)", [ty], decls=[f"event Ev_:\n    x: {ty}\n    y: bool\n"])
    if ty in WORD_TYPES:
        t("@log_indexed", sn, None, "log Ei_(x={0}, y=b_)", [ty], decls=[f"event Ei_:\n    x: indexed({ty})\n    y: bool\n"])
    t("@store", sn, None, "self.zz_ = {0}", [ty], decls=[f"zz_: {ty}"], post=(ty, "self.zz_"))
    t("@tstore", sn, None, "self.tz_ = {0}", [ty], decls=[f"tz_: transient({ty})"], post=(ty, "self.tz_"))
    t("@hashmap_store", sn, None, "self.hz_[2] = {0}", [ty], decls=[f"hz_: HashMap[uint256, {ty}]"], post=(ty, "self.hz_[2]"))
    t("@local_assign", sn, None, "loc_: " + ty + " = {0}\n    loc_ = {1}", [ty, ty], post=(ty, "loc_"))
    t("@internal_two_args", sn, f"({ty}, {ty})", "self._g2_({0}, {1})", [ty, ty],
      helpers=[f"@internal\ndef _g2_(x: {ty}, y: {ty}) -> ({ty}, {ty}):\n    return y, x\n"])
    t("@internal_arg_twice", sn, f"({ty}, {ty})", "self._g2_({0}, {0})", [ty],
      helpers=[f"@internal\ndef _g2_(x: {ty}, y: {ty}) -> ({ty}, {ty}):\n    return y, x\n"])
    t("@internal_nested", sn, ty, "self._g_(self._g_({0}))", [ty], helpers=[f"@internal\ndef _g_(x: {ty}) -> {ty}:\n    return x\n"])
    t("@internal_ret_store", sn, None, "self.zz_ = self._g_({0})", [ty], decls=[f"zz_: {ty}"], post=(ty, "self.zz_"),
      helpers=[f"@internal\ndef _g_(x: {ty}) -> {ty}:\n    return x\n"])
    t("@internal_kwarg", sn, ty, "self._k_(1, {0})", [ty],
      helpers=[f"@internal\ndef _k_(n: uint256, x: {ty} = {LITS[ty][1]}) -> {ty}:\n    return x\n"])
    t("@internal_mutating", sn, f"({ty}, uint256)", "self._m_({0}), self.cnt_", [ty], decls=["cnt_: uint256"],
      helpers=[f"@internal\ndef _m_(x: {ty}) -> {ty}:\n    self.cnt_ += 1\n    return x\n"])
    t("@internal_in_loop", sn, None, "for i_: uint256 in range(2):\n        self.zz_ = self._g_({0})", [ty], decls=[f"zz_: {ty}"],
      post=(ty, "self.zz_"), helpers=[f"@internal\ndef _g_(x: {ty}) -> {ty}:\n    return x\n"])
    t("@if_branch_assign", sn, None, "loc_: " + ty + " = {1}\n    if b_:\n        loc_ = {0}", [ty, ty], post=(ty, "loc_"))
    t("@return", sn, ty, "{0}", [ty])
    t("@tuple_ret", sn, f"({ty}, uint256)", "{0}, 7", [ty])
    t("@extcall", sn, None, "extcall If_(msg.sender).g({0})", [ty], decls=[f"interface If_:\n    def g(x: {ty}): nonpayable\n"])
    t("@staticcall", sn, ty, "staticcall Ig_(msg.sender).h({0})", [ty], decls=[f"interface Ig_:\n    def h(x: {ty}) -> {ty}: view\n"])
    t("@internal_arg", sn, ty, "self._g_({0})", [ty], helpers=[f"@internal\ndef _g_(x: {ty}) -> {ty}:\n    return x\n"])
    t("@internal_default", sn, ty, "self._d_()", [], helpers=[f"@internal\ndef _d_(x: {ty} = {LITS[ty][0]}) -> {ty}:\n    return x\n"])
    if ty != DYNB:
        t("@append", sn, None, "self.dz_.append({0})", [ty], decls=[f"dz_: DynArray[{ty}, 4]"], post=(f"DynArray[{ty}, 4]", "self.dz_"))
        t("@for_list", sn, None, "for e_: " + ty + " in [{0}, {1}]:\n        self.zz_ = e_\n        if b_:\n            break", [ty, ty],
          decls=[f"zz_: {ty}"], post=(ty, "self.zz_"))
        t("@struct", sn, "W_", "W_(x={0}, y=1)", [ty], decls=[f"struct W_:\n    x: {ty}\n    y: uint256\n"])
        t("@list_lit", sn, f"DynArray[{ty}, 3]", "[{0}, {1}]", [ty, ty])
    if ty not in (ARR2, DYNB):
        t("@eq", sn, BOOL, "{0} == {1}", [ty, ty])
        t("@ne", sn, BOOL, "{0} != {1}", [ty, ty])
    t("@ifexp_branch", sn, ty, "{0} if b_ else {1}", [ty, ty])
t("@for_iter", "arr2", None, "for e_: uint256 in {0}:\n        self.cnt_ += e_", [ARR2], decls=["cnt_: uint256"], post=(U256, "self.cnt_"))
t("@for_iter", "dynb", None, "for e_: bytes32 in {0}:\n        self.acc_ = self.acc_ ^ e_", [DYNB], decls=["acc_: bytes32"], post=(B32, "self.acc_"))
t("@len_dyn", "", U256, "len({0})", [DYNB])
t("@index_arr2", "", U256, "{0}[1]", [ARR2])
t("@index_dynb", "", B32, "{0}[0]", [DYNB])
t("@assert_cond", "", None, "assert {0}", [BOOL])
t("@assert_unreachable", "", None, "assert {0}, UNREACHABLE", [BOOL])
for op in ("+=", "-=", "*=", "//=", "%=", "&=", "|=", "^=", "<<=", ">>="):
    t("@augassign", op, None, "self.au_ " + op + " {0}", [U256], decls=["au_: uint256"], post=(U256, "self.au_"))
for op in ("+=", "-=", "*=", "//=", "%="):
    t("@augassign_i", op, None, "loc_: int128 = 100\n    loc_ " + op + " {0}", [I128], post=(I128, "loc_"))
for op in ("+=", "-=", "*=", "/="):
    t("@augassign_d", op, None, "self.ad_ " + op + " {0}", [DEC], decls=["ad_: decimal"], post=(DEC, "self.ad_"))
# ---- source and destination of an assignment overlap / an operand is modified while the statement is evaluated
DZ = ["dz_: DynArray[uint256, 4]"]
t("@alias_append_elem", "", None, "self.dz_ = [1, 2]\n    self.dz_.append(self.dz_[{0} % 2])", [U256], decls=DZ, post=("DynArray[uint256, 4]", "self.dz_"))
t("@alias_append_pop", "", None, "self.dz_ = [1, {0}, 3]\n    self.dz_.append(self.dz_.pop())", [U256], decls=DZ, post=("DynArray[uint256, 4]", "self.dz_"))
t("@alias_index_pop", "", None, "self.dz_ = [1, 2, {0}]\n    self.dz_[0] = self.dz_.pop()", [U256], decls=DZ, post=("DynArray[uint256, 4]", "self.dz_"))
t("@alias_index_len", "", None, "self.dz_ = [1, 2, {0}]\n    self.dz_[len(self.dz_) - 1] = len(self.dz_)", [U256], decls=DZ, post=("DynArray[uint256, 4]", "self.dz_"))
t("@alias_self_assign", "", None, "self.dz_ = [1, {0}]\n    self.dz_ = self.dz_", [U256], decls=DZ, post=("DynArray[uint256, 4]", "self.dz_"))
t("@alias_dyn_rebuild", "", None, "m_: DynArray[uint256, 4] = [{0}, 2]\n    m_ = [m_[1], m_[0], m_[1]]", [U256], post=("DynArray[uint256, 4]", "m_"))
t("@alias_dyn_rebuild_storage", "", None, "self.dz_ = [{0}, 2]\n    self.dz_ = [self.dz_[1], self.dz_[0], self.dz_[1]]", [U256], decls=DZ,
  post=("DynArray[uint256, 4]", "self.dz_"))
t("@alias_bytes_slice", "", None, "m_: Bytes[64] = {0}\n    m_ = slice(m_, 1, 2)", [BY], post=(BY, "m_"))
t("@alias_bytes_slice_storage", "", None, "self.zb_ = {0}\n    self.zb_ = slice(self.zb_, 1, 2)", [BY], decls=["zb_: Bytes[64]"], post=(BY, "self.zb_"))
t("@alias_bytes_concat", "", None, "m_: Bytes[64] = slice({0}, 0, 4)\n    m_ = concat(slice(m_, 2, 2), slice(m_, 0, 2), slice(m_, 1, 3))", [BY], post=(BY, "m_"))
t("@alias_string_concat_storage", "", None, "self.zs_ = slice({0}, 0, 4)\n    self.zs_ = concat(slice(self.zs_, 2, 2), slice(self.zs_, 0, 2))", [ST],
  decls=["zs_: String[64]"], post=(ST, "self.zs_"))
t("@alias_list_swap", "", None, "m_: uint256[2] = {0}\n    m_ = [m_[1], m_[0]]", [ARR2], post=(ARR2, "m_"))
t("@alias_list_swap_storage", "", None, "self.za_ = {0}\n    self.za_ = [self.za_[1], self.za_[0]]", [ARR2], decls=["za_: uint256[2]"], post=(ARR2, "self.za_"))
t("@alias_list_swap_transient", "", None, "self.ta_ = {0}\n    self.ta_ = [self.ta_[1], self.ta_[0]]", [ARR2], decls=["ta_: transient(uint256[2])"],
  post=(ARR2, "self.ta_"))
t("@alias_struct_swap", "", None, "p_: P_ = P_(x={0}, y=2)\n    p_ = P_(x=p_.y, y=p_.x)", [U256], decls=["struct P_:\n    x: uint256\n    y: uint256\n"],
  post=(ARR2, "[p_.x, p_.y]"))
t("@alias_struct_swap_storage", "", None, "self.sp_ = P_(x={0}, y=2)\n    self.sp_ = P_(x=self.sp_.y, y=self.sp_.x)", [U256],
  decls=["struct P_:\n    x: uint256\n    y: uint256\n", "sp_: P_"], post=(ARR2, "[self.sp_.x, self.sp_.y]"))
t("@alias_internal_modifies_arg", "", None, "self.za_ = {0}\n    self.cnt_ = self._m_(self.za_)", [ARR2], decls=["za_: uint256[2]", "cnt_: uint256"],
  helpers=["@internal\ndef _m_(x: uint256[2]) -> uint256:\n    self.za_[0] = 99\n    return x[0]\n"], post=(ARR2, "[self.cnt_, self.za_[0]]"))
t("@alias_internal_modifies_bytes_arg", "", None, "self.zb_ = {0}\n    self.zc_ = self._m_(self.zb_)", [BY], decls=["zb_: Bytes[64]", "zc_: Bytes[64]"],
  helpers=["@internal\ndef _m_(x: Bytes[64]) -> Bytes[64]:\n    self.zb_ = b\"changed\"\n    return x\n"], post=(BY, "self.zc_"))
t("@alias_internal_two_storage_args", "", U256, "self._m_(self.za_, self._w_({0}))", [U256], decls=["za_: uint256[2]"],
  helpers=["@internal\ndef _w_(v: uint256) -> uint256:\n    self.za_[0] = v\n    return v\n",
           "@internal\ndef _m_(x: uint256[2], y: uint256) -> uint256:\n    return x[0]\n"])
t("@alias_ifexp_self", "", None, "self.za_ = {0}\n    self.za_ = (self.za_ if b_ else [self.za_[1], 7])", [ARR2], decls=["za_: uint256[2]"], post=(ARR2, "self.za_"))
t("@alias_augassign_call", "", None, "self.cnt_ = 1\n    self.cnt_ += self._w_({0})", [U256], decls=["cnt_: uint256"],
  helpers=["@internal\ndef _w_(v: uint256) -> uint256:\n    self.cnt_ = 10\n    return v % 100\n"], post=(U256, "self.cnt_"))
t("@alias_index_call", "", None, "self.za_ = [5, 6]\n    self.za_[self._w_({0})] = 9", [U256], decls=["za_: uint256[2]"],
  helpers=["@internal\ndef _w_(v: uint256) -> uint256:\n    self.za_ = [1, 1]\n    return v % 2\n"], post=(ARR2, "self.za_"))
t("@alias_return_tuple_modified", "", f"({U256}, {U256})", "self.cnt_, self._w_({0})", [U256], decls=["cnt_: uint256"],
  helpers=["@internal\ndef _w_(v: uint256) -> uint256:\n    self.cnt_ += 1\n    return v\n"])
t("@alias_log_modified", "", None, "log Ea_(x=self.cnt_, y=self._w_({0}), z=self.cnt_)", [U256], decls=["cnt_: uint256", "event Ea_:\n    x: uint256\n    y: uint256\n    z: uint256\n"],
  helpers=["@internal\ndef _w_(v: uint256) -> uint256:\n    self.cnt_ += 1\n    return v\n"])
t("@assert_reason", "", None, "assert b_, {0}", [ST])
t("@raise_reason", "", None, "raise {0}", [ST])
t("@if", "", U256, "1 if {0} else 2", [BOOL])
t("@not", "", BOOL, "not {0}", [BOOL])
t("@range_bound", "", None, "for i_: uint256 in range({0}, bound=4):\n        self.cnt_ += i_", [U256], decls=["cnt_: uint256"], post=(U256, "self.cnt_"))
t("@index_static", "", U256, "self.ia_[{0}]", [U256], decls=["ia_: uint256[3]"])
t("@index_dyn", "", U256, "self.id_[{0}]", [U256], decls=["id_: DynArray[uint256, 3]"])
t("@hashmap_key_b", "", U256, "self.hb_[{0}]", [BY], decls=["hb_: HashMap[Bytes[64], uint256]"])
t("@hashmap_key_s", "", U256, "self.hs_[{0}]", [ST], decls=["hs_: HashMap[String[64], uint256]"])
t("@hashmap_key_a", "", U256, "self.ha_[{0}]", [ADDR], decls=["ha_: HashMap[address, uint256]"])
t("@in_list", "", BOOL, "{0} in [1, 2, 3]", [U256])
t("@in_dyn", "", BOOL, "{0} in {1}", [B32, DYNB])
t("@send_value", "", None, "send(msg.sender, {0})", [U256])
t("@pow_base", "", U256, "{0} ** 2", [U256])
t("@pow_exp", "", U256, "2 ** {0}", [U256])
for op in ("+", "-", "*", "//", "%", "<<", ">>", "&", "|", "^", "<", ">="):
    t("@binop", op, BOOL if op in ("<", ">=") else U256, "{0} " + op + " {1}", [U256, U256])
for op in ("+", "-", "*", "//", "%", "<"):
    t("@binop_i", op, BOOL if op == "<" else I128, "{0} " + op + " {1}", [I128, I128])
for op in ("+", "-", "*", "/", "<"):
    t("@binop_d", op, BOOL if op == "<" else DEC, "{0} " + op + " {1}", [DEC, DEC])
t("@neg", "", I128, "-{0}", [I128])
t("@invert", "", U256, "~{0}", [U256])
t("@and", "", BOOL, "{0} and {1}", [BOOL, BOOL])
t("@or", "", BOOL, "{0} or {1}", [BOOL, BOOL])
TEMPLATES = T_


def nested_for(tpl, T):
    """a call of the same builtin with literal holes whose return type is T (for the `nested` shape)"""
    for o in TEMPLATES:
        if o["builtin"] == tpl["builtin"] and o["ret"] == T and o["holes"]:
            return o["fmt"].format(*[LITS[h][0] for h in o["holes"]])
    return None


def build(tpl, hole, shape):
    """source of the program for (template, hole index, shape) or None if the shape does not apply"""
    P = Prog()
    exprs = []
    for k, T in enumerate(tpl["holes"]):
        if k == hole:
            e = shape_expr(shape, T, P, k, nested_for(tpl, T) if shape == "nested" else None)
            if e is None:
                return None
        else:
            e = shape_expr("calldata", T, P, k)
        exprs.append(e)
    if tpl["flags"].get("payable"):
        P.payable = True
    call = tpl["fmt"].format(*exprs)
    P.decls = list(tpl["flags"].get("decls", [])) + P.decls
    P.helpers = list(tpl["flags"].get("helpers", [])) + P.helpers
    out = list(dict.fromkeys(P.decls))
    if P.init:
        out.append("@deploy\ndef __init__():\n" + "".join(f"    {x}\n" for x in P.init))
    out += P.helpers
    deco = "@external\n" + ("@payable\n" if P.payable else "") + ("@view\n" if tpl["flags"].get("view") and not P.payable and
                                                                   not any(x.startswith("self.") for x in P.pre) else "")
    params = [("b_", BOOL)] + P.params
    sig = ", ".join(f"{n}: {ty}" for n, ty in params)
    body = "".join(f"    {x}\n" for x in P.pre)
    post = tpl["flags"].get("post")
    if tpl["ret"] is None and post:
        fn = f"{deco}def f({sig}) -> {post[0]}:\n{body}    {call}\n    return {post[1]}\n"
    elif tpl["ret"] is None:
        fn = f"{deco}def f({sig}):\n{body}    {call}\n"
    else:
        fn = f"{deco}def f({sig}) -> {tpl['ret']}:\n{body}    return {call}\n"
    out.append(fn)
    return {"src": "\n".join(out), "params": params, "payable": P.payable, "has_init": bool(P.init), "call": call}


def all_cases():
    """[(template, hole, shape)] -- the full matrix (zero-hole templates once)"""
    cases = []
    for tpl in TEMPLATES:
        if not tpl["holes"]:
            cases.append((tpl, -1, "literal"))
            continue
        for h in range(len(tpl["holes"])):
            for sh in SHAPES:
                cases.append((tpl, h, sh))
    return cases


def covered_builtins():
    return {tpl["builtin"] for tpl in TEMPLATES if not tpl["builtin"].startswith("@")}


def calldata(params, which):
    """(abi types, values) for value set `which` (0: b_=True, 1: b_=False)"""
    types = [ABI_TYPE.get(ty) or {"Bytes[8]": "bytes", "String[8]": "string"}[ty] for _, ty in params]
    vals = []
    for n, ty in params:
        if n == "b_":
            vals.append(which == 0)
        elif ty in VALUES:
            vals.append(VALUES[ty][which])
        else:
            vals.append({"Bytes[8]": (b"12345678", b""), "String[8]": ("12345678", "")}[ty][which])
    return types, vals


# (builtin, template id, hole, shape): cases that exposed a defect once -- always part of the quick sample
REGRESSION = [
    ("abi_encode", "1b", 0, "constant"), ("_abi_encode", "2", 1, "constant"), ("extract32", "u", 0, "empty"), ("extract32", "", 0, "empty"),
    ("convert", "Bytes_32->bytes32", 0, "empty"), ("convert", "Bytes_32->uint256", 0, "empty"), ("len", "dyn", 0, "constant"),
    ("len", "bytes", 0, "convert"), ("len", "string", 0, "convert"), ("raw_create", "", 0, "immutable"), ("raw_create", "", 0, "convert"),
    ("convert", "uint256->bytes4", 0, "calldata"), ("convert", "uint256->decimal", 0, "max_value"), ("convert", "int128->uint256", 0, "min_value"),
    ("abi_decode", "u", 0, "ifexp_const"), ("abi_decode", "tup", 0, "slice_res"), ("convert", "int128->uint256", 0, "ifexp_const"),
    ("uint2str", "u", 0, "ifexp_rt"), ("uint2str", "u8", 0, "ifexp_const"), ("abi_decode", "u", 0, "convert"), ("concat", "bb", 0, "empty"),
    ("uint2str", "u8", 0, "convert"), ("uint256_addmod", "", 2, "empty"), ("keccak256", "bytes", 0, "constant"), ("slice", "bytes", 0, "empty"),
    # venom: ternary of a memory type as internal-call argument (pre-SSA invoke-arg copy forwarding followed one definition)
    ("@internal_arg", "Bytes_64", 0, "ifexp_rt"), ("@internal_arg", "String_64", 0, "ifexp_const"), ("@internal_arg", "uint256_2", 0, "ifexp_args"),
    ("@internal_arg", "DynArray_bytes32_4", 0, "ifexp_rt"), ("@internal_two_args", "Bytes_64", 1, "ifexp_args"),
    # venom: pointer phi of a ternary used in a later block (BasePtrAnalysis fixpoint -> dead store elimination dropped the true arm)
    ("@store", "Bytes_64", 0, "ifexp_rt"), ("@store", "uint256_2", 0, "ifexp_args"), ("@tstore", "uint256_2", 0, "ifexp_nested"),
    ("@hashmap_store", "String_64", 0, "ifexp_storage"), ("@for_iter", "arr2", 0, "ifexp_args"),
    # legacy: indexing into empty(T[n]); index containing a call (risky overlap guard, open)
    ("@index_arr2", "", 0, "empty"), ("@index_static", "", 0, "staticcall_res"),
]


def regression_cases():
    out = []
    for b, tid, h, sh in REGRESSION:
        for tpl in TEMPLATES:
            if tpl["builtin"] == b and tpl["id"] == tid:
                out.append((tpl, h, sh))
    return out
