"""C02: configuration-against-configuration comparison of arbitrary contracts, driven from the ABI."""
import re

import eth_abi
from eth_utils import keccak

from vlib.configs import Config, compile_src
from vlib.evm import Chain, DEPLOYER, SENDER2, log_tuple

PRE_CANCUN = ("london", "paris", "shanghai")
_helper_cache = {}


def _arr(t):
    m = re.match(r"^(.*)\[(\d*)\]$", t)
    if m:
        return m.group(1), (int(m.group(2)) if m.group(2) else None)
    return None


def canon_type(inp):
    """ABI json input -> canonical type string (tuples expanded)"""
    t = inp["type"]
    if t.startswith("tuple"):
        inner = "(" + ",".join(canon_type(c) for c in inp["components"]) + ")"
        return inner + t[len("tuple"):]
    return t


def gen_value(inp, rng, addrs, t=None):
    t = t if t is not None else inp["type"]
    a = _arr(t)
    if a is not None:
        base, n = a
        if n is None:
            n = rng.choice([0, 1, 1, 2, 2, 3])
        return [gen_value(inp, rng, addrs, base) for _ in range(n)]
    if t == "tuple":
        return tuple(gen_value(c, rng, addrs) for c in inp["components"])
    if t == "bool":
        return rng.random() < 0.5
    if t == "address":
        return rng.choice(addrs)
    if t == "string":
        return rng.choice(["", "a", "hello", "vyper!", "0123456789", "xyz" * 3])[: rng.randrange(0, 12)]
    if t == "bytes":
        n = rng.choice([0, 1, 2, 4, 5, 8, 12])
        return bytes(rng.randrange(256) for _ in range(n))
    m = re.match(r"^bytes(\d+)$", t)
    if m:
        n = int(m.group(1))
        if rng.random() < 0.3:
            return b"\x00" * n
        return bytes(rng.randrange(256) for _ in range(n))
    m = re.match(r"^(u?)int(\d+)$", t)
    if m:
        bits = int(m.group(2))
        lo, hi = (0, 2 ** bits - 1) if m.group(1) else (-(2 ** (bits - 1)), 2 ** (bits - 1) - 1)
        x = rng.random()
        if x < 0.65:
            v = rng.choice([0, 1, 1, 2, 2, 3, 4, 5, 7, 8, 10, 16, 20])
        elif x < 0.75 and lo < 0:
            v = -rng.choice([1, 2, 3, 10])
        elif x < 0.88:
            v = rng.choice([hi, lo, hi - 1, lo + 1, hi // 2])
        else:
            v = rng.randrange(lo, hi + 1)
        return min(max(v, lo), hi)
    if t.startswith("fixed") or t.startswith("ufixed") or t == "decimal":
        return rng.choice([0, 1, 10 ** 10, 25 * 10 ** 9, -10 ** 10, 3 * 10 ** 10 + 5])
    raise ValueError(f"unsupported abi type {t}")


def enc_type(inp):
    t = canon_type(inp)
    # vyper decimals appear as fixed168x10 / int168 in the ABI
    return t


def encode_args(inputs, vals):
    tys = [enc_type(i) for i in inputs]
    tys2 = [re.sub(r"u?fixed168x10", "int168", t) for t in tys]
    return eth_abi.encode(tys2, vals)


def selector(fn):
    sig = fn["name"] + "(" + ",".join(canon_type(i) for i in fn["inputs"]) + ")"
    return keccak(sig.encode())[:4]


def plan_calls(abi, rng, n, addrs):
    """-> list of dict(name, data(bytes), value, sender)  (same plan replayed under every configuration)"""
    fns = [a for a in abi if a["type"] == "function"]
    has_default = any(a["type"] == "fallback" for a in abi)
    plan = []
    # short calldata (0-3 bytes), in particular every proper prefix of a method id that ends in zero bytes (such calldata,
    # zero-padded by CALLDATALOAD, equals the method id): must reach __default__ / revert, never the function
    seen = set()
    shorts = [b""]
    for fn in fns:
        sel = selector(fn)
        stripped = sel.rstrip(b"\x00")
        if len(stripped) < 4:
            shorts += [sel[:k] for k in range(len(stripped), 4)]
    for fn in rng.sample(fns, min(3, len(fns))):
        shorts += [selector(fn)[:k] for k in (1, 2, 3)]
    for data in shorts:
        if data not in seen:
            seen.add(data)
            plan.append({"name": "<short>", "data": data, "value": 0, "sender": DEPLOYER})
    for _ in range(n):
        x = rng.random()
        sender = DEPLOYER if rng.random() < 0.65 else SENDER2
        if not fns or x < 0.06:
            data = bytes(rng.randrange(256) for _ in range(rng.choice([0, 3, 4, 36])))
            plan.append({"name": "<raw>", "data": data, "value": rng.choice([0, 0, 5]), "sender": sender})
            continue
        fn = rng.choice(fns)
        try:
            vals = [gen_value(i, rng, addrs) for i in fn["inputs"]]
            data = selector(fn) + encode_args(fn["inputs"], vals)
        except Exception as e:  # unsupported type: call with empty args
            vals, data = None, selector(fn)
        if x > 0.97 and len(data) > 4:
            data = data[:-1]         # truncated calldata
        payable = fn.get("stateMutability") == "payable"
        value = rng.choice([0, 1, 1000, 10 ** 15]) if (payable and rng.random() < 0.7) else \
            (rng.choice([7, 2, 4, 256, 2 ** 64]) if rng.random() < 0.08 else 0)   # non-payable: odd AND even non-zero values
        plan.append({"name": fn["name"], "data": data, "value": value, "sender": sender, "args": repr(vals)[:300]})
    return plan


def helper_initcode(helper_src, evm):
    key = (hash(helper_src), evm)
    if key not in _helper_cache:
        out = compile_src(helper_src, Config(False, "gas", evm), formats=("bytecode",))
        _helper_cache[key] = bytes.fromhex(out["bytecode"][2:])
    return _helper_cache[key]


_STATIC_TY = re.compile(r"^(u?int\d+|bool|address|bytes\d+|decimal)(\[\d+\])*$")


def layout_vars(layout):
    """variables whose raw slots are fully determined by the source semantics: primitives and static arrays of primitives
    (slots past the length of a DynArray/Bytes/String hold stale data; struct names are opaque here; `$.`-prefixed entries are
    compiler-internal, e.g. the re-entrancy key, and exist only for some EVM targets)"""
    out = []
    for name, ent in sorted(layout.get("storage_layout", {}).items()):
        if name.startswith("$") or "slot" not in ent:
            continue
        if _STATIC_TY.match(ent.get("type", "")) and ent.get("n_slots", 1) <= 64:
            out.append((name, ent["slot"], ent.get("n_slots", 1)))
    return out


class Session:
    """one contract deployed under one configuration"""

    def __init__(self, src, cfg, helper_src=None, abi=None):
        # `abi` is requested only once (reference configuration): with experimental_codegen the abi output also runs the
        # legacy generator (gas estimates), which would mix the two pipelines
        self.out = compile_src(src, cfg, formats=("bytecode", "layout", "asm", "asm_runtime") if abi is not None
                               else ("bytecode", "abi", "layout", "asm", "asm_runtime"))
        from vlib.c01_harness import check_target_opcodes
        check_target_opcodes(self.out, cfg.evm)
        self.abi = abi if abi is not None else self.out["abi"]
        self.chain = Chain(cfg.evm)
        self.helper = None
        if helper_src is not None:
            self.helper = self.chain.deploy(helper_initcode(helper_src, cfg.evm))
            if self.helper is None:
                raise RuntimeError("helper deployment failed")
        ctor = [a for a in self.abi if a["type"] == "constructor"]
        init = bytes.fromhex(self.out["bytecode"][2:])
        if ctor and ctor[0]["inputs"]:
            vals = []
            for i in ctor[0]["inputs"]:
                if i["type"] == "address":
                    vals.append(self.helper or DEPLOYER)
                else:
                    import random
                    vals.append(gen_value(i, random.Random(1), [DEPLOYER]))
            init += encode_args(ctor[0]["inputs"], vals)
        self.addr = self.chain.deploy(init)

    def addrs(self):
        return [a for a in [self.helper, DEPLOYER, SENDER2, self.addr, "0x" + "00" * 20] if a]

    def run(self, plan):
        res = []
        for c in plan:
            r = self.chain.call(self.addr, c["data"], value=c["value"], sender=c["sender"])
            try:
                self.chain.reset_transient()
            except Exception:
                pass
            logs = []
            for l in r.logs:
                if isinstance(l, tuple):      # halt marker
                    logs.append(("halt", str(l[1])[:40]))
                else:
                    lt = log_tuple(l)
                    logs.append((lt[0], tuple(x.hex() for x in lt[1]), lt[2].hex()))
            res.append((r.ok, r.out.hex(), tuple(logs)))
        return res

    def final_state(self):
        st = {}
        for name, slot, n in layout_vars(self.out["layout"]):
            st[name] = tuple(self.chain.storage(self.addr, slot + i) for i in range(n))
        bal = {"self": self.chain.evm.get_balance(self.addr)}
        if self.helper:
            bal["helper"] = self.chain.evm.get_balance(self.helper)
        return st, bal


def observe_contract(src, cfg, plan_or_seed, helper_src=None, abi=None):
    """-> dict(deployed, results, state) ; raises on compile error"""
    s = Session(src, cfg, helper_src, abi)
    if s.addr is None:
        return {"deployed": False, "results": [], "state": None}
    plan = plan_or_seed
    res = s.run(plan)
    return {"deployed": True, "results": res, "state": s.final_state()}


def make_plan(src, helper_src, rng, ncalls):
    """the plan is derived once from the ABI under the reference configuration (addresses are configuration
    independent: same deployer nonces)"""
    s = Session(src, Config(False, "gas", "cancun"), helper_src)
    if s.addr is None:
        return None, s.abi
    return plan_calls(s.abi, rng, ncalls, s.addrs()), s.abi


def first_difference(a, b):
    if a["deployed"] != b["deployed"]:
        return {"what": "deployment", "a": a["deployed"], "b": b["deployed"]}
    for i, (x, y) in enumerate(zip(a["results"], b["results"])):
        if x[0] != y[0]:
            return {"what": "status", "call": i, "a": x[0], "b": y[0], "a_out": x[1][:200], "b_out": y[1][:200]}
        if x[1] != y[1]:
            return {"what": "return-data" if x[0] else "revert-data", "call": i, "a": x[1][:400], "b": y[1][:400]}
        if x[2] != y[2]:
            return {"what": "logs", "call": i, "a": str(x[2])[:600], "b": str(y[2])[:600]}
    if a["state"] != b["state"]:
        sa, sb = a["state"], b["state"]
        for k in sa[0]:
            if sa[0].get(k) != sb[0].get(k):
                return {"what": "final-storage", "var": k, "a": str(sa[0].get(k))[:300], "b": str(sb[0].get(k))[:300]}
        return {"what": "balances", "a": str(sa[1]), "b": str(sb[1])}
    return None
