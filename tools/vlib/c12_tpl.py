"""C12 O-tie: export the failure-handling templates around calls/creates from the real generators.

legacy: check_external_call / check_create_operation / _extcodesize_check called on symbolic operands.
venom : the twins are inlined in lower_ExtCall / lower_raw_call / lower_send / _check_create_result, so each
        shape is compiled (front end only: generate_runtime_venom, *before* any pass) from a one-function probe
        contract and the call site is cut out of the raw IR: guard (extcodesize+assert on the call target directly
        before the call), uses of the result up to the terminator, the jnz and the exported failure block."""
from vlib.coqrun import hexlit

CALL_OPS = ("call", "staticcall", "delegatecall", "create", "create2")

HEAD = """
interface C:
    def f(x: uint256): nonpayable
    def g(x: uint256) -> uint256: nonpayable
    def h(x: uint256) -> uint256: view
t: address
"""
# (name, kind, opcode, function source)
SHAPES = [
    ("ext_void", "KPropGuard", "call", "@external\ndef a(x: uint256):\n    extcall C(self.t).f(x)\n"),
    ("ext_void_skip", "KProp", "call", "@external\ndef a(x: uint256):\n    extcall C(self.t).f(x, skip_contract_check=True)\n"),
    ("ext_ret", "KProp", "call", "@external\ndef a(x: uint256) -> uint256:\n    return extcall C(self.t).g(x)\n"),
    ("static_ret", "KProp", "staticcall", "@external\ndef a(x: uint256) -> uint256:\n    return staticcall C(self.t).h(x)\n"),
    ("raw_plain", "KProp", "call", "@external\ndef a(d: Bytes[64]):\n    raw_call(self.t, d)\n"),
    ("raw_out", "KProp", "call", "@external\ndef a(d: Bytes[64]) -> Bytes[32]:\n    return raw_call(self.t, d, max_outsize=32)\n"),
    ("raw_static", "KProp", "staticcall", "@external\ndef a(d: Bytes[64]) -> Bytes[32]:\n    return raw_call(self.t, d, max_outsize=32, is_static_call=True)\n"),
    ("raw_delegate", "KProp", "delegatecall", "@external\ndef a(d: Bytes[64]) -> Bytes[32]:\n    return raw_call(self.t, d, max_outsize=32, is_delegate_call=True)\n"),
    ("raw_nofail", "KNoProp", "call", "@external\ndef a(d: Bytes[64]) -> bool:\n    return raw_call(self.t, d, revert_on_failure=False)\n"),
    ("raw_nofail_out", "KNoProp", "call", "@external\ndef a(d: Bytes[64]) -> (bool, Bytes[32]):\n    return raw_call(self.t, d, max_outsize=32, revert_on_failure=False)\n"),
    ("raw_nofail_static", "KNoProp", "staticcall", "@external\ndef a(d: Bytes[64]) -> bool:\n    return raw_call(self.t, d, revert_on_failure=False, is_static_call=True)\n"),
    ("raw_nofail_delegate", "KNoProp", "delegatecall", "@external\ndef a(d: Bytes[64]) -> bool:\n    return raw_call(self.t, d, revert_on_failure=False, is_delegate_call=True)\n"),
    ("send", "KSend", "call", "@external\ndef a(x: uint256):\n    send(self.t, x)\n"),
    ("proxy", "KProp", "create", "@external\ndef a(x: uint256) -> address:\n    return create_minimal_proxy_to(self.t)\n"),
    ("proxy_salt", "KProp", "create2", "@external\ndef a(x: bytes32) -> address:\n    return create_minimal_proxy_to(self.t, salt=x)\n"),
    ("proxy_nofail", "KNoProp", "create", "@external\ndef a(x: uint256) -> address:\n    return create_minimal_proxy_to(self.t, revert_on_failure=False)\n"),
    ("copy", "KProp", "create", "@external\ndef a(x: uint256) -> address:\n    return create_copy_of(self.t)\n"),
    ("copy_nofail", "KNoProp", "create", "@external\ndef a(x: uint256) -> address:\n    return create_copy_of(self.t, revert_on_failure=False)\n"),
    ("blueprint", "KProp", "create", "@external\ndef a(x: uint256) -> address:\n    return create_from_blueprint(self.t, x)\n"),
    ("blueprint_salt_value", "KProp", "create2", "@external\n@payable\ndef a(x: bytes32) -> address:\n    return create_from_blueprint(self.t, salt=x, value=msg.value, code_offset=0)\n"),
    ("blueprint_nofail", "KNoProp", "create", "@external\ndef a(x: uint256) -> address:\n    return create_from_blueprint(self.t, x, revert_on_failure=False)\n"),
    ("raw_create", "KProp", "create", "@external\ndef a(d: Bytes[64]) -> address:\n    return raw_create(d)\n"),
]


def sx(node):
    v = node.value
    if isinstance(v, int) and not node.args:
        return f"SL {hexlit(v)}"
    if isinstance(v, int):
        raise ValueError("int node with args")
    return f'SN "{v}" [' + "; ".join(sx(a) for a in node.args) + "]"


def legacy_templates():
    from vyper.codegen.core import check_create_operation, check_external_call
    from vyper.codegen.external_call import _extcodesize_check
    from vyper.codegen.ir_node import IRnode

    sym = lambda s: IRnode.from_list(s)  # noqa
    return {
        "check_external_call": sx(IRnode.from_list(check_external_call(sym("call_result")))),
        "check_create_operation": sx(IRnode.from_list(check_create_operation(sym("call_result")))),
        "extcodesize_check": sx(IRnode.from_list(_extcodesize_check(sym("target")))),
    }


class SiteExport:
    def __init__(self, res_var, target_var):
        self.res, self.target = res_var, target_var

    def ops(self, inst, names):
        from vyper.venom.basicblock import IRLabel, IRLiteral, IRVariable

        out = []
        for o in inst.operands:
            if isinstance(o, IRLiteral):
                out.append(f"VLit {hexlit(o.value)}")
            elif isinstance(o, IRVariable):
                if self.res is not None and o.name == self.res:
                    out.append("VRes")
                elif self.target is not None and o.name == self.target:
                    out.append("VTarget")
                elif o.name in names:
                    out.append(f"VVar {names[o.name]}%nat")
                else:
                    out.append("VExt")
            elif isinstance(o, IRLabel):
                raise ValueError("label operand in straight-line template")
            else:
                raise ValueError(repr(o))
        return out

    def insts(self, lst):
        names = {}
        out = []
        for inst in lst:
            ops = self.ops(inst, names)
            outs = inst.get_outputs()
            if len(outs) > 1:
                raise ValueError("multi-output")
            if outs:
                names[outs[0].name] = len(names) + 1
                o = f"Some {names[outs[0].name]}%nat"
            else:
                o = "None"
            out.append(f'mkV ({o}) "{inst.opcode}" [' + "; ".join(ops) + "]")
        return "[" + "; ".join(out) + "]"


def venom_site(src, evm):
    from vyper.codegen_venom.module import generate_runtime_venom
    from vyper.compiler.phases import CompilerData
    from vyper.compiler.settings import Settings, anchor_settings
    from vyper.venom.basicblock import IRLabel, IRLiteral, IRVariable

    cd = CompilerData(HEAD + src, settings=Settings(experimental_codegen=True, evm_version=evm))
    with anchor_settings(cd.settings):
        ctx = generate_runtime_venom(cd.global_ctx, cd.settings)
    sites = []
    blocks = {}
    for fn in ctx.functions.values():
        for bb in fn.get_basic_blocks():
            blocks[bb.label.value] = bb
            for i, inst in enumerate(bb.instructions):
                if inst.opcode in CALL_OPS:
                    if inst.opcode in ("call", "staticcall") and isinstance(inst.operands[-2], IRLiteral) \
                            and inst.operands[-2].value == 4:
                        continue   # memory copy through the identity precompile (pre-cancun targets)
                    sites.append((bb, i, inst))
    if len(sites) != 1:
        raise ValueError(f"expected exactly one call site, found {len(sites)}")
    bb, i, call = sites[0]
    res = call.get_outputs()[0].name
    target = None
    if call.opcode in ("call", "staticcall", "delegatecall"):
        t = call.operands[-2]
        target = t.name if isinstance(t, IRVariable) else None
    ex = SiteExport(res, target)
    # guard: extcodesize(target); assert -- immediately before the call
    guard = []
    if i >= 2 and target is not None:
        g, a = bb.instructions[i - 2], bb.instructions[i - 1]
        if (g.opcode == "extcodesize" and isinstance(g.operands[0], IRVariable) and g.operands[0].name == target
                and a.opcode == "assert" and a.operands[0] == g.get_outputs()[0]):
            guard = [g, a]
    # post: instructions after the call that test its result (assert / iszero chains)
    dep = {res}
    post = []
    rest = bb.instructions[i + 1:]
    for inst in rest[:-1]:
        uses = any(isinstance(o, IRVariable) and o.name in dep for o in inst.operands)
        if uses and inst.opcode in ("assert", "iszero", "assert_unreachable"):
            post.append(inst)
            for o in inst.get_outputs():
                dep.add(o.name)
    term = rest[-1]
    if term.opcode == "jnz" and isinstance(term.operands[0], IRVariable) and term.operands[0].name in dep:
        cond = ex.ops(type("X", (), {"operands": [term.operands[0]]})(), {})[0]
        succs = []
        for lab in term.operands[1:]:
            assert isinstance(lab, IRLabel)
            sb = blocks[lab.value]
            if sb.instructions[-1].opcode == "revert":
                succs.append("SBlock " + ex.insts(sb.instructions))
            else:
                succs.append("SCont")
        t = f"TJnz ({cond}) ({succs[0]}) ({succs[1]})"
    else:
        t = "TFall"
    return f'mkSite "{call.opcode}" {ex.insts(guard)} {ex.insts(post)} ({t})'


def observe():
    leg = legacy_templates()
    lines = ["(* GENERATED by tools/vlib/c12_tpl.py from the real generators. *)",
             "From Coq Require Import ZArith List String.", "From Verif Require Import C12.CallTpl.",
             "Import ListNotations.", "Open Scope string_scope.", "Open Scope Z_scope.",
             f"Definition obs_check_external_call : sx := {leg['check_external_call']}.",
             f"Definition obs_check_create_operation : sx := {leg['check_create_operation']}.",
             f"Definition obs_extcodesize_check : sx := {leg['extcodesize_check']}."]
    n = 3
    for evm in ("london", "cancun"):
        items = []
        for name, kind, op, src in SHAPES:
            items.append(f'("{name}", {venom_site(src, evm)})')
            n += 1
        lines.append(f"Definition obs_sites_{evm} : list (string * site) :=\n [" + ";\n  ".join(items) + "].")
    fam = "; ".join(f'("{name}", {kind}, "{op}")' for name, kind, op, _ in SHAPES)
    return "\n".join(lines) + "\n", n, fam
