"""C14 part: validation of DretDesugarPass (and FmpPrunePass) of vyper/venom/passes/fmp_lowering.py by the verified
checkers of coq/C14R.

DretDesugarPass.  Every invocation of the real pass is observed in this process (the class attribute `run_pass` is wrapped;
/repo is not changed): the function is exported before and after the pass (coq/C14R/Dret.v syntax: outputs, opcode,
operands in IRInstruction.operands order) and `dret_check before after` is evaluated by vm_compute.  The checker re-runs
the Gallina model `desugar` of the pass with the fresh names read off the real output, compares, and checks the side
conditions (names fresh and pairwise distinct, entry block not a jump target).  By `dret_desugar_sound` (PropsDret.v)
acceptance means: every terminating execution of the function in which `dret` is the primitive "pack the returned
buffers in order at the function-entry FMP, publish the FMP behind them" is an execution of the output with the same
returned values, published FMP, memory and world.  `pack_correct` states what the caller observes under the producer
contract (no earlier destination clobbers a later source).
Sources of functions: the IR programs of the repository's unit tests (c14_fmp.unit_test_programs), and a random family
of caller/callee programs (several buffers, runtime sizes, ordinary returns, several dret blocks).  The family
programs are also lowered by the real pipeline, assembled and run on the EVM; the words the caller reads through the
returned pointers, the pointer distances and the position of the caller's next allocation are compared with the values
`pack_correct` predicts (this is also the search on rejection: a concrete failing input).

FmpPrunePass: see part two of this file (prune_*)."""
import contextlib
import random

from vlib import c14_fmp, coqrun

PROOF_FILES = ["C14R/Dret.v", "C14R/DretProofs.v", "C14R/PropsDret.v"]
ALL_FILES = PROOF_FILES + ["C14R/Prune.v", "C14R/PruneProofs.v"]
DEPS = []
IMPORTS = ("From Verif Require Import C14R.Dret.\nOpen Scope string_scope.\nOpen Scope list_scope.\nOpen Scope Z_scope.\n")


def build(ctx, deps=None):
    return ctx.coq_build_cached(PROOF_FILES, deps=list(deps) if deps is not None else DEPS, timeout=600)


def prebuild(ctx):
    build(ctx)
    ctx.coq_build_cached(ALL_FILES, deps=DEPS, timeout=600)


def _q(s):
    return '"' + str(s).replace('"', "'") + '"'


def _opnd(o):
    from vyper.venom.basicblock import IRLabel, IRLiteral, IRVariable
    if isinstance(o, IRVariable):
        return f"Var {_q(o.value)}"
    if isinstance(o, IRLiteral):
        return f"Lit {coqrun.hexlit(o.value)}"
    if isinstance(o, IRLabel):
        return f"Lab {_q(o.value)}"
    raise TypeError(f"operand {o!r}")


def export_fn(fn):
    blocks = list(fn.get_basic_blocks())
    if blocks and blocks[0] is not fn.entry:
        blocks.remove(fn.entry)
        blocks.insert(0, fn.entry)
    out = []
    for bb in blocks:
        body = []
        for i in bb.instructions:
            outs = "; ".join(_q(o.value) for o in i.get_outputs())
            args = "; ".join(_opnd(o) for o in i.operands)
            body.append(f"mkI [{outs}] {_q(i.opcode)} [{args}]")
        out.append(f"mkB {_q(bb.label.value)} [{'; '.join(body)}]")
    return "[" + "; ".join(out) + "]"


class Observer:
    """Wraps DretDesugarPass.run_pass for the duration of a `with` block; one sample per invocation."""

    def __init__(self):
        self.samples = []
        self.errors = []

    def __enter__(self):
        from vyper.venom.passes.fmp_lowering import DretDesugarPass as P
        self.P = P
        self.orig = P.run_pass
        obs = self

        def run_pass(self_, *a, **kw):
            fn = self_.function
            try:
                before, tb = export_fn(fn), str(fn)
                nd = sum(1 for bb in fn.get_basic_blocks() for i in bb.instructions if i.opcode == "dret")
            except Exception as e:  # noqa
                before = None
                obs.errors.append(f"{type(e).__name__}: {e}")
            r = obs.orig(self_, *a, **kw)
            if before is not None:
                try:
                    obs.samples.append({"name": fn.name.value, "before": before, "after": export_fn(fn), "text_before": tb,
                                        "text_after": str(fn), "drets": nd})
                except Exception as e:  # noqa
                    obs.errors.append(f"{type(e).__name__}: {e}")
            return r

        P.run_pass = run_pass
        return self

    def __exit__(self, *a):
        self.P.run_pass = self.orig


def evaluate(samples, name="c14dret", shard=8, timeout=600):
    exprs = [f"[if dret_check {s['before']} {s['after']} then 1 else 0]" for s in samples]
    return coqrun.eval_zlists(IMPORTS, exprs, name, shard=shard, timeout=timeout)


# ---------------------------------------------------------------------------------------------------------------
# family: caller / callee programs with a known observation
def ceil32(n):
    return (n + 31) // 32 * 32


class Gen:
    def __init__(self, rnd):
        self.rnd = rnd

    def program(self):
        """returns (source, [(calldata, expected words)])"""
        r = self.rnd
        nbuf = r.randint(1, 3)
        nord = r.randint(0, 2)
        two = r.random() < 0.4                       # two dret blocks, chosen by calldata word 0
        static_src = r.random() < 0.25               # the last source lies in static memory (not a dalloca buffer)
        bufs = []                                    # (alloc size operand, dret size operand kind, words)
        for k in range(nbuf):
            kind = r.choice(["lit", "lit", "run"])
            alloc = r.choice([32, 64, 96])
            words = [r.randint(1, 2 ** 64) for _ in range(alloc // 32)]
            size = r.choice([0, 1, 31, 32, 33, 64, 96][: 4 + alloc // 32]) if kind == "lit" else None
            if size is not None:
                size = min(size, alloc)
            bufs.append({"alloc": alloc, "size": size, "words": words, "slot": k + 1})
        ords = [r.randint(0, 2 ** 32) for _ in range(nord)]
        c = ["    callee:", "      %retpc = param"]
        for k, b in enumerate(bufs):
            if b["size"] is None:
                c.append(f"      %sz{k} = calldataload {32 * b['slot']}")
        for k, b in enumerate(bufs):
            if static_src and k == nbuf - 1:
                c.append(f"      %p{k} = 0x1000")
            else:
                c.append(f"      %p{k} = dalloca {b['alloc']}")
            for j, w in enumerate(b["words"]):
                if j == 0:
                    c.append(f"      mstore %p{k}, {w}")
                else:
                    c.append(f"      %p{k}_{j} = add %p{k}, {32 * j}")
                    c.append(f"      mstore %p{k}_{j}, {w}")

        def dret(ordvals):
            ops = [str(nbuf)] + [str(v) for v in ordvals]
            for k, b in enumerate(bufs):
                ops += [f"%p{k}", str(b["size"]) if b["size"] is not None else f"%sz{k}"]
            return "      dret " + ", ".join(ops + ["%retpc"])

        ords2 = [v + 1 for v in ords]
        if two:
            c += ["      %c = calldataload 0", "      jnz %c, @one, @two", "    one:", dret(ords), "    two:", dret(ords2)]
        else:
            c.append(dret(ords))
        outs = [f"%o{k}" for k in range(nord)] + [f"%b{k}" for k in range(nbuf)]
        m = ["    main:", f"      {', '.join(outs)} = invoke @callee", "      %nx = dalloca 64"]
        vals = list(outs[:nord])
        for k in range(1, nbuf):
            m.append(f"      %d{k} = sub %b{k}, %b0")
            vals.append(f"%d{k}")
        m.append("      %dn = sub %nx, %b0")
        vals.append("%dn")
        m.append("      mstore %nx, 0xdeadbeef")
        m.append("      %nx1 = add %nx, 32")
        m.append("      mstore %nx1, 0xdeadbeef")
        reads = []
        for k, b in enumerate(bufs):
            for j in range(len(b["words"])):
                if j == 0:
                    m.append(f"      %r{k}_0 = mload %b{k}")
                else:
                    m.append(f"      %a{k}_{j} = add %b{k}, {32 * j}")
                    m.append(f"      %r{k}_{j} = mload %a{k}_{j}")
                reads.append((k, j, f"%r{k}_{j}"))
        vals += [x[2] for x in reads]
        for n_, v in enumerate(vals):
            m.append(f"      mstore {32 * n_}, {v}")
        m.append(f"      return 0, {32 * len(vals)}")
        src = "function main {\n" + "\n".join(m) + "\n}\n\nfunction callee {\n" + "\n".join(c) + "\n}\n"
        cases = []
        for _ in range(3):
            sel = r.choice([0, 1])
            rt = [r.choice([0, 1, 31, 32, 33, 64, 96]) for _ in range(4)]
            cd = sel.to_bytes(32, "big") + b"".join(min(rt[k], bufs[k]["alloc"]).to_bytes(32, "big") if k < nbuf else bytes(32) for k in range(3))
            sizes = [b["size"] if b["size"] is not None else min(rt[k], b["alloc"]) for k, b in enumerate(bufs)]
            exp = list(ords if (not two or sel) else ords2)
            off, offs = 0, []
            for s_ in sizes:
                offs.append(off)
                off += ceil32(s_)
            exp += offs[1:] + [off]
            mask = []
            for (k, j, _) in reads:
                # only whole words inside the returned size are determined by the contract
                known = 32 * (j + 1) <= sizes[k]
                exp.append(bufs[k]["words"][j] if known else None)
            cases.append((cd, exp))
        return src, cases


def family(rnd, n):
    g = Gen(rnd)
    return [(f"dretgen{k}",) + g.program() for k in range(n)]


def run_family_member(src, cases):
    """lower with the real pipeline, run on the EVM, compare with the predicted observation.
    returns (samples, errors, mismatch or None)"""
    with Observer() as obs:
        ctx, _, _ = c14_fmp.lower(src)
    outs = c14_fmp.run_evm(ctx, [cd for cd, _ in cases])
    bad = None
    for (cd, exp), (st, data) in zip(cases, outs):
        if st != "ok":
            bad = {"calldata": cd.hex(), "expected": [hex(x) if x is not None else None for x in exp], "got": f"{st}: {data}"}
            break
        got = [int(data[64 * k:64 * k + 64] or "0", 16) for k in range(len(exp))]
        if len(data) != 64 * len(exp) or any(e is not None and e != g_ for e, g_ in zip(exp, got)):
            bad = {"calldata": cd.hex(), "expected": [hex(x) if x is not None else None for x in exp], "got": [hex(x) for x in got]}
            break
    return obs.samples, obs.errors, bad


# ---------------------------------------------------------------------------------------------------------------
PLAIN_CONTRACTS = ["""
@internal
def f(x: uint256) -> uint256:
    return x + 1

@external
def g(x: uint256) -> uint256:
    return self.f(x) * 2
""", """
@external
def h(a: Bytes[64]) -> Bytes[64]:
    return slice(a, 0, 32)
"""]


def collect(ctx, rnd, stats):
    """returns (samples, evm mismatches)"""
    samples, mism = [], []
    n = 40 if ctx.tier == "quick" else 400
    for name, src, cases in family(rnd, n):
        stats["family_programs"] += 1
        try:
            ss, ee, bad = run_family_member(src, cases)
        except Exception as e:  # noqa
            stats["family_rejected_by_pipeline"] += 1
            stats.setdefault("first_pipeline_error", repr(e)[:300])
            continue
        stats["evm_executions"] += len(cases)
        stats["export_errors"] += len(ee)
        if ee:
            stats["family_export_errors"] = stats.get("family_export_errors", 0) + len(ee)
            stats.setdefault("first_export_error", ee[0])
        for s_ in ss:
            s_["prog"], s_["src"] = name, src
        samples += ss
        if bad is not None:
            mism.append(dict(bad, venom=src, prog=name))
    with Observer() as obs:
        for name, src in c14_fmp.unit_test_programs():
            k = len(obs.samples)
            try:
                c14_fmp.lower(src)
            except Exception:  # noqa  (snippets that are meant to be rejected, or need another pipeline)
                pass
            for s_ in obs.samples[k:]:
                s_["prog"], s_["src"] = name, src
        try:
            import vyper
            from vyper.compiler.settings import OptimizationLevel, Settings
            k = len(obs.samples)
            for src in PLAIN_CONTRACTS:
                vyper.compile_code(src, output_formats=["bytecode_runtime"], settings=Settings(experimental_codegen=True, optimize=OptimizationLevel.GAS))
            for s_ in obs.samples[k:]:
                s_["prog"], s_["src"] = "contract", None
            stats["contract_functions"] = len(obs.samples) - k
        except Exception as e:  # noqa
            stats["contract_error"] = repr(e)[:200]
    stats["export_errors"] += len(obs.errors)
    if obs.errors:
        stats.setdefault("first_export_error", obs.errors[0])
    samples += obs.samples
    return samples, mism


def part_dret(ctx, deps=None):
    n = part_dret_only(ctx, deps)
    try:
        n += part_prune(ctx, deps)
    except Exception as e:  # noqa
        ctx.violation("correspondence-broken", "the FmpPrunePass part could not be run", {"error": repr(e)[:800]})
    return n


def part_dret_only(ctx, deps=None):
    b = build(ctx, deps)
    rnd = random.Random(ctx.seed * 7919 + 11)
    stats = {"family_programs": 0, "family_rejected_by_pipeline": 0, "evm_executions": 0, "export_errors": 0, "invocations": 0,
             "with_dret": 0, "drets": 0, "identity_ok": 0, "accepted": 0, "rejected": 0, "evm_mismatches": 0}
    try:
        samples, mism = collect(ctx, rnd, stats)
    except Exception as e:  # noqa
        ctx.violation("correspondence-broken", "DretDesugarPass could not be observed", {"error": repr(e)[:800]})
        ctx.corr["dret"] = stats
        return 0
    stats["invocations"] = len(samples)
    stats["evm_mismatches"] = len(mism)
    if stats["family_programs"] and stats["family_rejected_by_pipeline"] * 4 > stats["family_programs"]:
        ctx.violation("correspondence-broken", "most dret family programs no longer go through the lowering pipeline", dict(stats))
    if stats.get("family_export_errors"):
        ctx.violation("correspondence-broken", "DretDesugarPass input/output could not be exported: " + str(stats.get("first_export_error")),
                      dict(stats))
    found = False
    for m in mism[:2]:
        found = True
        ctx.violation("failing-input", "a function returning dynamic buffers with `dret` hands the caller wrong data / a wrong FMP after "
                      "DretDesugarPass + lowering (expected: the values pack_correct predicts)", m, key="dret:" + m["prog"])
    # functions without dret: the pass must be the identity (compared here; a few also through the Coq checker)
    todo, seen, ident_sent = [], set(), 0
    for s_ in samples:
        if s_["drets"] == 0:
            if s_["before"] == s_["after"]:
                stats["identity_ok"] += 1
                if ident_sent >= 5:
                    continue
                ident_sent += 1
        else:
            stats["with_dret"] += 1
            stats["drets"] += s_["drets"]
        key = (s_["before"], s_["after"])
        if key in seen:
            continue
        seen.add(key)
        todo.append(s_)
    res = None
    if b["ok"] and todo:
        try:
            res = evaluate(todo, shard=max(1, len(todo) // 12), timeout=900)
        except RuntimeError as e:
            ctx.violation("correspondence-broken", "the dret validator could not be evaluated", {"error": str(e)[-1500:]})
    for k, s_ in enumerate(todo):
        if res is None:
            break
        if res[k] == [1]:
            stats["accepted"] += 1
            continue
        stats["rejected"] += 1
        if stats["rejected"] <= 2 and not found:
            ctx.violation("theorem-broken", "dret_desugar_sound does not apply: the output of DretDesugarPass is not the verified "
                          "desugaring of its input (dret_check = false; function " + s_["name"] + " of " + str(s_.get("prog")) + ")",
                          {"theorem": "dret_desugar_sound", "function_before": s_["text_before"][:4000],
                           "function_after": s_["text_after"][:6000], "venom": s_.get("src")})
    if not b["ok"] and not found:
        ctx.violation("theorem-broken", f"{b.get('failed_lemma')} in {b['file']}",
                      {"theorem": b.get("failed_lemma"), "file": b["file"], "coq_output": b["out"][-1500:]})
    if stats["with_dret"] == 0:
        ctx.violation("correspondence-broken", "no function with a dret was observed", dict(stats))
    ctx.corr["dret"] = stats
    ctx.log("dret " + " ".join(f"{k}={v}" for k, v in stats.items()))
    ctx.trusted.append("coq/C14R/Dret.v: `dret` = in-order pack at the function-entry FMP (the semantics the repo's README / "
                       "test_dret_bad_return_order_can_clobber_later_source define it against), tied to the compiled code by EVM runs "
                       "of the family; mcopy = memmove on a byte map; only the cancun+ copy form (mcopy) is modelled")
    ctx.samples.append({"dret_functions": stats["with_dret"], "evm_executions": stats["evm_executions"]})
    return stats["accepted"] + stats["evm_executions"]


# ===============================================================================================================
# FmpPrunePass
PRUNE_FILES = ["C14R/Prune.v", "C14R/PruneProofs.v"]
PRUNE_IMPORTS = ("From Verif Require Import C14R.Dret C14R.Prune.\nOpen Scope string_scope.\nOpen Scope list_scope.\nOpen Scope Z_scope.\n")


def _outs(fn):
    return [o.value for bb in fn.get_basic_blocks() for i in bb.instructions for o in i.get_outputs()]


class PruneObserver:
    """Wraps FmpPrunePass.run_pass; one sample per invocation.  With enabled=False the pass is skipped (the hidden param
    is kept), for the differential runs."""

    def __init__(self, enabled=True):
        self.samples = []
        self.errors = []
        self.enabled = enabled

    def __enter__(self):
        from vyper.venom.passes.fmp_lowering import FmpPrunePass as P
        self.P = P
        self.orig = P.run_pass
        obs = self

        def run_pass(self_, *a, **kw):
            fn = self_.function
            if not obs.enabled:
                if fn._fmp_signature is None:
                    return obs.orig(self_, *a, **kw)        # keeps the pass' own panic
                return None
            try:
                before, tb, ob, sb = export_fn(fn), str(fn), _outs(fn), fn._fmp_signature
                hp = [i.output.value for i in fn.entry.instructions if i.opcode == "fmp_param"]
            except Exception as e:  # noqa
                before = None
                obs.errors.append(f"{type(e).__name__}: {e}")
            r = obs.orig(self_, *a, **kw)
            if before is not None:
                try:
                    oa = set(_outs(fn))
                    obs.samples.append({"name": fn.name.value, "before": before, "after": export_fn(fn), "text_before": tb,
                                        "text_after": str(fn), "sig_before": sb, "sig_after": fn._fmp_signature,
                                        "hidden": hp, "deleted": sorted(set(x for x in ob if x not in oa)),
                                        "fmp_param_after": any(i.opcode == "fmp_param" for i in fn.entry.instructions)})
                except Exception as e:  # noqa
                    obs.errors.append(f"{type(e).__name__}: {e}")
            return r

        P.run_pass = run_pass
        return self

    def __exit__(self, *a):
        self.P.run_pass = self.orig


def prune_evaluate(samples, name="c14prune", shard=8, timeout=600):
    exprs = []
    for s in samples:
        d = "[" + "; ".join(_q(x) for x in s["deleted"]) + "]"
        exprs.append(f"[if prune_check {_q(s['hidden'][0] if s['hidden'] else '')} {d} {s['before']} {s['after']} then 1 else 0]")
    return coqrun.eval_zlists(PRUNE_IMPORTS, exprs, name, shard=shard, timeout=timeout)


M256 = 2 ** 256


class PruneGen:
    """caller / callee programs; the callee allocates with dalloca in ways the optimizer may or may not remove (unused
    buffers, buffers in one arm of a branch, in a loop body, buffers that are really used), and returns a value that
    is computed here as well."""

    def __init__(self, rnd):
        self.rnd = rnd

    def program(self):
        r = self.rnd
        k1, k2, k3 = r.randint(1, 1000), r.randint(1, 1000), r.randint(1, 1000)
        shape = r.choice(["dead", "dead2", "branch", "loop", "used", "usedbranch", "none"])
        # a callee that never needs the FMP must name its return PC with the dedicated opcode: see PLAIN_RETPC_PROBE
        c = ["    callee:", "      %a = param", "      %b = param", "      %retpc = " + ("retpc_param" if shape == "none" else "param")]
        c.append(f"      %v0 = add %a, {k1}")
        if shape == "dead":
            c += ["      %p = dalloca 32", f"      %v = add %v0, %b"]
            ev = lambda a, b: (a + k1 + b) % M256  # noqa
        elif shape == "dead2":
            c += ["      %p = dalloca %b", "      %q = dalloca 64", f"      %v = mul %v0, {k2}"]
            ev = lambda a, b: ((a + k1) * k2) % M256  # noqa
        elif shape == "branch":
            c += ["      jnz %b, @t, @e", "    t:", "      %p = dalloca 32", f"      %v = add %v0, {k2}", "      jmp @j",
                  "    e:", f"      %v = add %v0, {k3}", "      jmp @j", "    j:"]
            ev = lambda a, b: (a + k1 + (k2 if b else k3)) % M256  # noqa
        elif shape == "loop":
            n = r.randint(1, 3)
            c += ["      %i = 0", "      %v = %v0", "      jmp @head", "    head:", f"      %c = lt %i, {n}", "      jnz %c, @body, @exit",
                  "    body:", "      %p = dalloca 32", f"      %v = add %v, {k2}", "      %i = add %i, 1", "      jmp @head", "    exit:"]
            ev = lambda a, b: (a + k1 + n * k2) % M256  # noqa
        elif shape == "used":
            c += ["      %p = dalloca 32", "      mstore %p, %v0", "      %w = mload %p", f"      %v = add %w, %b"]
            ev = lambda a, b: (a + k1 + b) % M256  # noqa
        elif shape == "usedbranch":
            c += ["      jnz %b, @t, @e", "    t:", "      %p = dalloca 32", "      mstore %p, %v0", "      %w = mload %p",
                  f"      %v = add %w, {k2}", "      jmp @j", "    e:", "      %q = dalloca 64", f"      %v = add %v0, {k3}", "      jmp @j", "    j:"]
            ev = lambda a, b: (a + k1 + (k2 if b else k3)) % M256  # noqa
        else:
            c += [f"      %v = xor %v0, %b"]
            ev = lambda a, b: ((a + k1) % M256) ^ b  # noqa
        c.append("      ret %retpc, %v")
        m = ["    main:", "      %x = calldataload 0", "      %y = calldataload 32"]
        two = r.random() < 0.5
        m.append("      %r1 = invoke @callee, %x, %y")
        if two:
            m += ["      %s = dalloca 32", "      mstore %s, %r1", "      %r2 = invoke @callee, %y, %x", "      %r1b = mload %s",
                  "      mstore 0, %r1b", "      mstore 32, %r2", "      return 0, 64"]
        else:
            m += ["      mstore 0, %r1", "      return 0, 32"]
        src = "function main {\n" + "\n".join(m) + "\n}\n\nfunction callee {\n" + "\n".join(c) + "\n}\n"
        cases = []
        for _ in range(3):
            x, y = r.choice([0, 1, 5, M256 - 1]), r.choice([0, 1, 7, 64])
            # `invoke @callee, %x, %y`: find out the binding order from the first run; both orders are candidates
            cases.append((x.to_bytes(32, "big") + y.to_bytes(32, "big"), x, y, two))
        return src, cases, ev, shape


PLAIN_RETPC_PROBE = """
function main {
    main:
      %x = calldataload 0
      %r1 = invoke @callee, %x
      mstore 0, %r1
      return 0, 32
}

function callee {
    callee:
      %a = param
      %retpc = param
      %v = add %a, 1
      ret %retpc, %v
}
"""


class ChainGen:
    """already lowered functions with a hidden fmp_param whose use chain consists of assigns and phis (diamonds, loop-header
    cycles), optionally ending in a real use; FmpPrunePass is run on them directly"""

    def __init__(self, rnd):
        self.rnd = rnd

    def program(self):
        r = self.rnd
        use = r.choice(["none", "none", "mstore", "add", "deadadd", "bump", "ret", "publish"])
        shape = r.choice(["line", "diamond", "loop"])
        L = ["    f:", "      %a = param", "      %fmp = fmp_param", "      %retpc = retpc_param"]
        last = "%fmp"
        for k in range(r.randint(0, 3)):
            L.append(f"      %g{k} = {last}")
            last = f"%g{k}"
        if shape == "diamond":
            L += ["      jnz %a, @t, @e", "    t:", f"      %ft = {last}", "      jmp @j", "    e:", "      jmp @j", "    j:",
                  f"      %fj = phi @t, %ft, @e, {last}"]
            last = "%fj"
        elif shape == "loop":
            L += ["      %i0 = 0", "      jmp @head", "    head:", f"      %fh = phi @f, {last}, @body, %fb", "      %i = phi @f, %i0, @body, %i2",
                  "      %c = lt %i, 3", "      jnz %c, @body, @exit", "    body:", "      %fb = %fh", "      %i2 = add %i, 1", "      jmp @head",
                  "    exit:"]
            last = "%fh"
        v = "%a"
        if use == "mstore":
            L.append(f"      mstore 64, {last}")
        elif use == "add":
            L.append(f"      %w = add {last}, %a")
            v = "%w"
        elif use == "bump":
            L += [f"      %p, %nx = bump 32, {last}", "      mstore %p, %a"]
        elif use == "ret":
            v = last
        elif use == "deadadd":
            L.append(f"      %w = add {last}, %a")
        if use == "publish":        # a publishing function (dead chain, the adopted FMP is a constant): must be left alone
            L.append("      ret %retpc, 4096, %a")
            return "function f [fmp_lowered, fmp_publishes] {\n" + "\n".join(L) + "\n}\n", use
        L.append(f"      ret %retpc, {v}")
        return "function f [fmp_lowered] {\n" + "\n".join(L) + "\n}\n", use


def run_chain(src):
    from vyper.venom.analysis import IRAnalysesCache
    from vyper.venom.parser import parse_venom
    from vyper.venom.passes.fmp_lowering import FmpPrunePass
    ctx = parse_venom(src)
    with PruneObserver() as obs:
        for fn in ctx.functions.values():
            FmpPrunePass(IRAnalysesCache(fn), fn).run_pass()
    return obs.samples, obs.errors


def full_pipeline(src, level="O2"):
    from vyper.compiler.settings import OptimizationLevel, VenomOptimizationFlags
    from vyper.evm.assembler.core import assembly_to_evm
    from vyper.venom import run_passes_on
    from vyper.venom.parser import parse_venom
    from vyper.venom.venom_to_assembly import VenomCompiler
    ctx = parse_venom(src)
    lvl = {"O2": OptimizationLevel.O2, "O3": OptimizationLevel.O3, "Os": OptimizationLevel.Os}[level]
    run_passes_on(ctx, VenomOptimizationFlags(level=lvl, disable_inlining=True), disable_mem_checks=True)
    arity = arity_check(ctx)
    code, _ = assembly_to_evm(VenomCompiler(ctx).generate_evm_assembly())
    return ctx, code, arity


def arity_check(ctx):
    """independent of call_layout: every invoke passes exactly the callee's plain params plus one hidden operand iff the
    callee (still) has an fmp_param"""
    from vyper.venom.basicblock import IRLabel
    bad = []
    for fn in ctx.functions.values():
        for bb in fn.get_basic_blocks():
            for i in bb.instructions:
                if i.opcode != "invoke" or not isinstance(i.operands[0], IRLabel):
                    continue
                cal = ctx.functions.get(i.operands[0])
                if cal is None:
                    continue
                ops = [x.opcode for x in cal.entry.instructions]
                want = 1 + ops.count("param") + (1 if "fmp_param" in ops else 0)
                if len(i.operands) != want:
                    bad.append(f"{fn.name.value}: `{i}` has {len(i.operands)} operands, callee {cal.name.value} expects {want}")
    return bad


def run_code(code, calldatas):
    from pyrevm import EVM, AccountInfo
    outs = []
    for cd in calldatas:
        evm = EVM()
        caller, addr = "0x" + "10" * 20, "0x" + "20" * 20
        evm.set_balance(caller, 1)
        evm.insert_account_info(addr, AccountInfo(code=code))
        try:
            outs.append(("ok", bytes(evm.message_call(caller=caller, to=addr, calldata=cd, gas=3_000_000)).hex()))
        except Exception as e:  # noqa
            outs.append(("revert", str(e)[:40]))
    return outs


def _words(h):
    return [int(h[k:k + 64], 16) for k in range(0, len(h), 64)]


def prune_member(src, cases, ev, level):
    """returns (samples, errors, problem or None)"""
    with PruneObserver() as obs:
        _, code, arity = full_pipeline(src, level)
    with PruneObserver(enabled=False):
        _, code0, arity0 = full_pipeline(src, level)
    cds = [c[0] for c in cases]
    o1, o0 = run_code(code, cds), run_code(code0, cds)
    prob = None
    if arity or arity0:
        prob = {"kind": "arity", "detail": (arity or arity0)[:3]}
    for (cd, x, y, two), a, b in zip(cases, o1, o0):
        if prob:
            break
        if a != b:
            prob = {"kind": "differential", "calldata": cd.hex(), "with_prune": a, "without_prune": b}
            break
        if a[0] != "ok":
            prob = {"kind": "revert", "calldata": cd.hex(), "with_prune": a}
            break
        got = _words(a[1])
        # operand order of `invoke @callee, %x, %y` w.r.t. the params: accept the order the unpruned build uses, but the
        # value must be the callee's function of the two arguments
        cands = [[ev(x, y)] + ([ev(y, x)] if two else []), [ev(y, x)] + ([ev(x, y)] if two else [])]
        if got not in cands:
            prob = {"kind": "value", "calldata": cd.hex(), "got": [hex(g) for g in got], "expected_one_of": [[hex(v) for v in c_] for c_ in cands]}
    return obs.samples, obs.errors, prob


def part_prune(ctx, deps=None):
    b = ctx.coq_build_cached(PROOF_FILES[:2] + PRUNE_FILES, deps=list(deps) if deps is not None else DEPS, timeout=600)
    rnd = random.Random(ctx.seed * 7919 + 13)
    stats = {"programs": 0, "pipeline_rejected": 0, "invocations": 0, "pruned": 0, "unchanged": 0, "accepted": 0, "rejected": 0,
             "evm_executions": 0, "problems": 0, "signature_errors": 0, "export_errors": 0, "chain_instructions": 0}
    samples, probs = [], []
    g = PruneGen(rnd)
    n = 30 if ctx.tier == "quick" else 300
    progs = []
    for k in range(n):
        src, cases, ev, shape = g.program()
        progs.append((f"prunegen{k}:{shape}", src, cases, ev))
    for name, src, cases, ev in progs:
        stats["programs"] += 1
        level = rnd.choice(["O2", "O2", "O3", "Os"])
        try:
            ss, ee, prob = prune_member(src, cases, ev, level)
        except Exception as e:  # noqa
            stats["pipeline_rejected"] += 1
            stats.setdefault("first_pipeline_error", repr(e)[:300])
            continue
        stats["evm_executions"] += 2 * len(cases)
        stats["export_errors"] += len(ee)
        for s_ in ss:
            s_["prog"], s_["src"], s_["level"] = name, src, level
        samples += ss
        if prob is not None:
            probs.append(dict(prob, venom=src, prog=name, level=level))
    # lowered functions with assign / phi chains, the pass run directly
    cg = ChainGen(rnd)
    stats["chain_programs"] = 0
    stats["chain_with_real_use_pruned"] = 0
    for k in range(40 if ctx.tier == "quick" else 400):
        src, use = cg.program()
        try:
            ss, ee = run_chain(src)
        except Exception as e:  # noqa
            stats["chain_crashes"] = stats.get("chain_crashes", 0) + 1
            if stats["chain_crashes"] <= 2:
                ctx.violation("failing-input", "FmpPrunePass raises on a well-formed lowered function", {"venom": src, "error": repr(e)[:600]},
                              key="prune:crash")
            continue
        stats["chain_programs"] += 1
        stats["export_errors"] += len(ee)
        for s_ in ss:
            s_["prog"], s_["src"], s_["level"] = f"chaingen{k}:{use}", src, "direct"
            if use != "none" and s_["before"] != s_["after"]:
                stats["chain_with_real_use_pruned"] += 1
        samples += ss
    # functions that publish (dret family) through the full pipeline: their hidden param must stay
    for name, src, cases in family(rnd, 8 if ctx.tier == "quick" else 60):
        stats["programs"] += 1
        try:
            with PruneObserver() as obs_:
                _, code, arity = full_pipeline(src)
        except Exception as e:  # noqa
            stats["pipeline_rejected"] += 1
            stats.setdefault("first_pipeline_error", repr(e)[:300])
            continue
        outs = run_code(code, [cd for cd, _ in cases])
        stats["evm_executions"] += len(cases)
        for s_ in obs_.samples:
            s_["prog"], s_["src"], s_["level"] = name, src, "O2"
        samples += obs_.samples
        for (cd, exp), (st, data) in zip(cases, outs):
            got = _words(data) if st == "ok" else None
            if arity or got is None or len(got) != len(exp) or any(e_ is not None and e_ != g_ for e_, g_ in zip(exp, got)):
                probs.append({"kind": "arity" if arity else "value", "detail": arity[:3], "calldata": cd.hex(), "got": data if got is None else [hex(g_) for g_ in got],
                              "expected": [hex(x) if x is not None else None for x in exp], "venom": src, "prog": name, "level": "O2"})
                break
    # probe: a callee that does not need the FMP and names its return PC with a plain `param`
    try:
        full_pipeline(PLAIN_RETPC_PROBE)
        stats["plain_retpc_probe"] = "ok"
    except Exception as e:  # noqa
        stats["plain_retpc_probe"] = "rejected"
        msg = "; ".join(str(x).splitlines()[0] for x in getattr(e, "exceptions", [e]))[:400]
        ctx.violation("failing-input", "a valid raw Venom program (callee without dynamic allocation, return PC bound by a plain `param`) is "
                      "rejected by the pipeline's own post-lowering check: FmpLoweringPass seals the callee without normalizing its "
                      "return-PC param to `retpc_param`, so the sealed function counts the return PC as a user argument",
                      {"venom": PLAIN_RETPC_PROBE, "error": msg, "how": "parse_venom + run_passes_on(O2, disable_inlining=True)"},
                      key="fmp:plain-retpc-param-sealed")
    # the unit-test programs through the full pipeline (no expected values)
    with PruneObserver() as obs:
        for name, src in c14_fmp.unit_test_programs():
            k = len(obs.samples)
            try:
                full_pipeline(src)
            except Exception:  # noqa
                pass
            for s_ in obs.samples[k:]:
                s_["prog"], s_["src"], s_["level"] = name, src, "O2"
    samples += obs.samples
    stats["export_errors"] += len(obs.errors)
    stats["invocations"] = len(samples)
    stats["problems"] = len(probs)
    if stats["programs"] and stats["pipeline_rejected"] * 4 > stats["programs"]:
        ctx.violation("correspondence-broken", "most prune family programs no longer go through the pipeline", dict(stats))
    found = False
    for p_ in probs[:2]:
        found = True
        ctx.violation("failing-input", "FmpPrunePass / the hidden-FMP calling convention changes the behaviour of a program ("
                      + p_["kind"] + ")", p_, key="prune:" + p_["prog"])
    todo, seen = [], set()
    for s_ in samples:
        changed = s_["before"] != s_["after"]
        sa, sb = s_["sig_after"], s_["sig_before"]
        if not changed:
            stats["unchanged"] += 1
            if repr(sa) != repr(sb) or (sa is not None and bool(sa.has_fmp_param) != bool(s_["fmp_param_after"])):
                stats["signature_errors"] += 1
                if stats["signature_errors"] <= 2:
                    ctx.violation("theorem-broken", "FmpPrunePass changed the FMP signature of a function it did not change",
                                  {"theorem": "prune_check_sound (signature side condition)", "function": s_["text_after"][:3000],
                                   "sig_before": repr(sb), "sig_after": repr(sa)})
            continue
        stats["pruned"] += 1
        stats["chain_instructions"] += len(s_["deleted"])
        if sb is not None and sb.publishes:
            stats["signature_errors"] += 1
            if stats["signature_errors"] <= 2:
                ctx.violation("theorem-broken", "FmpPrunePass pruned a publishing function (its callers adopt the returned FMP; the sealed "
                          "signature loses the publish bit)",
                              {"theorem": "prune_check_sound (signature side condition)", "function_before": s_["text_before"][:3000],
                               "function_after": s_["text_after"][:3000], "sig_before": repr(sb), "sig_after": repr(sa)})
        if sa is None or sa.has_fmp_param or sa.publishes or s_["fmp_param_after"] or len(s_["hidden"]) != 1:
            stats["signature_errors"] += 1
            if stats["signature_errors"] <= 2:
                ctx.violation("theorem-broken", "FmpPrunePass changed a function but did not reseal its signature to (no fmp param, no publish)",
                              {"theorem": "prune_check_sound (signature side condition)", "function_before": s_["text_before"][:3000],
                               "function_after": s_["text_after"][:3000], "sig_after": repr(sa)})
        key = (s_["before"], s_["after"])
        if key not in seen:
            seen.add(key)
            todo.append(s_)
    res = None
    if b["ok"] and todo:
        try:
            res = prune_evaluate(todo, shard=max(1, len(todo) // 12), timeout=900)
        except RuntimeError as e:
            ctx.violation("correspondence-broken", "the prune validator could not be evaluated", {"error": str(e)[-1500:]})
    for k, s_ in enumerate(todo):
        if res is None:
            break
        if res[k] == [1]:
            stats["accepted"] += 1
            continue
        stats["rejected"] += 1
        if stats["rejected"] <= 2 and not found:
            ctx.violation("theorem-broken", "prune_check_sound does not apply: FmpPrunePass deleted something other than the dead hidden "
                          "fmp_param and its assign/phi chain (prune_check = false; function " + s_["name"] + " of " + str(s_.get("prog")) + ")",
                          {"theorem": "prune_check_sound", "function_before": s_["text_before"][:4000], "function_after": s_["text_after"][:4000],
                           "deleted": s_["deleted"], "venom": s_.get("src")})
    if not b["ok"] and not found:
        ctx.violation("theorem-broken", f"{b.get('failed_lemma')} in {b['file']}",
                      {"theorem": b.get("failed_lemma"), "file": b["file"], "coq_output": b["out"][-1500:]})
    if stats["pruned"] == 0:
        ctx.violation("correspondence-broken", "FmpPrunePass never pruned anything in the family", dict(stats))
    ctx.corr["fmp_prune"] = stats
    ctx.log("prune " + " ".join(f"{k}={v}" for k, v in stats.items()))
    ctx.trusted.append("coq/C14R/PruneProofs.v hypothesis: `assign` and `phi` only bind their outputs (no effect on FMP / memory / world, "
                       "fall through); the caller side of the convention (invoke operand counts) is checked in python after the "
                       "pipeline and by differential EVM runs (prune on / off)")
    return stats["accepted"] + stats["evm_executions"]
