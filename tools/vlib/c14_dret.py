"""C14 part: validation of DretDesugarPass (and FmpPrunePass) of vyper/venom/passes/fmp_lowering.py by the verified
checkers of coq/C14R.

DretDesugarPass.  Every invocation of the real pass is observed in this process (the class attribute `run_pass` is wrapped;
/repo is not changed): the function is exported before and after the pass (coq/C14R/Dret.v syntax: outputs, opcode,
operands in IRInstruction.operands order) and `dret_check before after` is evaluated by vm_compute.  The checker re-runs
the Gallina model `desugar` of the pass with the fresh names read off the real output, compares, and checks the side
conditions (names fresh and pairwise distinct, entry block not a jump target).  By `dret_desugar_sound` (PropsDret.v)
acceptance means: every terminating execution of the function in which `dret` is the primitive "pack the returned
buffers in order at the function-entry FMP, publish the FMP behind them" is an execution of the output with the same
returned values, published FMP, memory and world.  `pack_correct` states what the caller observes under the producer
contract (no earlier destination clobbers a later source).
Sources of functions: the IR programs of the repository's unit tests (c14_fmp.unit_test_programs), and a random family
of caller/callee programs (several buffers, runtime sizes, ordinary returns, several dret blocks).  The family
programs are also lowered by the real pipeline, assembled and run on the EVM; the words the caller reads through the
returned pointers, the pointer distances and the position of the caller's next allocation are compared with the values
`pack_correct` predicts (this is also the search on rejection: a concrete failing input).

FmpPrunePass: see part two of this file (prune_*)."""
import contextlib
import random

from vlib import c14_fmp, coqrun

PROOF_FILES = ["C14R/Dret.v", "C14R/DretProofs.v", "C14R/PropsDret.v"]
DEPS = []
IMPORTS = ("From Verif Require Import C14R.Dret.\nOpen Scope string_scope.\nOpen Scope list_scope.\nOpen Scope Z_scope.\n")


def build(ctx, deps=None):
    return ctx.coq_build_cached(PROOF_FILES, deps=list(deps) if deps is not None else DEPS, timeout=600)


def prebuild(ctx):
    build(ctx)


def _q(s):
    return '"' + str(s).replace('"', "'") + '"'


def _opnd(o):
    from vyper.venom.basicblock import IRLabel, IRLiteral, IRVariable
    if isinstance(o, IRVariable):
        return f"Var {_q(o.value)}"
    if isinstance(o, IRLiteral):
        return f"Lit {coqrun.hexlit(o.value)}"
    if isinstance(o, IRLabel):
        return f"Lab {_q(o.value)}"
    raise TypeError(f"operand {o!r}")


def export_fn(fn):
    blocks = list(fn.get_basic_blocks())
    if blocks and blocks[0] is not fn.entry:
        blocks.remove(fn.entry)
        blocks.insert(0, fn.entry)
    out = []
    for bb in blocks:
        body = []
        for i in bb.instructions:
            outs = "; ".join(_q(o.value) for o in i.get_outputs())
            args = "; ".join(_opnd(o) for o in i.operands)
            body.append(f"mkI [{outs}] {_q(i.opcode)} [{args}]")
        out.append(f"mkB {_q(bb.label.value)} [{'; '.join(body)}]")
    return "[" + "; ".join(out) + "]"


class Observer:
    """Wraps DretDesugarPass.run_pass for the duration of a `with` block; one sample per invocation."""

    def __init__(self):
        self.samples = []
        self.errors = []

    def __enter__(self):
        from vyper.venom.passes.fmp_lowering import DretDesugarPass as P
        self.P = P
        self.orig = P.run_pass
        obs = self

        def run_pass(self_, *a, **kw):
            fn = self_.function
            try:
                before, tb = export_fn(fn), str(fn)
                nd = sum(1 for bb in fn.get_basic_blocks() for i in bb.instructions if i.opcode == "dret")
            except Exception as e:  # noqa
                before = None
                obs.errors.append(f"{type(e).__name__}: {e}")
            r = obs.orig(self_, *a, **kw)
            if before is not None:
                try:
                    obs.samples.append({"name": fn.name.value, "before": before, "after": export_fn(fn), "text_before": tb,
                                        "text_after": str(fn), "drets": nd})
                except Exception as e:  # noqa
                    obs.errors.append(f"{type(e).__name__}: {e}")
            return r

        P.run_pass = run_pass
        return self

    def __exit__(self, *a):
        self.P.run_pass = self.orig


def evaluate(samples, name="c14dret", shard=8, timeout=600):
    exprs = [f"[if dret_check {s['before']} {s['after']} then 1 else 0]" for s in samples]
    return coqrun.eval_zlists(IMPORTS, exprs, name, shard=shard, timeout=timeout)


# ---------------------------------------------------------------------------------------------------------------
# family: caller / callee programs with a known observation
def ceil32(n):
    return (n + 31) // 32 * 32


class Gen:
    def __init__(self, rnd):
        self.rnd = rnd

    def program(self):
        """returns (source, [(calldata, expected words)])"""
        r = self.rnd
        nbuf = r.randint(1, 3)
        nord = r.randint(0, 2)
        two = r.random() < 0.4                       # two dret blocks, chosen by calldata word 0
        static_src = r.random() < 0.25               # the last source lies in static memory (not a dalloca buffer)
        bufs = []                                    # (alloc size operand, dret size operand kind, words)
        for k in range(nbuf):
            kind = r.choice(["lit", "lit", "run"])
            alloc = r.choice([32, 64, 96])
            words = [r.randint(1, 2 ** 64) for _ in range(alloc // 32)]
            size = r.choice([0, 1, 31, 32, 33, 64, 96][: 4 + alloc // 32]) if kind == "lit" else None
            if size is not None:
                size = min(size, alloc)
            bufs.append({"alloc": alloc, "size": size, "words": words, "slot": k + 1})
        ords = [r.randint(0, 2 ** 32) for _ in range(nord)]
        c = ["    callee:", "      %retpc = param"]
        for k, b in enumerate(bufs):
            if b["size"] is None:
                c.append(f"      %sz{k} = calldataload {32 * b['slot']}")
        for k, b in enumerate(bufs):
            if static_src and k == nbuf - 1:
                c.append(f"      %p{k} = 0x1000")
            else:
                c.append(f"      %p{k} = dalloca {b['alloc']}")
            for j, w in enumerate(b["words"]):
                if j == 0:
                    c.append(f"      mstore %p{k}, {w}")
                else:
                    c.append(f"      %p{k}_{j} = add %p{k}, {32 * j}")
                    c.append(f"      mstore %p{k}_{j}, {w}")

        def dret(ordvals):
            ops = [str(nbuf)] + [str(v) for v in ordvals]
            for k, b in enumerate(bufs):
                ops += [f"%p{k}", str(b["size"]) if b["size"] is not None else f"%sz{k}"]
            return "      dret " + ", ".join(ops + ["%retpc"])

        ords2 = [v + 1 for v in ords]
        if two:
            c += ["      %c = calldataload 0", "      jnz %c, @one, @two", "    one:", dret(ords), "    two:", dret(ords2)]
        else:
            c.append(dret(ords))
        outs = [f"%o{k}" for k in range(nord)] + [f"%b{k}" for k in range(nbuf)]
        m = ["    main:", f"      {', '.join(outs)} = invoke @callee", "      %nx = dalloca 64"]
        vals = list(outs[:nord])
        for k in range(1, nbuf):
            m.append(f"      %d{k} = sub %b{k}, %b0")
            vals.append(f"%d{k}")
        m.append("      %dn = sub %nx, %b0")
        vals.append("%dn")
        m.append("      mstore %nx, 0xdeadbeef")
        m.append("      %nx1 = add %nx, 32")
        m.append("      mstore %nx1, 0xdeadbeef")
        reads = []
        for k, b in enumerate(bufs):
            for j in range(len(b["words"])):
                if j == 0:
                    m.append(f"      %r{k}_0 = mload %b{k}")
                else:
                    m.append(f"      %a{k}_{j} = add %b{k}, {32 * j}")
                    m.append(f"      %r{k}_{j} = mload %a{k}_{j}")
                reads.append((k, j, f"%r{k}_{j}"))
        vals += [x[2] for x in reads]
        for n_, v in enumerate(vals):
            m.append(f"      mstore {32 * n_}, {v}")
        m.append(f"      return 0, {32 * len(vals)}")
        src = "function main {\n" + "\n".join(m) + "\n}\n\nfunction callee {\n" + "\n".join(c) + "\n}\n"
        cases = []
        for _ in range(3):
            sel = r.choice([0, 1])
            rt = [r.choice([0, 1, 31, 32, 33, 64, 96]) for _ in range(4)]
            cd = sel.to_bytes(32, "big") + b"".join(min(rt[k], bufs[k]["alloc"]).to_bytes(32, "big") if k < nbuf else bytes(32) for k in range(3))
            sizes = [b["size"] if b["size"] is not None else min(rt[k], b["alloc"]) for k, b in enumerate(bufs)]
            exp = list(ords if (not two or sel) else ords2)
            off, offs = 0, []
            for s_ in sizes:
                offs.append(off)
                off += ceil32(s_)
            exp += offs[1:] + [off]
            mask = []
            for (k, j, _) in reads:
                # only whole words inside the returned size are determined by the contract
                known = 32 * (j + 1) <= sizes[k]
                exp.append(bufs[k]["words"][j] if known else None)
            cases.append((cd, exp))
        return src, cases


def family(rnd, n):
    g = Gen(rnd)
    return [(f"dretgen{k}",) + g.program() for k in range(n)]


def run_family_member(src, cases):
    """lower with the real pipeline, run on the EVM, compare with the predicted observation.
    returns (samples, errors, mismatch or None)"""
    with Observer() as obs:
        ctx, _, _ = c14_fmp.lower(src)
    outs = c14_fmp.run_evm(ctx, [cd for cd, _ in cases])
    bad = None
    for (cd, exp), (st, data) in zip(cases, outs):
        if st != "ok":
            bad = {"calldata": cd.hex(), "expected": [hex(x) if x is not None else None for x in exp], "got": f"{st}: {data}"}
            break
        got = [int(data[64 * k:64 * k + 64] or "0", 16) for k in range(len(exp))]
        if len(data) != 64 * len(exp) or any(e is not None and e != g_ for e, g_ in zip(exp, got)):
            bad = {"calldata": cd.hex(), "expected": [hex(x) if x is not None else None for x in exp], "got": [hex(x) for x in got]}
            break
    return obs.samples, obs.errors, bad


# ---------------------------------------------------------------------------------------------------------------
PLAIN_CONTRACTS = ["""
@internal
def f(x: uint256) -> uint256:
    return x + 1

@external
def g(x: uint256) -> uint256:
    return self.f(x) * 2
""", """
@external
def h(a: Bytes[64]) -> Bytes[64]:
    return slice(a, 0, 32)
"""]


def collect(ctx, rnd, stats):
    """returns (samples, evm mismatches)"""
    samples, mism = [], []
    n = 40 if ctx.tier == "quick" else 400
    for name, src, cases in family(rnd, n):
        stats["family_programs"] += 1
        try:
            ss, ee, bad = run_family_member(src, cases)
        except Exception as e:  # noqa
            stats["family_rejected_by_pipeline"] += 1
            stats.setdefault("first_pipeline_error", repr(e)[:300])
            continue
        stats["evm_executions"] += len(cases)
        stats["export_errors"] += len(ee)
        if ee:
            stats["family_export_errors"] = stats.get("family_export_errors", 0) + len(ee)
            stats.setdefault("first_export_error", ee[0])
        for s_ in ss:
            s_["prog"], s_["src"] = name, src
        samples += ss
        if bad is not None:
            mism.append(dict(bad, venom=src, prog=name))
    with Observer() as obs:
        for name, src in c14_fmp.unit_test_programs():
            k = len(obs.samples)
            try:
                c14_fmp.lower(src)
            except Exception:  # noqa  (snippets that are meant to be rejected, or need another pipeline)
                pass
            for s_ in obs.samples[k:]:
                s_["prog"], s_["src"] = name, src
        try:
            import vyper
            from vyper.compiler.settings import OptimizationLevel, Settings
            k = len(obs.samples)
            for src in PLAIN_CONTRACTS:
                vyper.compile_code(src, output_formats=["bytecode_runtime"], settings=Settings(experimental_codegen=True, optimize=OptimizationLevel.GAS))
            for s_ in obs.samples[k:]:
                s_["prog"], s_["src"] = "contract", None
            stats["contract_functions"] = len(obs.samples) - k
        except Exception as e:  # noqa
            stats["contract_error"] = repr(e)[:200]
    stats["export_errors"] += len(obs.errors)
    if obs.errors:
        stats.setdefault("first_export_error", obs.errors[0])
    samples += obs.samples
    return samples, mism


def part_dret(ctx, deps=None):
    b = build(ctx, deps)
    rnd = random.Random(ctx.seed * 7919 + 11)
    stats = {"family_programs": 0, "family_rejected_by_pipeline": 0, "evm_executions": 0, "export_errors": 0, "invocations": 0,
             "with_dret": 0, "drets": 0, "identity_ok": 0, "accepted": 0, "rejected": 0, "evm_mismatches": 0}
    try:
        samples, mism = collect(ctx, rnd, stats)
    except Exception as e:  # noqa
        ctx.violation("correspondence-broken", "DretDesugarPass could not be observed", {"error": repr(e)[:800]})
        ctx.corr["dret"] = stats
        return 0
    stats["invocations"] = len(samples)
    stats["evm_mismatches"] = len(mism)
    if stats["family_programs"] and stats["family_rejected_by_pipeline"] * 4 > stats["family_programs"]:
        ctx.violation("correspondence-broken", "most dret family programs no longer go through the lowering pipeline", dict(stats))
    if stats.get("family_export_errors"):
        ctx.violation("correspondence-broken", "DretDesugarPass input/output could not be exported: " + str(stats.get("first_export_error")),
                      dict(stats))
    found = False
    for m in mism[:2]:
        found = True
        ctx.violation("failing-input", "a function returning dynamic buffers with `dret` hands the caller wrong data / a wrong FMP after "
                      "DretDesugarPass + lowering (expected: the values pack_correct predicts)", m, key="dret:" + m["prog"])
    # functions without dret: the pass must be the identity (compared here; a few also through the Coq checker)
    todo, seen, ident_sent = [], set(), 0
    for s_ in samples:
        if s_["drets"] == 0:
            if s_["before"] == s_["after"]:
                stats["identity_ok"] += 1
                if ident_sent >= 5:
                    continue
                ident_sent += 1
        else:
            stats["with_dret"] += 1
            stats["drets"] += s_["drets"]
        key = (s_["before"], s_["after"])
        if key in seen:
            continue
        seen.add(key)
        todo.append(s_)
    res = None
    if b["ok"] and todo:
        try:
            res = evaluate(todo, shard=max(1, len(todo) // 12), timeout=900)
        except RuntimeError as e:
            ctx.violation("correspondence-broken", "the dret validator could not be evaluated", {"error": str(e)[-1500:]})
    for k, s_ in enumerate(todo):
        if res is None:
            break
        if res[k] == [1]:
            stats["accepted"] += 1
            continue
        stats["rejected"] += 1
        if stats["rejected"] <= 2 and not found:
            ctx.violation("theorem-broken", "dret_desugar_sound does not apply: the output of DretDesugarPass is not the verified "
                          "desugaring of its input (dret_check = false; function " + s_["name"] + " of " + str(s_.get("prog")) + ")",
                          {"theorem": "dret_desugar_sound", "function_before": s_["text_before"][:4000],
                           "function_after": s_["text_after"][:6000], "venom": s_.get("src")})
    if not b["ok"] and not found:
        ctx.violation("theorem-broken", f"{b.get('failed_lemma')} in {b['file']}",
                      {"theorem": b.get("failed_lemma"), "file": b["file"], "coq_output": b["out"][-1500:]})
    if stats["with_dret"] == 0:
        ctx.violation("correspondence-broken", "no function with a dret was observed", dict(stats))
    ctx.corr["dret"] = stats
    ctx.log("dret " + " ".join(f"{k}={v}" for k, v in stats.items()))
    ctx.trusted.append("coq/C14R/Dret.v: `dret` = in-order pack at the function-entry FMP (the semantics the repo's README / "
                       "test_dret_bad_return_order_can_clobber_later_source define it against), tied to the compiled code by EVM runs "
                       "of the family; mcopy = memmove on a byte map; only the cancun+ copy form (mcopy) is modelled")
    ctx.samples.append({"dret_functions": stats["with_dret"], "evm_executions": stats["evm_executions"]})
    return stats["accepted"] + stats["evm_executions"]
