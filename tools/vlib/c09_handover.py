"""C09: family of control hand-over points.

A lock-protected function may hand control to foreign code through ANY builtin / statement that can execute code the
contract does not own.  For every such hand-over point K the victim has
    h_K(p)  @nonreentrant  -- hands over while the lock is held
    u_K(p)  unprotected    -- the same body, control group (lock free)
and the foreign code (attacker callback / attacker fallback / code run by DELEGATECALL in the victim's context /
constructor of a contract being created from a blueprint or from raw init code) re-enters the victim's
    poke()        @nonreentrant mutating        bit 0
    price()       @nonreentrant @view (static)  bit 1
    __default__   @nonreentrant payable         bit 2
    free()        unprotected view              bit 3
and reports which re-entries succeeded (bit 4 = the probe ran).  Oracle (the property's own, = Lock.v):
    from h_K: every protected re-entry reverts, the unprotected one succeeds     -> bits = 8 | 16
    from u_K: every re-entry succeeds (those possible in the context)            -> bits = 15 | 16  (static: 10 | 16)
    afterwards (same transaction, transient storage NOT reset): poke / price / __default__ succeed (lock released),
    also after a hand-over whose enclosing call reverted.
Hand-over points without foreign code execution (create_minimal_proxy_to, create_copy_of) only check the release.
Lock kinds: transient (cancun+) / storage (pre-cancun) come with the configuration's evm version.
The expected bits are also derived from coq/C09/Lock.v (observe_seq on the corresponding call tree).

Terminating statements (selfdestruct / raw_revert / raise / assert-reason / return) whose OPERAND expressions hand control
over (extcall, staticcall, internal functions that call out / send / create) are the family of vlib/c09_halt.py, which
reuses this module's probe and oracle."""
from vlib import coqrun
from vlib.evm import Chain

PROBE_BODY = """
    b: uint256 = 16
    ok: bool = False
    res: Bytes[32] = b""
    if not static_only:
        ok = raw_call(v, method_id("poke()"), revert_on_failure=False)
        if ok:
            b |= 1
    ok, res = raw_call(v, method_id("price()"), max_outsize=32, is_static_call=True, revert_on_failure=False)
    if ok:
        b |= 2
    if not static_only:
        ok = raw_call(v, b"\\xde\\xad\\xbe\\xef", revert_on_failure=False)
        if ok:
            b |= 4
    ok, res = raw_call(v, method_id("free()"), max_outsize=32, is_static_call=True, revert_on_failure=False)
    if ok and len(res) == 32:
        if convert(res, uint256) == 42:
            b |= 8
"""

ATTACKER = """
victim: public(address)
bits: public(uint256)

@external
def set_victim(v: address):
    self.victim = v
    self.bits = 0

@external
def clear():
    self.bits = 0

@internal
def _probe(v: address, static_only: bool) -> uint256:
""" + PROBE_BODY + """
    return b

@internal
@view
def _probev(v: address) -> uint256:
    b: uint256 = 16
    ok: bool = False
    res: Bytes[32] = b""
    ok, res = raw_call(v, method_id("price()"), max_outsize=32, is_static_call=True, revert_on_failure=False)
    if ok:
        b |= 2
    ok, res = raw_call(v, method_id("free()"), max_outsize=32, is_static_call=True, revert_on_failure=False)
    if ok and len(res) == 32:
        if convert(res, uint256) == 42:
            b |= 8
    return b

@external
def cb(p: uint256) -> uint256:
    b: uint256 = self._probe(self.victim, False)
    self.bits = b
    return b

@external
@view
def cbv(p: uint256) -> uint256:
    return self._probev(self.victim)

@external
def dcb() -> uint256:
    # executed by DELEGATECALL in the victim's context: `self` is the victim; no storage of ours is touched
    return self._probe(self, False)

@external
@payable
def __default__():
    self.bits = self._probe(self.victim, False)

@external
def sd_then_poke() -> uint256:
    # one transaction: a protected function that ends in SELFDESTRUCT, then another protected function
    ok1: bool = raw_call(self.victim, concat(method_id("h_selfdestruct(uint256)"), convert(3, bytes32)), revert_on_failure=False)
    ok2: bool = raw_call(self.victim, method_id("poke()"), revert_on_failure=False)
    return convert(ok1, uint256) + 2 * convert(ok2, uint256)

@external
def sd_int_then_poke() -> uint256:
    # same, the selfdestruct sits in an internal helper that is not itself @nonreentrant
    ok1: bool = raw_call(self.victim, concat(method_id("h_selfdestruct_int(uint256)"), convert(3, bytes32)), revert_on_failure=False)
    ok2: bool = raw_call(self.victim, method_id("poke()"), revert_on_failure=False)
    return convert(ok1, uint256) + 2 * convert(ok2, uint256)
"""

CHILD = """
bits: public(uint256)

@deploy
def __init__(v: address):
    static_only: bool = False
""" + PROBE_BODY + """
    self.bits = b
"""

DATA_CB = 'concat(method_id("cb(uint256)"), convert(p, bytes32))'
DATA_CBV = 'concat(method_id("cbv(uint256)"), convert(p, bytes32))'

# name -> (body lines computing r: uint256, where the bits are reported, static context, runs foreign code)
#   report: "ret" (returned through r), "att" (attacker storage), "child" (storage of the created contract self.last)
KINDS = {
    "extcall": (["r = extcall A(self.att).cb(p)"], "ret", False, True),
    "staticcall": (["r = staticcall A(self.att).cbv(p)"], "ret", True, True),
    "raw": ([f"resp: Bytes[32] = raw_call(self.att, {DATA_CB}, max_outsize=32)", "r = convert(resp, uint256)"], "ret", False, True),
    "raw_nofail": (["ok: bool = False", 'resp: Bytes[32] = b""',
                    f"ok, resp = raw_call(self.att, {DATA_CB}, max_outsize=32, revert_on_failure=False)",
                    "assert ok", "r = convert(resp, uint256)"], "ret", False, True),
    "raw_noout": ([f"raw_call(self.att, {DATA_CB})"], "att", False, True),
    "raw_noout_nofail": ([f"ok: bool = raw_call(self.att, {DATA_CB}, revert_on_failure=False)", "assert ok"], "att", False, True),
    "raw_gas_value": ([f"raw_call(self.att, {DATA_CB}, gas=2000000, value=0)"], "att", False, True),
    "raw_static": ([f"resp: Bytes[32] = raw_call(self.att, {DATA_CBV}, max_outsize=32, is_static_call=True)",
                    "r = convert(resp, uint256)"], "ret", True, True),
    "raw_delegate": (['resp: Bytes[32] = raw_call(self.att, method_id("dcb()"), max_outsize=32, is_delegate_call=True)',
                      "r = convert(resp, uint256)"], "ret", False, True),
    "send": (["send(self.att, 0, gas=2000000)"], "att", False, True),
    "blueprint": (["c: address = create_from_blueprint(self.bp, self)", "self.last = c"], "child", False, True),
    "blueprint_salt": (["c: address = create_from_blueprint(self.bp, self, salt=convert(p, bytes32))", "self.last = c"], "child", False, True),
    "blueprint_nofail": (["c: address = create_from_blueprint(self.bp, self, revert_on_failure=False)", "self.last = c"], "child", False, True),
    "raw_create": (["c: address = raw_create(self.initcode, self)", "self.last = c"], "child", False, True),
    "raw_create_salt": (["c: address = raw_create(self.initcode, self, salt=convert(p, bytes32))", "self.last = c"], "child", False, True),
    "proxy": (["c: address = create_minimal_proxy_to(self.att)", "self.last = c"], None, False, False),
    "copy": (["c: address = create_copy_of(self.att)", "self.last = c"], None, False, False),
}
# the hand-over is the ONLY thing between lock acquire and release (no state access of the function's own), and
# variants with the function's own reads / writes around it
SHAPES = ["bare", "rw"]


def victim_source():
    L = ["interface A:", "    def cb(p: uint256) -> uint256: nonpayable", "    def cbv(p: uint256) -> uint256: view", "",
         "att: public(address)", "bp: public(address)", "initcode: public(Bytes[6000])", "total: public(uint256)",
         "last: public(address)", "",
         "@deploy", "def __init__(a: address, b: address):", "    self.att = a", "    self.bp = b", "",
         "@external", "def set_init(code: Bytes[6000]):", "    self.initcode = code", "",
         "@external", "@nonreentrant", "def poke():", "    self.total += 1", "",
         "@external", "@view", "@nonreentrant", "def price() -> uint256:", "    return self.total", "",
         "@external", "@payable", "@nonreentrant", "def __default__():", "    self.total += 1", "",
         "@external", "@view", "def free() -> uint256:", "    return 42", ""]
    for k, (body, _rep, static, _foreign) in KINDS.items():
        for shape in SHAPES:
            for prot in (True, False):
                L.append("@external")
                if prot:
                    L.append("@nonreentrant")
                L.append(f"def {'h' if prot else 'u'}_{k}_{shape}(p: uint256) -> uint256:")
                L.append("    r: uint256 = 0")
                if shape == "rw":
                    L.append("    self.total += p")
                L += ["    " + x for x in body]
                if shape == "rw":
                    L.append("    self.total += 1")
                L.append("    return r")
                L.append("")
        # the enclosing call reverts after the hand-over: everything is rolled back, the lock must be free afterwards
        L += ["@external", "@nonreentrant", f"def f_{k}(p: uint256) -> uint256:", "    r: uint256 = 0"] + ["    " + x for x in body] + \
             ['    assert r == 12345, "no"', "    return r", ""]
    # exit through SELFDESTRUCT (no foreign code runs; since cancun the contract survives unless created in the same tx)
    L += ["@external", "@nonreentrant", "def h_selfdestruct(p: uint256) -> uint256:", "    selfdestruct(self.att)", ""]
    L += ["@internal", "def _sd_helper():", "    selfdestruct(self.att)", "",
          "@external", "@nonreentrant", "def h_selfdestruct_int(p: uint256) -> uint256:", "    self._sd_helper()", "    return 0", ""]
    return "\n".join(L)


def expected_bits(prot, static):
    if prot:
        return 16 | 8
    return 16 | (10 if static else 15)


def model_tree(prot, static):
    """call tree of Lock.v for the hand-over scenario (victim = contract 0, adversary = 9); journal tags 1..4"""
    st = "true" if static else "false"
    # in a static context the journal cannot be written (model: a journal write reverts), so no tags there
    tag = (lambda t: "None") if static else (lambda t: f"(Some {t})")
    subs = []
    if not static:
        subs.append(("Call 0%nat Nonview (BWrite (BEnd false))", "false", tag(1)))
    subs.append(("Call 0%nat View (BEnd true)", "true", tag(2)))
    if not static:
        subs.append(("Call 0%nat Nonview (BWrite (BEnd false))", "false", tag(3)))
    subs.append(("Call 0%nat Unprot (BEnd true)", "true", tag(4)))
    body = "BEnd true"
    for n, s, t in reversed(subs):
        body = f"BSub ({n}) true {s} {t} ({body})"
    adv = f"Call 9%nat Unprot ({body})"
    return f"Call 0%nat {'Nonview' if prot else 'Unprot'} (BSub ({adv}) false {st} None (BEnd true))"


def model_bits(transient):
    """{(prot, static): bits predicted by Lock.v} (static: only the outcome of the whole call is predicted)"""
    P = "transient_params" if transient else "storage_params"
    keys = [(p, False) for p in (True, False)]
    exprs = [f"observe_seq {P} false [{model_tree(p, s)}] (init_state {P})" for p, s in keys]
    outs = coqrun.eval_zlists("From Verif Require Import C09.Lock.\n", exprs, "c09ho")
    res = {}
    for k, v in zip(keys, outs):
        n = v[0]
        obs = v[1:1 + n]
        bits = 16
        for e in obs[5:]:
            tag, ok = e // 2, e % 2
            if ok:
                bits |= 1 << (tag - 1)
        res[k] = (obs[0], bits)
    return res


def compile_all(cfg):
    """returns dict with bytecodes / method ids; attacker and child are compiled by the legacy pipeline at -O gas"""
    from vlib import configs
    ref = configs.Config(False, "gas", cfg.evm)
    v = configs.compile_src(victim_source(), cfg, formats=("bytecode", "method_identifiers", "layout"))
    a = configs.compile_src(ATTACKER, ref, formats=("bytecode", "method_identifiers"))
    c = configs.compile_src(CHILD, ref, formats=("bytecode", "method_identifiers"))
    return v, a, c


class World:
    def __init__(self, cfg, v, a, c):
        self.ch = Chain(cfg.evm)
        enc = lambda x: bytes(12) + bytes.fromhex(x[2:])  # noqa
        self.enc = enc
        self.A = self.ch.deploy(bytes.fromhex(a["bytecode"][2:]))
        child_init = bytes.fromhex(c["bytecode"][2:])
        # ERC-5202 blueprint: initcode that returns (0xFE7100 ++ child initcode)
        payload = bytes([0xFE, 0x71, 0x00]) + child_init
        n = len(payload)
        pre = bytes([0x61]) + n.to_bytes(2, "big") + bytes([0x80, 0x60, 0x0C, 0x60, 0x00, 0x39, 0x60, 0x00, 0xF3])
        self.BP = self.ch.deploy(pre + payload)
        self.V = self.ch.deploy(bytes.fromhex(v["bytecode"][2:]) + enc(self.A) + enc(self.BP))
        if None in (self.A, self.BP, self.V):
            raise RuntimeError("deployment failed")
        self.vmi = {k: int(x, 16).to_bytes(4, "big") for k, x in v["method_identifiers"].items()}
        self.ami = {k: int(x, 16).to_bytes(4, "big") for k, x in a["method_identifiers"].items()}
        self.cmi = {k: int(x, 16).to_bytes(4, "big") for k, x in c["method_identifiers"].items()}
        r = self.ch.call(self.A, self.ami["set_victim(address)"] + enc(self.V))
        code = child_init
        data = self.vmi["set_init(bytes)"] + (32).to_bytes(32, "big") + len(code).to_bytes(32, "big") + code + bytes(-len(code) % 32)
        r2 = self.ch.call(self.V, data)
        if not (r.ok and r2.ok):
            raise RuntimeError("setup failed")
        self.ch.reset_transient()
        self.base = self.ch.snapshot()

    def word(self, addr, sel):
        r = self.ch.call(addr, sel)
        return int.from_bytes(r.out, "big") if r.ok and len(r.out) == 32 else None

    def run(self, fn, p):
        """one 'transaction': the hand-over call followed by the release probes (transient storage kept).
        returns dict(ok, bits, after=[poke ok, price ok, default ok])"""
        self.ch.revert(self.base)
        self.base = self.ch.snapshot()
        self.ch.reset_transient()
        kind = fn.split("_", 1)[1].rsplit("_", 1)[0] if fn[0] in "hu" else fn.split("_", 1)[1]
        rep = KINDS[kind][1]
        r = self.ch.call(self.V, self.vmi[f"{fn}(uint256)"] + p.to_bytes(32, "big"))
        bits = None
        if r.ok:
            if rep == "ret":
                bits = int.from_bytes(r.out, "big") if len(r.out) == 32 else None
            elif rep == "att":
                bits = self.word(self.A, self.ami["bits()"])
            elif rep == "child":
                last = self.word(self.V, self.vmi["last()"])
                if last:
                    bits = self.word("0x" + last.to_bytes(20, "big").hex(), self.cmi["bits()"])
        after = [self.ch.call(self.V, self.vmi["poke()"]).ok, self.ch.call(self.V, self.vmi["price()"]).ok,
                 self.ch.call(self.V, b"\xde\xad\xbe\xef").ok]
        self.ch.reset_transient()
        return {"ok": r.ok, "out": r.out.hex()[:80], "bits": bits, "after": after}


def describe(bits):
    if bits is None:
        return "no report"
    names = ["poke() [nonreentrant]", "price() [nonreentrant view]", "__default__ [nonreentrant]", "free() [unprotected]"]
    return ", ".join(f"{n}: {'succeeded' if bits >> i & 1 else 'reverted'}" for i, n in enumerate(names))


def check_config(cfg):
    """returns (n_evaluations, n_nontrivial, violations[list of (name, detail)], mismatches[list of detail],
    selfdestruct-exit violations[list of (name, detail)])"""
    v, a, c = compile_all(cfg)
    w = World(cfg, v, a, c)
    transient = "$.nonreentrant_key" in v["layout"].get("transient_storage_layout", {})
    viol, mism, sd = [], [], []
    n = nt = 0
    for k, (_body, rep, static, foreign) in KINDS.items():
        fns = [(f"h_{k}_{s}", True) for s in SHAPES] + [(f"u_{k}_{s}", False) for s in SHAPES] + [(f"f_{k}", True)]
        for fn, prot in fns:
            o = w.run(fn, 3)
            n += 1
            base = {"config": cfg.name, "lock": "transient" if transient else "storage", "handover": k, "function": fn,
                    "observed": o, "victim_source": victim_source(), "attacker_source": ATTACKER, "child_source": CHILD,
                    "how": "vlib.c09_handover.World(cfg, *compile_all(cfg)).run(function, 3): deploy attacker, blueprint of CHILD, "
                           "victim(attacker, blueprint); set_victim; set_init(child initcode); call function(3), then poke(), price(), "
                           "fallback in the same transaction"}
            if fn.startswith("f_"):
                # the enclosing call must revert (assert) and leave the lock free
                if o["ok"]:
                    mism.append(dict(base, problem="f_ function did not revert"))
                if not all(o["after"]):
                    viol.append((f"lock not released after a reverted call that handed control over through {k} ({cfg.name})",
                                 dict(base, problem="follow-up calls to protected functions revert")))
                continue
            if not o["ok"]:
                mism.append(dict(base, problem="hand-over function reverted"))
                continue
            if not all(o["after"]):
                viol.append((f"lock not released after {fn} ({k}) under {cfg.name}: follow-up poke/price/fallback = {o['after']}",
                             dict(base, problem="lock still held after the outermost call returned")))
            if not foreign:
                continue
            want = expected_bits(prot, static)
            nt += 1 if prot else 0
            if o["bits"] is None or not (o["bits"] & 16):
                mism.append(dict(base, problem="the foreign code did not report (probe did not run)"))
                continue
            got = o["bits"]
            if prot and (got & 7):
                viol.append((f"re-entry into a @nonreentrant function succeeded while the lock was held: hand-over through {k} "
                             f"({fn}) under {cfg.name}: {describe(got)}", dict(base, expected_bits=want, problem=describe(got))))
            elif got != want:
                mism.append(dict(base, expected_bits=want, problem="unexpected re-entry outcome: " + describe(got)))
    # exit of a protected function through SELFDESTRUCT, then a protected function in the SAME transaction
    w.ch.revert(w.base)
    w.base = w.ch.snapshot()
    w.ch.reset_transient()
    for seq, fn, shape in (("sd_then_poke()", "h_selfdestruct", "selfdestruct directly in the @nonreentrant function"),
                           ("sd_int_then_poke()", "h_selfdestruct_int", "selfdestruct in an internal helper (not itself @nonreentrant) "
                                                                        "called from the @nonreentrant function")):
        w.ch.revert(w.base)
        w.base = w.ch.snapshot()
        w.ch.reset_transient()
        r = w.ch.call(w.A, w.ami[seq])
        n += 1
        got = int.from_bytes(r.out, "big") if r.ok and len(r.out) == 32 else None
        if got != 3:
            d = {"config": cfg.name, "lock": "transient" if transient else "storage", "handover": "selfdestruct", "function": fn, "shape": shape,
                 "observed": {"ok": r.ok, "flags(ok_selfdestruct + 2*ok_poke)": got}, "victim_source": victim_source(), "attacker_source": ATTACKER,
                 "how": f"attacker.{seq}: calls victim.{fn}(3) and then victim.poke() in one transaction"}
            if got == 1:
                sd.append((f"lock not released when a protected function exits through selfdestruct ({cfg.name}; {shape}): the next call to a "
                           "protected function in the same transaction reverts", d))
            else:
                mism.append(dict(d, problem="selfdestruct sequence failed"))
    return n, nt, viol, mism, sd


def worker(cfg):
    import warnings
    warnings.filterwarnings("ignore")
    try:
        return check_config(cfg)
    except Exception as e:  # noqa
        import traceback
        return (0, 0, [], [{"config": cfg.name, "function": "-", "problem": f"hand-over family failed: {type(e).__name__}: {e}",
                            "observed": traceback.format_exc()[-1200:]}], [])


def part_handover(ctx, cfgs):
    """returns True iff a failing input was found"""
    from concurrent.futures import ProcessPoolExecutor
    # Lock.v prediction = the oracle used below (non-static hand-over; both lock kinds)
    model_bad = []
    for tr in (True, False):
        mb = model_bits(tr)
        for (prot, st), (ok, bits) in mb.items():
            if ok != 1 or bits != expected_bits(prot, st):
                model_bad.append({"lock": "transient" if tr else "storage", "protected_outer": prot, "model": [ok, bits],
                                  "expected_bits": expected_bits(prot, st), "tree": model_tree(prot, st)})
    with ProcessPoolExecutor(max_workers=3) as ex:
        res = list(ex.map(worker, cfgs, chunksize=1))
    n = sum(r[0] for r in res)
    nt = sum(r[1] for r in res)
    viol = [v for r in res for v in r[2]]
    mism = [m for r in res for m in r[3]]
    sd = [v for r in res for v in r[4]]
    ctx.corr["handover_family"] = {"evaluations": n, "protected_handovers_with_foreign_code": nt, "kinds": list(KINDS) + ["selfdestruct"],
                                   "shapes": SHAPES, "configs": len(cfgs), "violations": len(viol), "mismatches": len(mism),
                                   "selfdestruct_exit_keeps_lock": len(sd)}
    for name, d in viol[:3]:
        ctx.violation("failing-input", name, d, key=f"c09:handover:{d['handover']}:{d['lock']}")
    if sd:
        name, d = sd[0]
        d = dict(d, configurations=sorted({x[1]["config"] for x in sd}), shapes=sorted({x[1]["shape"] for x in sd}))
        ctx.violation("failing-input", "lock not released when a protected function exits through selfdestruct: the next call to a "
                      "protected function in the same transaction reverts (all configurations listed)", d,
                      key="c09:selfdestruct-exit-keeps-lock")
    if not viol:
        for d in model_bad[:2]:
            ctx.violation("correspondence-broken", "Lock.v prediction for the hand-over scenario differs from the family's oracle", d)
        for d in mism[:3]:
            ctx.violation("correspondence-broken", f"hand-over family: {d.get('problem')} ({d.get('function')}, {d.get('config')})", d)
    return bool(viol)


# ------------------------------------------------------------------ getters of public variables as re-entered entry points
# Under `#pragma nonreentrancy on` every external function -- including the synthesised getter of a public variable --
# is lock-protected, except getters of variables that cannot change (constant, immutable) and of `reentrant(public(..))`
# variables.  Without the pragma no getter is protected.  Family: storage class (storage / transient / immutable /
# constant) x shape (scalar, HashMap, nested HashMap, static array, DynArray, struct member) x reentrant marker; the
# protected function hg() WRITES every variable, then hands control to the attacker, which STATICCALLs every getter
# and reports a bit per getter (1 = the call succeeded).  ug() (@reentrant) is the control group (lock free).
# (name, declaration, getter signature, calldata words, protected under the pragma, needs transient storage)
GETTERS = [
    ("s_scalar", "public(uint256)", "s_scalar()", [], True, False),
    ("s_map", "public(HashMap[uint256, uint256])", "s_map(uint256)", [1], True, False),
    ("s_map2", "public(HashMap[uint256, HashMap[address, uint256]])", "s_map2(uint256,address)", [1, 2], True, False),
    ("s_arr", "public(uint256[3])", "s_arr(uint256)", [1], True, False),
    ("s_dyn", "public(DynArray[uint256, 4])", "s_dyn(uint256)", [0], True, False),
    ("s_str", "public(S)", "s_str()", [], True, False),
    ("s_re", "reentrant(public(uint256))", "s_re()", [], False, False),
    ("t_scalar", "public(transient(uint256))", "t_scalar()", [], True, True),
    ("t_map", "public(transient(HashMap[uint256, uint256]))", "t_map(uint256)", [1], True, True),
    ("t_map2", "public(transient(HashMap[uint256, HashMap[address, uint256]]))", "t_map2(uint256,address)", [1, 2], True, True),
    ("t_arr", "public(transient(uint256[3]))", "t_arr(uint256)", [1], True, True),
    ("t_str", "public(transient(S))", "t_str()", [], True, True),
    ("t_re", "reentrant(public(transient(uint256)))", "t_re()", [], False, True),
    ("IMM", "public(immutable(uint256))", "IMM()", [], False, False),
    ("CON", "public(constant(uint256)) = 7", "CON()", [], False, False),
]

G_ATTACKER = """
victim: public(address)
gcalls: public(DynArray[Bytes[100], 32])

@external
def set_victim(v: address):
    self.victim = v

@external
def add_call(data: Bytes[100]):
    self.gcalls.append(data)

@external
def gcb(p: uint256) -> uint256:
    b: uint256 = 0
    i: uint256 = 0
    for data: Bytes[100] in self.gcalls:
        ok: bool = False
        res: Bytes[64] = b""
        ok, res = raw_call(self.victim, data, max_outsize=64, is_static_call=True, revert_on_failure=False)
        if ok and len(res) >= 32:
            b |= 1 << i
        i += 1
    return b | (1 << 255)
"""


def getter_list(evm):
    from vlib.configs import EVMS
    transient = EVMS.index(evm) >= EVMS.index("cancun")
    return [g for g in GETTERS if transient or not g[5]]


def getter_victim_source(evm, pragma):
    gs = getter_list(evm)
    L = ["#pragma nonreentrancy on"] if pragma else []
    L += ["struct S:", "    a: uint256", "    b: uint256", "",
          "interface A:", "    def gcb(p: uint256) -> uint256: nonpayable", "", "att: address"]
    for name, decl, *_ in gs:
        if not pragma:
            decl = {"s_re": "public(uint256)", "t_re": "public(transient(uint256))"}.get(name, decl)
        L.append(f"{name}: {decl}")
    L += ["", "@deploy", "def __init__(a: address):", "    self.att = a", "    IMM = 9", ""]
    writes = {"s_scalar": "self.s_scalar = p", "s_map": "self.s_map[1] = p", "s_map2": "self.s_map2[1][convert(2, address)] = p",
              "s_arr": "self.s_arr[1] = p", "s_dyn": "self.s_dyn = [p, p]", "s_str": "self.s_str = S(a=p, b=p)", "s_re": "self.s_re = p",
              "t_scalar": "self.t_scalar = p", "t_map": "self.t_map[1] = p", "t_map2": "self.t_map2[1][convert(2, address)] = p",
              "t_arr": "self.t_arr[1] = p", "t_str": "self.t_str = S(a=p, b=p)", "t_re": "self.t_re = p"}
    body = ["    " + writes[g[0]] for g in gs if g[0] in writes] + ["    r: uint256 = extcall A(self.att).gcb(p)"]
    after = ["    " + writes[g[0]].replace("= p", "= r & 255").replace("[p, p]", "[r & 255]").replace("S(a=p, b=p)", "S(a=r & 255, b=1)")
             for g in gs if g[0] in writes]
    prot = [] if pragma else ["@nonreentrant"]
    unprot = ["@reentrant"] if pragma else []
    L += ["@external"] + prot + ["def hg(p: uint256) -> uint256:"] + body + after + ["    return r", ""]
    L += ["@external"] + unprot + ["def ug(p: uint256) -> uint256:"] + body + after + ["    return r", ""]
    L += ["@external"] + prot + ["def poke():", "    self.s_scalar += 1", ""]
    return "\n".join(L)


def check_getters(cfg, pragma):
    """returns (n_evaluations, violations[(name, detail)], mismatches[detail])"""
    from vlib import configs
    gs = getter_list(cfg.evm)
    src = getter_victim_source(cfg.evm, pragma)
    v = configs.compile_src(src, cfg, formats=("bytecode", "method_identifiers"))
    a = configs.compile_src(G_ATTACKER, configs.Config(False, "gas", cfg.evm), formats=("bytecode", "method_identifiers"))
    ch = Chain(cfg.evm)
    enc = lambda x: bytes(12) + bytes.fromhex(x[2:])  # noqa
    A = ch.deploy(bytes.fromhex(a["bytecode"][2:]))
    V = ch.deploy(bytes.fromhex(v["bytecode"][2:]) + enc(A))
    if A is None or V is None:
        raise RuntimeError("deployment failed")
    ami = {k: int(x, 16).to_bytes(4, "big") for k, x in a["method_identifiers"].items()}
    vmi = {k: int(x, 16).to_bytes(4, "big") for k, x in v["method_identifiers"].items()}
    ok = ch.call(A, ami["set_victim(address)"] + enc(V)).ok
    datas = []
    for name, _decl, sig, words, _prot, _tr in gs:
        data = vmi[sig] + b"".join(w.to_bytes(32, "big") for w in words)
        datas.append(data)
        ok = ok and ch.call(A, ami["add_call(bytes)"] + (32).to_bytes(32, "big") + len(data).to_bytes(32, "big") + data + bytes(-len(data) % 32)).ok
    if not ok:
        raise RuntimeError("setup failed")
    ch.reset_transient()
    viol, mism = [], []
    n = 0
    base = {"config": cfg.name, "pragma_style": pragma, "victim_source": src, "attacker_source": G_ATTACKER,
            "getters": [g[2] for g in gs],
            "how": "deploy G_ATTACKER, victim(attacker); attacker.set_victim(victim); attacker.add_call(calldata of every getter in "
                   "order); call victim.hg(5) / victim.ug(5): the return value has bit i set iff the STATICCALL of getter i from the "
                   "callback succeeded (bit 255 = the callback ran)"}
    for fn, held in (("hg", True), ("ug", False)):
        r = ch.call(V, vmi[f"{fn}(uint256)"] + (5).to_bytes(32, "big"))
        n += len(gs)
        if not r.ok or len(r.out) != 32 or not (int.from_bytes(r.out, "big") >> 255):
            mism.append(dict(base, function=fn, problem="the hand-over function failed / the callback did not run", observed=[r.ok, r.out.hex()[:80]]))
            continue
        bits = int.from_bytes(r.out, "big")
        for i, (name, decl, sig, _w, prot, _tr) in enumerate(gs):
            got = bool(bits >> i & 1)
            protected = prot and pragma           # without the pragma no getter is lock-protected
            want = not (held and protected)
            if got == want:
                continue
            d = dict(base, function=fn, getter=sig, declaration=f"{name}: {decl}", succeeded=got, lock_held=held)
            if got and not want:
                viol.append((f"re-entry into the lock-protected getter {sig} ({decl}) succeeded while the lock was held "
                             f"({'#pragma nonreentrancy on' if pragma else 'decorators'}, {cfg.name})", d))
            else:
                mism.append(dict(d, problem="a getter that is not lock-protected / lock free reverted"))
        # every getter works after the call (lock released), also inside the same transaction
        for (name, decl, sig, _w, _p, _t), data in zip(gs, datas):
            r2 = ch.call(V, data, static=True)
            n += 1
            if not r2.ok:
                viol.append((f"getter {sig} reverts after the outermost call returned (lock not released?) under {cfg.name}",
                             dict(base, function=fn, getter=sig, declaration=f"{name}: {decl}")))
        ch.reset_transient()
    return n, viol, mism


def getter_worker(job):
    import warnings
    warnings.filterwarnings("ignore")
    cfg, pragma = job
    try:
        return check_getters(cfg, pragma)
    except Exception as e:  # noqa
        import traceback
        return (0, [], [{"config": cfg.name, "pragma_style": pragma, "problem": f"getter family failed: {type(e).__name__}: {e}",
                         "trace": traceback.format_exc()[-1200:]}])


def part_getters(ctx, cfgs):
    """returns True iff a failing input was found"""
    from concurrent.futures import ProcessPoolExecutor
    jobs = [(c, p) for c in cfgs for p in (True, False)]
    with ProcessPoolExecutor(max_workers=3) as ex:
        res = list(ex.map(getter_worker, jobs, chunksize=1))
    viol = [v for r in res for v in r[1]]
    mism = [m for r in res for m in r[2]]
    ctx.corr["getter_family"] = {"evaluations": sum(r[0] for r in res), "getters": [g[2] for g in GETTERS], "jobs": len(jobs),
                                 "violations": len(viol), "mismatches": len(mism)}
    seen = set()
    for name, d in viol:
        key = f"c09:getter:{d['getter']}:{d['pragma_style']}"
        if key in seen or len(seen) >= 4:
            continue
        seen.add(key)
        ctx.violation("failing-input", name, d, key=key)
    if not viol:
        for d in mism[:3]:
            ctx.violation("correspondence-broken", f"getter family: {d.get('problem')} ({d.get('getter', '-')}, {d.get('config')})", d)
    return bool(viol)
