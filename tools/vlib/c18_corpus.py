"""C18 corpus: small single- and multi-module programs.  name -> dict(files={relpath: text}, target=relpath,
layout=optional storage-layout override (dict)).  Features aimed at process-state leakage: many internal
functions (label / variable counters), loops, events, structs, modules with `uses`/`initializes`/`exports`,
interfaces (.vyi and JSON ABI), diamond imports."""
import json

LIB_MATH = """
@internal
@pure
def clamp(x: uint256, lo: uint256, hi: uint256) -> uint256:
    if x < lo:
        return lo
    if x > hi:
        return hi
    return x

@internal
@pure
def sum_to(n: uint256) -> uint256:
    s: uint256 = 0
    for i: uint256 in range(n, bound=64):
        s += i
    return s
"""

LIB_BASE = """
# base module: shared by two others (diamond)
counter: uint256

@internal
def bump() -> uint256:
    self.counter += 1
    return self.counter
"""

LIB_LEFT = """
import base
uses: base

total: uint256

@internal
def add(x: uint256) -> uint256:
    self.total += x + base.bump()
    return self.total
"""

LIB_RIGHT = """
import base
uses: base

last: address

@internal
def touch() -> uint256:
    self.last = msg.sender
    return base.bump()
"""

IFACE_VYI = """
@external
@view
def balanceOf(owner: address) -> uint256:
    ...

@external
def transfer(to: address, amount: uint256) -> bool:
    ...
"""

IFACE_JSON = json.dumps([
    {"type": "function", "name": "ping", "stateMutability": "view", "inputs": [{"name": "x", "type": "uint256"}],
     "outputs": [{"name": "", "type": "uint256"}]},
    {"type": "function", "name": "poke", "stateMutability": "nonpayable", "inputs": [], "outputs": []},
])

OWNABLE = """
owner: public(address)

event OwnershipTransferred:
    previous: indexed(address)
    new: indexed(address)

@deploy
def __init__():
    self.owner = msg.sender

@internal
def _check():
    assert msg.sender == self.owner, "not owner"

@external
def transfer_ownership(new: address):
    self._check()
    log OwnershipTransferred(previous=self.owner, new=new)
    self.owner = new
"""

CORPUS = {
    "counter": {"target": "counter.vy", "files": {"counter.vy": """
x: public(uint256)
@external
def inc(by: uint256 = 1) -> uint256:
    self.x += by
    return self.x
"""}},
    "token": {"target": "token.vy", "files": {"token.vy": """
event Transfer:
    sender: indexed(address)
    receiver: indexed(address)
    amount: uint256

balanceOf: public(HashMap[address, uint256])
allowance: public(HashMap[address, HashMap[address, uint256]])
totalSupply: public(uint256)
name: public(String[32])

@deploy
def __init__(supply: uint256):
    self.name = "Tok"
    self.totalSupply = supply
    self.balanceOf[msg.sender] = supply

@external
def transfer(to: address, amount: uint256) -> bool:
    self.balanceOf[msg.sender] -= amount
    self.balanceOf[to] += amount
    log Transfer(sender=msg.sender, receiver=to, amount=amount)
    return True

@external
def approve(spender: address, amount: uint256) -> bool:
    self.allowance[msg.sender][spender] = amount
    return True

@external
def transferFrom(owner: address, to: address, amount: uint256) -> bool:
    self.allowance[owner][msg.sender] -= amount
    self.balanceOf[owner] -= amount
    self.balanceOf[to] += amount
    log Transfer(sender=owner, receiver=to, amount=amount)
    return True
"""}},
    "many_internal": {"target": "many.vy", "files": {"many.vy": "\n".join(
        [f"""
@internal
def h{i}(a: uint256, b: DynArray[uint256, 4]) -> uint256:
    s: uint256 = a
    for x: uint256 in b:
        s += x * {i + 1}
    return s
""" for i in range(8)] + ["""
@external
def run(a: uint256, b: DynArray[uint256, 4]) -> uint256:
    t: uint256 = 0
""" + "".join(f"    t += self.h{i}(a, b)\n" for i in range(8)) + "    return t\n"])}},
    "structs": {"target": "structs.vy", "files": {"structs.vy": """
struct Pt:
    x: int128
    y: int128

struct Box:
    a: Pt
    b: Pt
    tags: DynArray[bytes4, 3]

flag Role:
    ADMIN
    USER
    GUEST

boxes: public(HashMap[uint256, Box])
roles: public(HashMap[address, Role])

@external
def put(i: uint256, b: Box):
    self.boxes[i] = b

@external
@view
def area(i: uint256) -> int128:
    b: Box = self.boxes[i]
    return (b.b.x - b.a.x) * (b.b.y - b.a.y)

@external
def grant(who: address, r: Role):
    self.roles[who] |= r
"""}},
    "strings": {"target": "strs.vy", "files": {"strs.vy": """
greeting: public(String[64])
blob: public(Bytes[100])

@external
def set(s: String[32]):
    self.greeting = concat("hello, ", s)

@external
@view
def digest(b: Bytes[100]) -> bytes32:
    return keccak256(concat(b, self.blob))

@external
@pure
def cut(b: Bytes[100], start: uint256) -> Bytes[10]:
    return slice(b, start, 10)
"""}},
    "lib_pure": {"target": "main.vy", "files": {"lib_math.vy": LIB_MATH, "main.vy": """
import lib_math

@external
@pure
def f(x: uint256) -> uint256:
    return lib_math.clamp(lib_math.sum_to(x), 3, 1000)
"""}},
    "diamond": {"target": "top.vy", "files": {"base.vy": LIB_BASE, "left.vy": LIB_LEFT, "right.vy": LIB_RIGHT, "top.vy": """
import base
import left
import right

initializes: base
initializes: left[base := base]
initializes: right[base := base]

@external
def go(x: uint256) -> uint256:
    return left.add(x) + right.touch()
"""}},
    "exports": {"target": "own.vy", "files": {"ownable.vy": OWNABLE, "own.vy": """
import ownable
initializes: ownable
exports: (ownable.owner, ownable.transfer_ownership)

value: public(uint256)

@deploy
def __init__():
    ownable.__init__()

@external
def set(v: uint256):
    ownable._check()
    self.value = v
"""}},
    "iface_vyi": {"target": "user.vy", "files": {"itoken.vyi": IFACE_VYI, "user.vy": """
import itoken

tok: itoken

@deploy
def __init__(t: address):
    self.tok = itoken(t)

@external
def pay(to: address, amt: uint256) -> bool:
    assert staticcall self.tok.balanceOf(self) >= amt
    return extcall self.tok.transfer(to, amt)
"""}},
    "iface_json": {"target": "pinger.vy", "files": {"ipong.json": IFACE_JSON, "lib_math.vy": LIB_MATH, "pinger.vy": """
import ipong
import lib_math

@external
def both(t: address, x: uint256) -> uint256:
    extcall ipong(t).poke()
    return lib_math.clamp(staticcall ipong(t).ping(x), 0, 10)
"""}},
    "subdir": {"target": "app/main.vy", "files": {"app/util/lib_math.vy": LIB_MATH, "app/main.vy": """
from .util import lib_math

@external
@pure
def g(x: uint256) -> uint256:
    return lib_math.sum_to(x)
"""}},
    # two search paths shadowing the same module name: `import utils` resolves by search-path precedence,
    # `from . import utils` inside libs/zvendor resolves relatively (bundles must keep the precedence order)
    "shadowed_paths": {"target": "main.vy", "paths": ["libs/zvendor", "libs/avendor"], "files": {
        "libs/zvendor/utils.vy": "@internal\n@pure\ndef tag() -> uint256:\n    return 111\n",
        "libs/avendor/utils.vy": "@internal\n@pure\ndef tag() -> uint256:\n    return 222\n",
        "libs/zvendor/helper.vy": "from . import utils\n\n@internal\n@pure\ndef h() -> uint256:\n    return utils.tag()\n",
        "main.vy": "import utils\nimport helper\n\n@external\ndef f() -> uint256:\n    return utils.tag() * 1000 + helper.h()\n"}},
    # byte-identical wrapper modules in two packages whose RELATIVE import resolves to different files
    "twin_packages": {"target": "main.vy", "files": {
        "main.vy": "import pa.mod as ma\nimport pb.mod as mb\n\n@external\ndef fa() -> uint256:\n    return ma.get()\n\n"
                   "@external\ndef fb() -> uint256:\n    return mb.get()\n",
        "pa/mod.vy": "from . import helper\n\n@internal\ndef get() -> uint256:\n    return helper.value() + 1\n",
        "pb/mod.vy": "from . import helper\n\n@internal\ndef get() -> uint256:\n    return helper.value() + 1\n",
        "pa/helper.vy": "@internal\ndef value() -> uint256:\n    return 10\n",
        "pb/helper.vy": "@internal\ndef value() -> uint256:\n    return 20\n"}},
    # re-entrancy lock: its location (transient vs storage slot 0) depends on the EVM target
    "locked": {"target": "locked.vy", "files": {"locked.vy": """
# pragma nonreentrancy on
total: public(uint256)
owner: public(address)

@external
def add(x: uint256) -> uint256:
    self.total += x
    return self.total

@external
@view
def peek() -> uint256:
    return self.total
"""}},
    "with_layout": {"target": "lay.vy", "files": {"lay.vy": """
a: public(uint256)
b: public(HashMap[address, uint256])
c: public(uint128[3])

@external
def w(x: uint256):
    self.a = x
    self.b[msg.sender] = x
    self.c[1] = convert(x % 1000, uint128)
"""}, "layout": {"a": {"type": "uint256", "slot": 7, "n_slots": 1}, "b": {"type": "HashMap[address, uint256]", "slot": 9, "n_slots": 1},
                 "c": {"type": "uint128[3]", "slot": 20, "n_slots": 3}}},
}


# builtin (stdlib) modules are cached per process together with their analysed function types: per-compilation state left
# on them (function ids: /repo fix 0c0ec6e) shows when a program using `math` is compiled after ANOTHER program using it,
# so two programs: one calls it from the constructor (there the id is not the one it gets in a runtime-only program)
CORPUS["stdlib_ctor"] = {"target": "sq.vy", "files": {"sq.vy": """
import math
r: public(uint256)

@deploy
def __init__():
    self.r = math.isqrt(1764)
"""}}
CORPUS["stdlib_runtime"] = {"target": "sr.vy", "files": {"sr.vy": """
import math

@internal
def foo(x: uint256) -> uint256:
    return x + 1

@external
def a(x: uint256) -> uint256:
    return math.isqrt(self.foo(x))

@external
def b(x: uint256) -> uint256:
    return self.foo(math.isqrt(x) + 1)
"""}}


# --------------------------------------------------------------------------- control-flow heavy programs (hash-seed sweep)
# Anything in a backend that iterates a python set/dict of *strings* (variable names, labels) shows only on programs
# with several simultaneously live values at control-flow joins, so the sweep uses programs with many loop-carried /
# branch-merged locals, written both by hand and by a seeded generator.
CF_FIXED = {
    "cf_loop5": """
@external
def f(n: uint256, k: uint256) -> uint256:
    a: uint256 = 1
    b: uint256 = 2
    c: uint256 = 3
    d: uint256 = 5
    e: uint256 = 7
    for i: uint256 in range(n, bound=64):
        if i % 3 == k:
            a = unsafe_add(a, unsafe_mul(b, i))
            b = b ^ c
            c = unsafe_add(c, d)
            d = unsafe_add(unsafe_mul(d, 3), e)
            e = unsafe_add(e, a)
        else:
            e = unsafe_add(unsafe_mul(e, 2), 1)
            d = unsafe_add(d, c)
            c = c ^ a
            b = unsafe_add(b, 1)
            a = unsafe_mul(a, 5)
    return a ^ (b << 1) ^ (c << 2) ^ (d << 3) ^ (e << 4)
""",
    "cf_branch_tuple": """
total: public(uint256)

@internal
def _mix(x: uint256, y: uint256, flag: bool) -> (uint256, uint256, uint256):
    p: uint256 = x
    q: uint256 = y
    r: uint256 = x ^ y
    if flag:
        p = unsafe_add(q, r)
        q = unsafe_mul(r, 3)
        r = unsafe_add(p, 1)
    else:
        r = unsafe_mul(p, q)
        q = unsafe_add(p, 7)
        p = unsafe_sub(r, q)
    return p, q, r

@external
def g(x: uint256, y: uint256, flag: bool) -> uint256:
    p: uint256 = 0
    q: uint256 = 0
    r: uint256 = 0
    p, q, r = self._mix(x, y, flag)
    self.total = unsafe_add(self.total, p)
    return p ^ (q << 1) ^ (r << 2)
""",
    "cf_nested_dyn": """
acc: DynArray[uint256, 16]
hits: HashMap[address, uint256]

@external
def h(xs: DynArray[uint256, 8], t: uint256) -> (uint256, uint256, bool):
    lo: uint256 = max_value(uint256)
    hi: uint256 = 0
    s: uint256 = 0
    found: bool = False
    cnt: uint256 = 0
    for x: uint256 in xs:
        if x < lo:
            lo = x
        if x > hi:
            hi = x
        for j: uint256 in range(4):
            if (x >> j) & 1 == 1:
                s = unsafe_add(s, j)
                cnt = unsafe_add(cnt, 1)
            elif x == t:
                found = True
                break
            else:
                s = s ^ x
        if found and cnt > 3:
            continue
        if len(self.acc) < 16:
            self.acc.append(unsafe_add(lo, hi))
    self.hits[msg.sender] = cnt
    return unsafe_add(lo, hi), s, found
""",
    "cf_strings": """
names: HashMap[uint256, String[32]]

@external
def pick(a: String[32], b: String[32], c: Bytes[32], n: uint256) -> (String[32], Bytes[32], uint256):
    s: String[32] = a
    t: String[32] = b
    u: Bytes[32] = c
    k: uint256 = 0
    for i: uint256 in range(n, bound=8):
        if i % 2 == 0:
            s = t
            t = a
            k = unsafe_add(k, len(s))
        else:
            t = s
            u = slice(c, 0, len(c) // 2)
            k = k ^ len(u)
    self.names[k] = s
    return t, u, k
""",
}

_CF_OPS = ["unsafe_add({a}, {b})", "unsafe_mul({a}, {b})", "unsafe_sub({a}, {b})", "{a} ^ {b}", "{a} & {b}", "{a} | {b}",
           "{a} >> ({b} % 256)", "unsafe_add({a}, {k})", "{a} ^ {k}"]


def gen_cf_program(rnd):
    """a seeded external function with 3..7 uint256 locals which are assigned in random subsets and orders inside nested
    bounded loops and if/elif/else chains (no reverting operation, everything stays live until the final return)."""
    n = rnd.randint(3, 7)
    vs = [f"v{i}" for i in range(n)]
    lines = []
    state = {"loops": 0, "stmts": 0}

    def expr():
        return rnd.choice(_CF_OPS).format(a=rnd.choice(vs + ["x", "y"]), b=rnd.choice(vs + ["x", "y"]), k=rnd.randint(1, 99))

    def cond(idx):
        a = rnd.choice(vs + idx + ["x"])
        return rnd.choice([f"{a} % {rnd.randint(2, 5)} == {rnd.randint(0, 1)}", f"{a} < {rnd.choice(vs + ['y'])}",
                           f"{a} & {1 << rnd.randint(0, 7)} != 0"])

    def assigns(ind, idx):
        sub = rnd.sample(vs, rnd.randint(2, n))      # >= 2 variables assigned in the same block, random order
        for v in sub:
            lines.append(f"{ind}{v} = {expr()}")
            state["stmts"] += 1
        if idx and rnd.random() < 0.3:
            lines.append(f"{ind}{rnd.choice(vs)} = unsafe_add({rnd.choice(vs)}, {rnd.choice(idx)})")

    def block(ind, depth, idx, in_loop):
        for _ in range(rnd.randint(1, 2)):
            r = rnd.random()
            if depth < 3 and r < 0.35 and state["loops"] < 3:
                state["loops"] += 1
                i = f"i{state['loops']}"
                rng = rnd.choice([f"range({rnd.randint(2, 6)})", f"range(x, bound={rnd.randint(2, 8)})"])
                lines.append(f"{ind}for {i}: uint256 in {rng}:")
                block(ind + "    ", depth + 1, idx + [i], True)
            elif depth < 3 and r < 0.8:
                lines.append(f"{ind}if {cond(idx)}:")
                block(ind + "    ", depth + 1, idx, in_loop)
                if rnd.random() < 0.4:
                    lines.append(f"{ind}elif {cond(idx)}:")
                    assigns(ind + "    ", idx)
                    if in_loop and rnd.random() < 0.3:
                        lines.append(f"{ind}    {rnd.choice(['continue', 'break'])}")
                if rnd.random() < 0.8:
                    lines.append(f"{ind}else:")
                    assigns(ind + "    ", idx)
            else:
                assigns(ind, idx)
        if state["stmts"] == 0:
            assigns(ind, idx)

    block("    ", 0, [], False)
    if state["loops"] == 0:
        lines.append("    for i9: uint256 in range(x, bound=5):")
        lines.append(f"        if {cond(['i9'])}:")
        assigns("            ", ["i9"])
        lines.append("        else:")
        assigns("            ", ["i9"])
    head = ["s: public(uint256)", "", "@external", "def f(x: uint256, y: uint256) -> uint256:"]
    head += [f"    {v}: uint256 = {rnd.randint(1, 50)}" for v in vs]
    tail = ["    self.s = " + " ^ ".join(vs[: max(2, n // 2)]), "    return " + " ^ ".join(f"({v} << {i})" for i, v in enumerate(vs))]
    return "\n".join(head + lines + tail) + "\n"
