"""C18 corpus: small single- and multi-module programs.  name -> dict(files={relpath: text}, target=relpath,
layout=optional storage-layout override (dict)).  Features aimed at process-state leakage: many internal
functions (label / variable counters), loops, events, structs, modules with `uses`/`initializes`/`exports`,
interfaces (.vyi and JSON ABI), diamond imports."""
import json

LIB_MATH = """
@internal
@pure
def clamp(x: uint256, lo: uint256, hi: uint256) -> uint256:
    if x < lo:
        return lo
    if x > hi:
        return hi
    return x

@internal
@pure
def sum_to(n: uint256) -> uint256:
    s: uint256 = 0
    for i: uint256 in range(n, bound=64):
        s += i
    return s
"""

LIB_BASE = """
# base module: shared by two others (diamond)
counter: uint256

@internal
def bump() -> uint256:
    self.counter += 1
    return self.counter
"""

LIB_LEFT = """
import base
uses: base

total: uint256

@internal
def add(x: uint256) -> uint256:
    self.total += x + base.bump()
    return self.total
"""

LIB_RIGHT = """
import base
uses: base

last: address

@internal
def touch() -> uint256:
    self.last = msg.sender
    return base.bump()
"""

IFACE_VYI = """
@external
@view
def balanceOf(owner: address) -> uint256:
    ...

@external
def transfer(to: address, amount: uint256) -> bool:
    ...
"""

IFACE_JSON = json.dumps([
    {"type": "function", "name": "ping", "stateMutability": "view", "inputs": [{"name": "x", "type": "uint256"}],
     "outputs": [{"name": "", "type": "uint256"}]},
    {"type": "function", "name": "poke", "stateMutability": "nonpayable", "inputs": [], "outputs": []},
])

OWNABLE = """
owner: public(address)

event OwnershipTransferred:
    previous: indexed(address)
    new: indexed(address)

@deploy
def __init__():
    self.owner = msg.sender

@internal
def _check():
    assert msg.sender == self.owner, "not owner"

@external
def transfer_ownership(new: address):
    self._check()
    log OwnershipTransferred(previous=self.owner, new=new)
    self.owner = new
"""

CORPUS = {
    "counter": {"target": "counter.vy", "files": {"counter.vy": """
x: public(uint256)
@external
def inc(by: uint256 = 1) -> uint256:
    self.x += by
    return self.x
"""}},
    "token": {"target": "token.vy", "files": {"token.vy": """
event Transfer:
    sender: indexed(address)
    receiver: indexed(address)
    amount: uint256

balanceOf: public(HashMap[address, uint256])
allowance: public(HashMap[address, HashMap[address, uint256]])
totalSupply: public(uint256)
name: public(String[32])

@deploy
def __init__(supply: uint256):
    self.name = "Tok"
    self.totalSupply = supply
    self.balanceOf[msg.sender] = supply

@external
def transfer(to: address, amount: uint256) -> bool:
    self.balanceOf[msg.sender] -= amount
    self.balanceOf[to] += amount
    log Transfer(sender=msg.sender, receiver=to, amount=amount)
    return True

@external
def approve(spender: address, amount: uint256) -> bool:
    self.allowance[msg.sender][spender] = amount
    return True

@external
def transferFrom(owner: address, to: address, amount: uint256) -> bool:
    self.allowance[owner][msg.sender] -= amount
    self.balanceOf[owner] -= amount
    self.balanceOf[to] += amount
    log Transfer(sender=owner, receiver=to, amount=amount)
    return True
"""}},
    "many_internal": {"target": "many.vy", "files": {"many.vy": "\n".join(
        [f"""
@internal
def h{i}(a: uint256, b: DynArray[uint256, 4]) -> uint256:
    s: uint256 = a
    for x: uint256 in b:
        s += x * {i + 1}
    return s
""" for i in range(8)] + ["""
@external
def run(a: uint256, b: DynArray[uint256, 4]) -> uint256:
    t: uint256 = 0
""" + "".join(f"    t += self.h{i}(a, b)\n" for i in range(8)) + "    return t\n"])}},
    "structs": {"target": "structs.vy", "files": {"structs.vy": """
struct Pt:
    x: int128
    y: int128

struct Box:
    a: Pt
    b: Pt
    tags: DynArray[bytes4, 3]

flag Role:
    ADMIN
    USER
    GUEST

boxes: public(HashMap[uint256, Box])
roles: public(HashMap[address, Role])

@external
def put(i: uint256, b: Box):
    self.boxes[i] = b

@external
@view
def area(i: uint256) -> int128:
    b: Box = self.boxes[i]
    return (b.b.x - b.a.x) * (b.b.y - b.a.y)

@external
def grant(who: address, r: Role):
    self.roles[who] |= r
"""}},
    "strings": {"target": "strs.vy", "files": {"strs.vy": """
greeting: public(String[64])
blob: public(Bytes[100])

@external
def set(s: String[32]):
    self.greeting = concat("hello, ", s)

@external
@view
def digest(b: Bytes[100]) -> bytes32:
    return keccak256(concat(b, self.blob))

@external
@pure
def cut(b: Bytes[100], start: uint256) -> Bytes[10]:
    return slice(b, start, 10)
"""}},
    "lib_pure": {"target": "main.vy", "files": {"lib_math.vy": LIB_MATH, "main.vy": """
import lib_math

@external
@pure
def f(x: uint256) -> uint256:
    return lib_math.clamp(lib_math.sum_to(x), 3, 1000)
"""}},
    "diamond": {"target": "top.vy", "files": {"base.vy": LIB_BASE, "left.vy": LIB_LEFT, "right.vy": LIB_RIGHT, "top.vy": """
import base
import left
import right

initializes: base
initializes: left[base := base]
initializes: right[base := base]

@external
def go(x: uint256) -> uint256:
    return left.add(x) + right.touch()
"""}},
    "exports": {"target": "own.vy", "files": {"ownable.vy": OWNABLE, "own.vy": """
import ownable
initializes: ownable
exports: (ownable.owner, ownable.transfer_ownership)

value: public(uint256)

@deploy
def __init__():
    ownable.__init__()

@external
def set(v: uint256):
    ownable._check()
    self.value = v
"""}},
    "iface_vyi": {"target": "user.vy", "files": {"itoken.vyi": IFACE_VYI, "user.vy": """
import itoken

tok: itoken

@deploy
def __init__(t: address):
    self.tok = itoken(t)

@external
def pay(to: address, amt: uint256) -> bool:
    assert staticcall self.tok.balanceOf(self) >= amt
    return extcall self.tok.transfer(to, amt)
"""}},
    "iface_json": {"target": "pinger.vy", "files": {"ipong.json": IFACE_JSON, "lib_math.vy": LIB_MATH, "pinger.vy": """
import ipong
import lib_math

@external
def both(t: address, x: uint256) -> uint256:
    extcall ipong(t).poke()
    return lib_math.clamp(staticcall ipong(t).ping(x), 0, 10)
"""}},
    "subdir": {"target": "app/main.vy", "files": {"app/util/lib_math.vy": LIB_MATH, "app/main.vy": """
from .util import lib_math

@external
@pure
def g(x: uint256) -> uint256:
    return lib_math.sum_to(x)
"""}},
    # two search paths shadowing the same module name: `import utils` resolves by search-path precedence,
    # `from . import utils` inside libs/zvendor resolves relatively (bundles must keep the precedence order)
    "shadowed_paths": {"target": "main.vy", "paths": ["libs/zvendor", "libs/avendor"], "files": {
        "libs/zvendor/utils.vy": "@internal\n@pure\ndef tag() -> uint256:\n    return 111\n",
        "libs/avendor/utils.vy": "@internal\n@pure\ndef tag() -> uint256:\n    return 222\n",
        "libs/zvendor/helper.vy": "from . import utils\n\n@internal\n@pure\ndef h() -> uint256:\n    return utils.tag()\n",
        "main.vy": "import utils\nimport helper\n\n@external\ndef f() -> uint256:\n    return utils.tag() * 1000 + helper.h()\n"}},
    # re-entrancy lock: its location (transient vs storage slot 0) depends on the EVM target
    "locked": {"target": "locked.vy", "files": {"locked.vy": """
# pragma nonreentrancy on
total: public(uint256)
owner: public(address)

@external
def add(x: uint256) -> uint256:
    self.total += x
    return self.total

@external
@view
def peek() -> uint256:
    return self.total
"""}},
    "with_layout": {"target": "lay.vy", "files": {"lay.vy": """
a: public(uint256)
b: public(HashMap[address, uint256])
c: public(uint128[3])

@external
def w(x: uint256):
    self.a = x
    self.b[msg.sender] = x
    self.c[1] = convert(x % 1000, uint128)
"""}, "layout": {"a": {"type": "uint256", "slot": 7, "n_slots": 1}, "b": {"type": "HashMap[address, uint256]", "slot": 9, "n_slots": 1},
                 "c": {"type": "uint128[3]", "slot": 20, "n_slots": 3}}},
}
