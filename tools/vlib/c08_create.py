"""C08: state written before a contract creation must be visible to the code the creation runs.

The created contract's constructor re-enters its creator (staticcall getters, optionally a state-changing call) and records
what it saw; the creator's test function returns those observations.  Source order dictates every expected value: a store
(plain, aug-assign, in a loop, to a scalar / array element / map element / struct field, storage or transient) that precedes
the create is observed, a store that follows it is not, and a read after a create whose constructor changed the variable sees
the change.  VyCore has no create_*; the oracle here is this source-order rule, evaluated by `expected()` below from the same
parameters the source text is printed from (values vary with the seed).  Runs under every base configuration in every tier
and for every seed (not sampled)."""
from eth_abi import decode, encode

from vlib.configs import compile_src
from vlib.evm import Chain, DEPLOYER

PRE_CANCUN = ("london", "paris", "shanghai")


def child_src(tra):
    return f"""
interface Factory:
    def phase() -> uint256: view
    def tphase() -> uint256: view
    def elem() -> uint256: view
    def mval() -> uint256: view
    def fld() -> uint256: view
    def bump(): nonpayable

seen: public(uint256)
tseen: public(uint256)
eseen: public(uint256)
mseen: public(uint256)
fseen: public(uint256)

@deploy
def __init__(factory: address, poke: bool):
    self.seen = staticcall Factory(factory).phase()
    {"self.tseen = staticcall Factory(factory).tphase()" if tra else "self.tseen = 0"}
    self.eseen = staticcall Factory(factory).elem()
    self.mseen = staticcall Factory(factory).mval()
    self.fseen = staticcall Factory(factory).fld()
    if poke:
        extcall Factory(factory).bump()
"""


def factory_src(v, tra):
    """v: dict of seeded values"""
    t_decl = "tphase: public(transient(uint256))" if tra else "tphase: public(uint256)"
    return f"""
interface Child:
    def seen() -> uint256: view
    def tseen() -> uint256: view
    def eseen() -> uint256: view
    def mseen() -> uint256: view
    def fseen() -> uint256: view

struct P:
    a: uint256
    b: uint256

event Tag:
    n: uint256

phase: public(uint256)
{t_decl}
counter: public(uint256)
arr: uint256[3]
mp: HashMap[uint256, uint256]
pv: P

@external
@view
def elem() -> uint256:
    return self.arr[1]

@external
@view
def mval() -> uint256:
    return self.mp[2]

@external
@view
def fld() -> uint256:
    return self.pv.b

@external
def bump():
    log Tag(n=100)
    self.counter += 1

# store ; create (constructor reads the slot back) ; store to the same slot
@external
def store_create_store(blueprint: address) -> (uint256, uint256):
    self.phase = {v['a1']}
    self.tphase = {v['t1']}
    log Tag(n=1)
    c: address = create_from_blueprint(blueprint, self, False)
    log Tag(n=2)
    self.phase = {v['a2']}
    self.tphase = {v['t2']}
    return staticcall Child(c).seen(), staticcall Child(c).tseen()

# same for an array element, a map element and a struct field
@external
def store_create_store_places(blueprint: address) -> (uint256, uint256, uint256):
    self.arr[1] = {v['e1']}
    self.mp[2] = {v['m1']}
    self.pv.b = {v['f1']}
    c: address = create_from_blueprint(blueprint, self, False)
    self.arr[1] = {v['e2']}
    self.mp[2] = {v['m2']}
    self.pv.b = {v['f2']}
    return staticcall Child(c).eseen(), staticcall Child(c).mseen(), staticcall Child(c).fseen()

# aug-assignment before and after
@external
def aug_create_aug(blueprint: address) -> (uint256, uint256):
    self.phase = {v['a1']}
    self.phase += {v['d1']}
    c: address = create_from_blueprint(blueprint, self, False)
    self.phase += {v['d2']}
    return staticcall Child(c).seen(), self.phase

# a store in every iteration, observed by the contract created in that iteration
@external
def loop_store_create(blueprint: address) -> uint256[3]:
    out: uint256[3] = [0, 0, 0]
    for i: uint256 in range(3):
        self.phase = i + {v['a1']}
        c: address = create_from_blueprint(blueprint, self, False)
        out[i] = staticcall Child(c).seen()
    self.phase = {v['a2']}
    return out

# read ; create (constructor bumps the counter) ; read again
@external
def read_create_read(blueprint: address) -> (uint256, uint256):
    before: uint256 = self.counter
    c: address = create_from_blueprint(blueprint, self, True)
    after: uint256 = self.counter
    return before, after

# the value passed on is computed from a read that precedes the create
@external
def read_then_create_then_use(blueprint: address) -> uint256:
    self.counter = {v['a1']}
    x: uint256 = self.counter * 3
    c: address = create_from_blueprint(blueprint, self, True)
    return x + self.counter
"""


def tests(v, tra):
    """(signature, output types, expected by source order, description); executed in this order on one deployment"""
    return [
        ("store_create_store(address)", ["uint256", "uint256"], (v["a1"], v["t1"] if tra else 0),
         "constructor of the created contract observes the stores that precede the create"),
        ("phase()", ["uint256"], (v["a2"],), "final value = the store after the create"),
        ("store_create_store_places(address)", ["uint256"] * 3, (v["e1"], v["m1"], v["f1"]),
         "array element / map element / struct field stored before the create are observed by the constructor"),
        ("elem()", ["uint256"], (v["e2"],), "final array element = the store after the create"),
        ("aug_create_aug(address)", ["uint256", "uint256"], (v["a1"] + v["d1"], v["a1"] + v["d1"] + v["d2"]),
         "aug-assignment before the create is observed, the one after it is applied on top"),
        ("loop_store_create(address)", ["uint256[3]"], ((v["a1"], v["a1"] + 1, v["a1"] + 2),),
         "each iteration's store is observed by the contract created in that iteration"),
        ("read_create_read(address)", ["uint256", "uint256"], (0, 1),
         "a read after a create whose constructor changed the variable sees the change; the read before does not"),
        ("read_then_create_then_use(address)", ["uint256"], (3 * v["a1"] + v["a1"] + 1,),
         "value computed before the create is kept; the read after it sees the constructor's change"),
    ]


def run_one(cfg, v):
    """-> list of failures dict(test, expected, observed, description) under cfg"""
    tra = cfg.evm not in PRE_CANCUN
    bp = compile_src(child_src(tra), cfg, formats=("blueprint_bytecode",))["blueprint_bytecode"]
    fac_src = factory_src(v, tra)
    out = compile_src(fac_src, cfg, formats=("bytecode",))
    ch = Chain(cfg.evm)
    blueprint = ch.deploy(bytes.fromhex(bp[2:]))
    factory = ch.deploy(bytes.fromhex(out["bytecode"][2:]))
    if blueprint is None or factory is None:
        raise RuntimeError("deployment failed")
    from vyper.utils import method_id
    fails = []
    for sig, outs, exp, descr in tests(v, tra):
        data = method_id(sig) + (encode(["address"], [blueprint]) if "address" in sig else b"")
        r = ch.call(factory, data)
        try:
            ch.reset_transient()
        except Exception:
            pass
        got = tuple(decode(outs, r.out)) if r.ok else ("REVERT", r.out.hex())
        if got != tuple(exp):
            fails.append({"test": sig, "calldata": data.hex(), "expected": list(map(str, exp)), "observed": list(map(str, got)),
                          "description": descr})
    return fails, fac_src, child_src(tra)


def seeded_values(rng):
    v = {k: rng.randrange(1, 1000) for k in ("a1", "t1", "e1", "m1", "f1", "d1", "d2")}
    for k in ("a", "t", "e", "m", "f"):
        v[k + "2"] = v[k + "1"] + rng.randrange(1, 50)       # the store after the create writes a different value
    return v


_JOB = None


def _one(j):
    cfgs, v = _JOB
    cfg = cfgs[j]
    try:
        fails, fsrc, csrc = run_one(cfg, v)
        return j, "ok", fails, fsrc, csrc
    except Exception as e:
        return j, "exc", f"{type(e).__name__}: {str(e).strip().splitlines()[0][:160] if str(e).strip() else ''}", None, None


def run_family(ctx, cfgs):
    """every configuration, every tier, every seed.  Returns (#comparisons, compile rejections)"""
    import multiprocessing as mp
    global _JOB
    v = seeded_values(ctx.rng("create-family"))
    _JOB = (cfgs, v)
    with mp.get_context("fork").Pool(4) as pool:
        res = pool.map(_one, range(len(cfgs)))
    n, rejected, seen = 0, {}, set()
    for j, st, fails, fsrc, csrc in res:
        cfg = cfgs[j]
        if st == "exc":
            rejected.setdefault(fails, []).append(cfg.name)      # crashes under a configuration are C02's subject
            continue
        n += len(tests(v, True))
        if not fails:
            continue
        key = f"C08:{'venom' if cfg.venom else 'legacy'}:create-reentrant-observes-state"
        if key in seen:
            continue
        seen.add(key)
        ctx.violation("failing-input",
                      f"state written before a contract creation is not what the created contract's constructor observes ({fails[0]['test']}) under {cfg.name}",
                      {"config": cfg.name, "source": fsrc, "blueprint_source": csrc, "failures": fails,
                       "also_failing_under": [cfgs[k].name for k, s2, f2, _, _ in res if s2 == "ok" and f2 and k != j],
                       "deploy": "child compiled with output format blueprint_bytecode and deployed; factory deployed; every test is called "
                                 "with the blueprint address as argument, in the listed order, on one deployment",
                       "rule": "side effects happen exactly once and in source order (C08): a store that precedes create_from_blueprint is visible "
                               "to the constructor it runs, a store that follows is not; a read after the create sees the constructor's changes"},
                      key=key)
    return n, rejected
