"""Delta-debugging of a (program, calls) disagreement: fewer calls, fewer statements, simpler expressions/arguments."""
import copy
import time

from vlib import c01_harness as H
from vlib.c01_ast import E, S, zero_val, e_children


def _bodies(prog):
    for f in prog.ints + prog.exts + ([prog.ctor] if getattr(prog, "ctor", None) is not None else []):
        yield f, f.body


def _stmt_sites(block, acc, protect_last):
    """(block_list, index) for every removable statement"""
    for i, s in enumerate(block):
        if not (protect_last and i == len(block) - 1 and s.k == "return"):
            acc.append((block, i))
        for b in (s.f.get("th"), s.f.get("el"), s.f.get("body")):
            if b is not None:
                _stmt_sites(b, acc, False)


def candidates_stmt(prog):
    """programs with one statement removed / one compound statement replaced by its body"""
    n_sites = []
    for f, body in _bodies(prog):
        _stmt_sites(body, n_sites, f.ret is not None)
    for k in range(len(n_sites)):
        p2 = copy.deepcopy(prog)
        sites = []
        for f, body in _bodies(p2):
            _stmt_sites(body, sites, f.ret is not None)
        blk, i = sites[k]
        s = blk[i]
        if s.k == "credit":
            continue          # not a source statement: the model's image of the EVM crediting msg.value on entry
        del blk[i]
        yield p2
        if s.k == "if":
            for br in ("th", "el"):
                p3 = copy.deepcopy(prog)
                sites3 = []
                for f, body in _bodies(p3):
                    _stmt_sites(body, sites3, f.ret is not None)
                blk3, i3 = sites3[k]
                s3 = blk3[i3]
                inner = s3.f[br]
                if inner and not any(x.k in ("break", "continue", "return", "raise", "raisemsg") for x in inner[:-1]):
                    blk3[i3:i3 + 1] = inner
                    yield p3


def _expr_slots(prog):
    """(container, key) places holding an expression"""
    out = []

    def ve(holder, key, e):
        out.append((holder, key))
        for n, v in e.f.items():
            if isinstance(v, E):
                ve(e.f, n, v)
            elif isinstance(v, list):
                for j, x in enumerate(v):
                    if isinstance(x, E):
                        ve(v, j, x)

    def vs(s):
        for n, v in s.f.items():
            if isinstance(v, E):
                ve(s.f, n, v)
            elif isinstance(v, list) and n == "args":
                for j, x in enumerate(v):
                    if isinstance(x, E):
                        ve(v, j, x)
        for b in (s.f.get("th"), s.f.get("el"), s.f.get("body")):
            if b is not None:
                for x in b:
                    vs(x)
    for f, body in _bodies(prog):
        for s in body:
            vs(s)
    return out


def candidates_expr(prog):
    n = len(_expr_slots(prog))
    for k in range(n):
        base = _expr_slots(prog)[k]
        e = base[0][base[1]]
        if e.k == "const" or e.ty is None:
            continue
        repls = []
        for c in e_children(e):
            if c.ty == e.ty:
                repls.append("child")
                break
        if e.ty[0] in ("int", "bool", "addr", "flag", "dec", "bytesm"):
            repls.append("zero")
            if e.ty[0] == "int":
                repls.append("one")
        for r in repls:
            p2 = copy.deepcopy(prog)
            holder, key = _expr_slots(p2)[k]
            e2 = holder[key]
            if r == "child":
                new = [c for c in e_children(e2) if c.ty == e2.ty][0]
            elif r == "zero":
                new = E("const", e2.ty, v=zero_val(e2.ty))
            else:
                new = E("const", e2.ty, v=1)
            holder[key] = new
            yield p2


def _all_exprs(prog):
    out = []

    def ve(e):
        out.append(e)
        for c in e_children(e):
            ve(c)

    def vs(s):
        for n, v in s.f.items():
            if isinstance(v, E):
                ve(v)
            elif isinstance(v, list):
                for x in v:
                    if isinstance(x, E):
                        ve(x)
                    elif isinstance(x, tuple) and len(x) > 1 and isinstance(x[1], E):
                        ve(x[1])
        for b in (s.f.get("th"), s.f.get("el"), s.f.get("body")):
            if b is not None:
                for x in b:
                    vs(x)
    for f, body in _bodies(prog):
        for s in body:
            vs(s)
    return out


def candidates_fun(prog, calls):
    """(program, calls) with one uncalled external function or one unreferenced internal function removed"""
    used = {c.fidx for c in calls if not getattr(c, "deploy", False)}
    for k in range(len(prog.exts) - 1, -1, -1):
        if k not in used and len(prog.exts) > 1:
            p2 = copy.deepcopy(prog)
            del p2.exts[k]
            cs2 = copy.deepcopy(calls)
            for c in cs2:
                if c.fidx > k and not getattr(c, "deploy", False):
                    c.fidx -= 1
            yield p2, cs2
    referenced = {e.id for e in _all_exprs(prog) if e.k == "call"}
    for k in range(len(prog.ints) - 1, -1, -1):
        if k not in referenced:
            p2 = copy.deepcopy(prog)
            del p2.ints[k]
            for e in _all_exprs(p2):
                if e.k == "call" and e.id > k:
                    e.f["id"] = e.id - 1
            yield p2, calls


def _drop_unused(prog, calls):
    used = sorted({c.fidx for c in calls if not getattr(c, "deploy", False)})
    if len(used) == len(prog.exts) or not used:
        return None, None
    p2 = copy.deepcopy(prog)
    p2.exts = [p2.exts[k] for k in used]
    remap = {k: i for i, k in enumerate(used)}
    cs2 = copy.deepcopy(calls)
    for c in cs2:
        if not getattr(c, "deploy", False):
            c.fidx = remap[c.fidx]
    # internal functions: keep those reachable from what is left (indices are renumbered, order kept)
    keep = sorted(p2.reachable_ints())
    imap = {k: i for i, k in enumerate(keep)}
    p2.ints = [p2.ints[k] for k in keep]
    for e in _all_exprs(p2):
        if e.k == "call":
            e.f["id"] = imap[e.id]
    return p2, cs2


def shrink(prog, calls, cfg, what, budget_s=60, log=None):
    """returns (prog, calls, diff) minimised while `compare` still reports a difference of kind `what` under cfg"""
    t0 = time.time()

    def still(p, cs):
        try:
            m = H.model_eval([(p, cs)], "shrink", procs=1)[0]
        except Exception:
            return None
        try:
            src = p.vy()
            obs = H.observe(p, cfg, cs, src, model_final=m[1])
        except Exception:
            return None
        d = H.compare(p, cs, m, obs)
        if d is not None and d.get("what") == what:
            return d
        return None

    best = still(prog, calls)
    if best is None:
        return prog, calls, None
    # 1. calls: cut after the failing call, then drop earlier ones
    first = 1 if (calls and getattr(calls[0], "deploy", False)) else 0     # the constructor call stays
    if "call" in best:
        cs = calls[:best["call"] + 1]
        d = still(prog, cs)
        if d:
            calls, best = cs, d
    if len(calls) > first + 1:            # in one step: the failing call alone (probe programs have hundreds of calls)
        cs = calls[:first] + [calls[-1]]
        d = still(prog, cs)
        if d:
            calls, best = cs, d
    # drop calls in chunks of decreasing size (a final-storage difference has no failing call to cut at)
    last_fixed = 1 if "call" in best else 0          # the failing call itself stays
    chunk = max(1, (len(calls) - first - last_fixed) // 2)
    while chunk >= 1 and time.time() - t0 < budget_s * 0.6:
        i = first
        while i < len(calls) - last_fixed and time.time() - t0 < budget_s * 0.6:
            hi_ = min(i + chunk, len(calls) - last_fixed)
            cs = calls[:i] + calls[hi_:]
            d = still(prog, cs) if hi_ > i and len(cs) > first else None
            if d:
                calls, best = cs, d
            else:
                i += chunk
        chunk //= 2
    # in one step: every uncalled external function and every then unreferenced internal function
    p2, cs2 = _drop_unused(prog, calls)
    if p2 is not None:
        d = still(p2, cs2)
        if d:
            prog, calls, best = p2, cs2, d
    # 2. statements, 3. expressions, unused functions (to fixpoint)
    progress = True
    while progress and time.time() - t0 < budget_s:
        progress = False
        for p2, cs2 in candidates_fun(prog, calls):
            if time.time() - t0 > budget_s:
                break
            d = still(p2, cs2)
            if d:
                prog, calls, best, progress = p2, cs2, d, True
                break
        if progress:
            continue
        for gen in (candidates_stmt, candidates_expr):
            for p2 in gen(prog):
                if time.time() - t0 > budget_s:
                    break
                d = still(p2, calls)
                if d:
                    prog, best, progress = p2, d, True
                    break
            if progress:
                break
    # 4. arguments
    for ci, c in enumerate(calls):
        for ai, a in enumerate(c.args):
            if getattr(c, "given", None) is not None and ai >= c.given:
                continue      # an omitted argument: its value is the function's default
            if isinstance(a, int) and a not in (0, 1) and time.time() - t0 < budget_s + 10:
                for nv in (0, 1):
                    cs = copy.deepcopy(calls)
                    cs[ci].args[ai] = nv
                    d = still(prog, cs)
                    if d:
                        calls, best = cs, d
                        break
    return prog, calls, best


def shrink_pred(prog, pred, budget_s=40):
    """generic: smaller program (fewer statements, simpler expressions) on which pred(prog) still holds"""
    t0 = time.time()
    progress = True
    while progress and time.time() - t0 < budget_s:
        progress = False
        for gen in (candidates_stmt, candidates_expr):
            for p2 in gen(prog):
                if time.time() - t0 > budget_s:
                    break
                try:
                    ok = pred(p2)
                except Exception:
                    ok = False
                if ok:
                    prog, progress = p2, True
                    break
            if progress:
                break
    return prog
