"""C12 extension correspondence (pyrevm): storage context of raw_call's call kinds, raw_create, create_* result shapes
(raw_args / revert_on_failure=False with salt), precompile targets -- against coq/C12/EvmFrag.v."""
import hashlib

from vlib import c12_builtins as B
from vlib import c12_lib as L
from vlib import configs, coqrun
from vlib.c12_bcorr import enc_bytes_arg, zb
from vlib.evm import DEPLOYER, Chain

IMPORTS = "From Verif Require Import C12.ExtCall C12.Builtins C12.CallTpl C12.EvmFrag.\n"
SLOT = 77
C0, T0 = 11, 22          # initial contents of SLOT in the caller / in the target

RAWS = []                # (name, kind, M, R)
SRC = """
t: public(address)

@external
def set_t(a: address):
    self.t = a
"""
for _k, _kw in (("KCall", ""), ("KStatic", ", is_static_call=True"), ("KDelegate", ", is_delegate_call=True")):
    for _M in (160, 40):
        for _R in (True, False):
            _n = f"x_{_k[1:].lower()}_{_M}_{int(_R)}"
            _ret = f"Bytes[{_M}]" if _R else f"(bool, Bytes[{_M}])"
            SRC += (f"\n@external\n@payable\ndef {_n}(d: Bytes[96]) -> {_ret}:\n"
                    f"    return raw_call(self.t, d, max_outsize={_M}{_kw}{'' if _R else ', revert_on_failure=False'})\n")
            RAWS.append((_n, _k, _M, _R))
SRC += """
@external
def rc_1(d: Bytes[256]) -> address:
    return raw_create(d)

@external
def rc_0(d: Bytes[256]) -> address:
    return raw_create(d, revert_on_failure=False)

@external
def rcs_1(d: Bytes[256], s: bytes32) -> address:
    return raw_create(d, salt=s)

@external
def rcs_0(d: Bytes[256], s: bytes32) -> address:
    return raw_create(d, salt=s, revert_on_failure=False)

@external
@payable
def rcv_1(d: Bytes[256]) -> address:
    return raw_create(d, value=msg.value)

@external
def rca_1(d: Bytes[256], x: uint256) -> address:
    return raw_create(d, x)

@external
def rca_0(d: Bytes[256], x: uint256) -> address:
    return raw_create(d, x, revert_on_failure=False)

@external
def rcas_1(d: Bytes[256], x: uint256, s: bytes32) -> address:
    return raw_create(d, x, salt=s)

@external
def cbr_1(d: Bytes[64]) -> address:
    return create_from_blueprint(self.t, d, raw_args=True)

@external
def cbr_0(d: Bytes[64]) -> address:
    return create_from_blueprint(self.t, d, raw_args=True, revert_on_failure=False)

@external
def cbrs_0(d: Bytes[64], s: bytes32) -> address:
    return create_from_blueprint(self.t, d, raw_args=True, salt=s, revert_on_failure=False)

@external
def ccs_0(s: bytes32) -> address:
    return create_copy_of(self.t, salt=s, revert_on_failure=False)

@external
def pc_id(d: Bytes[64]) -> Bytes[64]:
    return raw_call(0x0000000000000000000000000000000000000004, d, max_outsize=64)

@external
def pc_id_s5(d: Bytes[64]) -> Bytes[5]:
    return raw_call(0x0000000000000000000000000000000000000004, d, max_outsize=5, is_static_call=True)

@external
def pc_sha(d: Bytes[64]) -> Bytes[32]:
    return raw_call(0x0000000000000000000000000000000000000002, d, max_outsize=32)

@external
def pc_sha_0(d: Bytes[64]) -> (bool, Bytes[40]):
    return raw_call(0x0000000000000000000000000000000000000002, d, max_outsize=40, revert_on_failure=False)

@external
def pc_ecr(d: Bytes[64]) -> Bytes[32]:
    return raw_call(0x0000000000000000000000000000000000000001, d, max_outsize=32, is_static_call=True)
"""


def writer_runtime():
    """calldata = mode byte ++ slot word ++ value word.  Answer = word(old SLOAD(slot)) ++ word(ADDRESS) ++ word(CALLER) ++
    word(CALLVALUE).  mode < 4: SSTORE(slot, value) first.  mode & 3: 0/3 return, 1 revert with the answer, 2 INVALID."""
    return B._asm([
        0x60, 0x01, 0x35,                         # slot
        0x80, 0x54, 0x60, 0x00, 0x52,             # mem[0] = sload(slot)
        0x30, 0x60, 0x20, 0x52, 0x33, 0x60, 0x40, 0x52, 0x34, 0x60, 0x60, 0x52,
        0x60, 0x00, 0x35, 0x60, 0xF8, 0x1C,       # mode
        0x60, 0x04, 0x81, 0x10, 0x15, ("P", "skip"), 0x57,
        0x60, 0x21, 0x35, 0x82, 0x55,             # sstore(slot, value)
        ("L", "skip"),
        0x80, 0x60, 0x03, 0x16,
        0x80, 0x60, 0x01, 0x14, ("P", "rev"), 0x57,
        0x80, 0x60, 0x02, 0x14, ("P", "inv"), 0x57,
        0x60, 0x80, 0x60, 0x00, 0xF3,
        ("L", "rev"), 0x60, 0x80, 0x60, 0x00, 0xFD,
        ("L", "inv"), 0xFE,
    ])


def compile_ext(cfg):
    try:
        out = configs.compile_src(SRC, cfg, formats=("bytecode", "method_identifiers"))
        return {"ok": True, "bytecode": out["bytecode"], "mi": out["method_identifiers"]}
    except Exception as e:
        return {"ok": False, "error": f"{type(e).__name__}: {e}"[:2000]}


def _w(x):
    return x.to_bytes(32, "big")


def _aw(a):
    return int(a, 16)


def run_config(cfg, bd, rnd):
    """-> list of (case name, function, detail dict, model expr, observed list, python-oracle failures)"""
    ch = Chain(cfg.evm)
    wr = ch.set_code(None, writer_runtime())
    bp = ch.set_code(None, B.ERC5202 + B.blueprint_initcode())
    echo = ch.set_code(None, B.echo_runtime())
    caller = ch.deploy(bytes.fromhex(bd["bytecode"][2:]))
    if caller is None:
        return None
    ch.evm.set_balance(caller, 10**18)
    ins = ch.evm.insert_account_storage
    ins(caller, SLOT, C0)
    ins(wr, SLOT, T0)
    mi = {k.split("(")[0]: int(v, 16).to_bytes(4, "big") for k, v in bd["mi"].items()}
    out = []

    def call(fn, args, value=0, target=None):
        if target is not None:
            assert ch.call(caller, mi["set_t"] + bytes(12) + bytes.fromhex(target[2:])).ok
        return ch.call(caller, mi[fn] + args, value=value)

    # ---- storage contexts
    world = (f"(mkWorld (fun a => if a =? {_aw(wr)} then Some writer else None) (fun _ => 1) "
             f"(fun a s => if (a =? {_aw(caller)}) && (s =? {SLOT}) then {C0} else if (a =? {_aw(wr)}) && (s =? {SLOT}) then {T0} else 0))")
    probe = f"(fun w => [w_store w {_aw(caller)} {SLOT}; w_store w {_aw(wr)} {SLOT}])"
    for name, k, M, R in RAWS:
        for mode in (0, 1, 2, 4, 5):
            for value in ((0, 9) if k == "KDelegate" and mode == 0 else (0,)):
                newv = rnd.randrange(1, 2**256)
                data = bytes([mode]) + _w(SLOT) + _w(newv)
                sid = ch.snapshot()
                try:
                    r = call(name, enc_bytes_arg(data), value=value, target=wr)
                    cs, ts = ch.storage(caller, SLOT), ch.storage(wr, SLOT)
                finally:
                    ch.revert(sid)
                if r.ok:
                    o = r.out
                    if R:
                        ln = int.from_bytes(o[32:64], "big")
                        obs = [1, 1, ln] + list(o[64:64 + ln]) + [cs, ts]
                    else:
                        ln = int.from_bytes(o[64:96], "big")
                        obs = [1, int.from_bytes(o[:32], "big"), ln] + list(o[96:96 + ln]) + [cs, ts]
                else:
                    obs = [0] + list(r.out)
                expr = (f"obs_to_list (raw_call_w {k} {M} {'true' if R else 'false'} (mkCtx {_aw(caller)} {_aw(DEPLOYER)} {value} false) "
                        f"{_aw(wr)} 0 {zb(data)} {world}) {probe}")
                # python oracle, from the documentation alone
                bad = []
                writes = mode < 4
                fails = (mode & 3) in (1, 2) or (k == "KStatic" and writes)
                if fails and R and r.ok:
                    bad.append("the callee failed but raw_call(revert_on_failure=True) did not revert")
                if not fails and not r.ok:
                    bad.append("the callee succeeded but the caller reverted")
                if r.ok:
                    want_c = newv if (k == "KDelegate" and writes and not fails) else C0
                    want_t = newv if (k == "KCall" and writes and not fails) else T0
                    if cs != want_c:
                        bad.append(f"caller's storage slot {SLOT} is {cs}, expected {want_c}")
                    if ts != want_t:
                        bad.append(f"target's storage slot {SLOT} is {ts}, expected {want_t}")
                    if obs[1] != (0 if fails else 1):
                        bad.append("wrong success flag")
                    if obs[2] > M:
                        bad.append("response longer than max_outsize")
                out.append((f"{name}:mode{mode}:v{value}", name,
                            {"target": "writer", "calldata_to_target_hex": data.hex(), "value": value, "max_outsize": M,
                             "revert_on_failure": R, "kind": k}, expr, obs, bad))
    # ---- raw_create
    init = B.blueprint_initcode()
    salt = bytes(rnd.randrange(256) for _ in range(32))

    def creator(addr):
        return ("(fun _ _ ic _ => let x := word_of ic (List.length ic - 32) in if x =? 1 then CreateFail [222; 173; 190; 239] "
                f"else if x =? 2 then CreateFail [] else CreateOk {addr})")

    def rc_case(cname, fn, R, x, args_mode, use_salt=False, value=0, prep=False):
        enc = _w(x)
        if args_mode:      # constructor argument appended by the builtin
            args = _w(64 if not use_salt else 96) + enc + (salt if use_salt else b"")
            args = (_w(96) + enc + salt if use_salt else _w(64) + enc) + _w(len(init)) + init + bytes(-len(init) % 32)
            bytecode, encoded = init, enc
        else:
            d = init + enc
            args = (_w(64) + salt if use_salt else _w(32)) + _w(len(d)) + d + bytes(-len(d) % 32)
            bytecode, encoded = d, b""
        sid = ch.snapshot()
        try:
            extra = []
            if prep:
                p = call(fn, args)
                if not p.ok:
                    extra.append("the first raw_create with a fresh salt reverted")
            r = call(fn, args, value=value)
            addr = "0x" + r.out[12:].hex() if r.ok and len(r.out) == 32 else None
            if addr and int(addr, 16) != 0:
                code = ch.code(addr)
                if code.rstrip(b"\0") != enc.rstrip(b"\0"):
                    extra.append(f"deployed code {code.hex()[:80]} is not what the constructor returns for argument {x}")
                if use_salt:
                    want = B.create2_address(caller, salt, init + enc)
                    if addr != want:
                        extra.append(f"CREATE2 address {addr} != keccak(0xff, sender, salt, keccak(bytecode ++ abi(args))) = {want}")
                if value and ch.evm.get_balance(addr) != value:
                    extra.append(f"created contract balance {ch.evm.get_balance(addr)}, expected {value}")
        finally:
            ch.revert(sid)
        obs = [1, int.from_bytes(r.out, "big"), 0] if r.ok else [0] + list(r.out)
        a = int(addr, 16) if addr and int(addr, 16) else 1
        cr = "(fun _ _ _ _ => CreateFail [])" if prep else creator(a)
        expr = (f"obs_to_list (raw_create_w {'true' if R else 'false'} {cr} (mkCtx {_aw(caller)} {_aw(DEPLOYER)} 0 false) {value} "
                f"{zb(bytecode)} {zb(encoded)} {'(Some 1)' if use_salt else 'None'} "
                "(mkWorld (fun _ => None) (fun _ => 0) (fun _ _ => 0))) (fun _ => [])")
        fails = prep or x in (1, 2)
        if fails and R and r.ok:
            extra.append("CREATE failed but raw_create(revert_on_failure=True) did not revert")
        if fails and not R and (not r.ok or int.from_bytes(r.out, "big") != 0):
            extra.append("CREATE failed but raw_create(revert_on_failure=False) did not return the zero address")
        if not fails and (not r.ok or int.from_bytes(r.out, "big") == 0):
            extra.append("CREATE succeeded but raw_create did not return the address")
        out.append((cname, fn, {"constructor_argument": x, "salt_hex": salt.hex() if use_salt else None, "value": value,
                                "args_hex": args.hex()[:400]}, expr, obs, extra))

    for x in (7, 1, 2):
        rc_case(f"rc_1:{x}", "rc_1", True, x, False)
        rc_case(f"rc_0:{x}", "rc_0", False, x, False)
        rc_case(f"rca_1:{x}", "rca_1", True, x, True)
        rc_case(f"rca_0:{x}", "rca_0", False, x, True)
    rc_case("rcs_1:fresh", "rcs_1", True, 7, False, use_salt=True)
    rc_case("rcs_0:fresh", "rcs_0", False, 7, False, use_salt=True)
    rc_case("rcs_1:collision", "rcs_1", True, 7, False, use_salt=True, prep=True)
    rc_case("rcs_0:collision", "rcs_0", False, 7, False, use_salt=True, prep=True)
    rc_case("rcas_1:fresh", "rcas_1", True, 7, True, use_salt=True)
    rc_case("rcv_1:value", "rcv_1", True, 7, False, value=9)
    # ---- create_* result shapes: raw_args, revert_on_failure=False with salt
    def cb_case(cname, fn, R, x, with_salt=False, prep=False, copy=False):
        if copy:
            args = salt
        else:
            args = (_w(64) + salt if with_salt else _w(32)) + _w(32) + _w(x)
        sid = ch.snapshot()
        try:
            extra = []
            if prep:
                call(fn, args, target=echo if copy else bp)
            r = call(fn, args, target=echo if copy else bp)
            addr = "0x" + r.out[12:].hex() if r.ok and len(r.out) == 32 else None
            if addr and int(addr, 16) != 0:
                code = ch.code(addr)
                want = B.echo_runtime() if copy else _w(x)
                if code.rstrip(b"\0") != want.rstrip(b"\0"):
                    extra.append(f"deployed code {code.hex()[:80]} != expected {want.hex()[:80]}")
                if with_salt or copy:
                    ic = B.copyof_initcode(B.echo_runtime()) if copy else B.blueprint_initcode() + _w(x)
                    want_a = B.create2_address(caller, salt, ic)
                    if addr != want_a:
                        extra.append(f"CREATE2 address {addr} != {want_a}")
        finally:
            ch.revert(sid)
        obs = [1, int.from_bytes(r.out, "big")] if r.ok else [0] + list(r.out)
        a = int(addr, 16) if addr and int(addr, 16) else 1
        cres = "(CreateFail [])" if (prep or x == 2) else ("(CreateFail [222; 173; 190; 239])" if x == 1 else f"(CreateOk {a})")
        b = "CopyOf" if copy else "(FromBlueprint 3)"
        cs = len(B.echo_runtime()) if copy else len(B.ERC5202 + B.blueprint_initcode())
        expr = f"res_to_list (create_builtin {b} {'true' if R else 'false'} {cs} {cres})"
        out.append((cname, fn, {"constructor_argument": x, "salt_hex": salt.hex(), "args_hex": args.hex()}, expr, obs, extra))

    for x in (7, 1, 2):
        cb_case(f"cbr_1:{x}", "cbr_1", True, x)
        cb_case(f"cbr_0:{x}", "cbr_0", False, x)
    cb_case("cbrs_0:fresh", "cbrs_0", False, 7, with_salt=True)
    cb_case("cbrs_0:collision", "cbrs_0", False, 7, with_salt=True, prep=True)
    cb_case("ccs_0:fresh", "ccs_0", False, 7, copy=True)
    cb_case("ccs_0:collision", "ccs_0", False, 7, copy=True, prep=True)
    # ---- precompile targets (accounts without code that do answer)
    for n in (0, 1, 33, 64):
        d = bytes(rnd.randrange(256) for _ in range(n))
        sha = hashlib.sha256(d).digest()
        for fn, k, M, R, resp in (("pc_id", "KCall", 64, True, d), ("pc_id_s5", "KStatic", 5, True, d),
                                  ("pc_sha", "KCall", 32, True, sha), ("pc_sha_0", "KCall", 40, False, sha),
                                  ("pc_ecr", "KStatic", 32, True, b"")):
            r = call(fn, enc_bytes_arg(d))
            if r.ok:
                o = r.out
                if R:
                    ln = int.from_bytes(o[32:64], "big")
                    obs = [1, 1, ln] + list(o[64:64 + ln])
                else:
                    ln = int.from_bytes(o[64:96], "big")
                    obs = [1, int.from_bytes(o[:32], "big"), ln] + list(o[96:96 + ln])
            else:
                obs = [0] + list(r.out)
            expr = f"res_to_list (raw_call_k {k} {M} {'true' if R else 'false'} 0 (fun _ _ => Success {zb(resp)}))"
            bad = []
            if not r.ok:
                bad.append("raw_call to a precompile reverted")
            elif bytes(obs[3:]) != resp[:M]:
                bad.append(f"response {bytes(obs[3:]).hex()} is not the first {M} bytes of the precompile's output {resp.hex()}")
            out.append((f"{fn}:{n}", fn, {"precompile_input_hex": d.hex(), "max_outsize": M}, expr, obs, bad))
    return out, caller


def eval_models(exprs, name):
    return coqrun.eval_zlists(IMPORTS, exprs, name, shard=60)
