"""Minimal EVM harness on pyrevm (and py-evm as a second opinion for opcodes)."""
from pyrevm import EVM, BlockEnv, Env

DEPLOYER = "0x" + "11" * 20
SENDER2 = "0x" + "22" * 20


class Result:
    __slots__ = ("ok", "out", "logs", "gas")

    def __init__(self, ok, out, logs=None, gas=0):
        self.ok, self.out, self.logs, self.gas = ok, out, logs or [], gas

    def __repr__(self):
        return f"Result(ok={self.ok}, out={self.out.hex()}, logs={len(self.logs)})"


class Chain:
    def __init__(self, evm_version="cancun", gas_limit=10**9):
        self.evm = EVM(gas_limit=gas_limit, spec_id=evm_version, env=Env(block=BlockEnv(number=1, timestamp=1000)))
        self.evm.set_balance(DEPLOYER, 10**30)
        self.evm.set_balance(SENDER2, 10**30)

    def deploy(self, initcode: bytes, value=0, sender=DEPLOYER):
        try:
            return self.evm.deploy(sender, initcode, value, None)
        except RuntimeError as e:
            return None

    def set_code(self, address, runtime: bytes):
        """Install runtime code directly by deploying a tiny initcode that returns it."""
        n = len(runtime)
        # PUSH2 n; DUP1; PUSH1 0x0c(offset); PUSH0-less: PUSH1 0; CODECOPY; PUSH1 0; RETURN
        init = bytes([0x61]) + n.to_bytes(2, "big") + bytes([0x80, 0x60, 0x0C, 0x60, 0x00, 0x39, 0x60, 0x00, 0xF3])
        assert len(init) == 12
        return self.deploy(init + runtime)

    def call(self, to, data=b"", value=0, sender=DEPLOYER, static=False):
        try:
            out = self.evm.message_call(caller=sender, to=to, calldata=data, value=value, is_static=static)
            r = self.evm.result
            return Result(True, bytes(out), list(r.logs), r.gas_used)
        except RuntimeError as e:
            msg = e.args[0] if e.args else ""
            import re
            m = re.match(r"Revert \{ gas_used: (\d+), output: 0x([0-9a-f]*) }", msg)
            if m:
                return Result(False, bytes.fromhex(m.group(2)))
            return Result(False, b"", logs=[("halt", msg)])

    def storage(self, addr, slot):
        return self.evm.storage(addr, slot)

    def snapshot(self):
        return self.evm.snapshot()

    def revert(self, sid):
        try:
            self.evm.revert(sid)
        except OverflowError:
            pass

    def reset_transient(self):
        self.evm.reset_transient_storage()

    def code(self, addr):
        return bytes(self.evm.get_code(addr) or b"")


def log_tuple(log):
    """Canonical (address, topics, data) for a pyrevm log."""
    try:
        topics = [bytes.fromhex(t[2:]) if isinstance(t, str) else bytes(t) for t in log.topics]
        data = log.data
        if isinstance(data, tuple):
            data = data[1]
        return (str(log.address).lower(), tuple(topics), bytes(data))
    except Exception:
        return ("?", (), repr(log).encode())
