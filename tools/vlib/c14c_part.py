"""C14 (memory copy passes): per-invocation verified validation of MemoryCopyElisionPass (and observation of the invoke
copy-forwarding passes) while the corpus compiles.

`Observer` wraps `run_pass` of the copy passes in this process (nothing in /repo is touched): the function before and
after each invocation is exported as Coq literals of coq/C14C/CopySem.v, together with a pointer certificate
(variable -> allocation, offset) that the Gallina checker `CopyCheck.check_func` RE-CHECKS against the defining
instructions.  By `copyfwd_check_sound` an accepted invocation preserves the behaviour of every execution."""
import hashlib

from vlib import coqrun

W = 2**256
PASSES = ("MemoryCopyElisionPass", "InternalReturnCopyForwardingPass", "ReadonlyInvokeArgCopyForwardingPass")
PRECISE = ("nop", "assign", "alloca", "add", "sub", "mload", "mstore", "mcopy", "calldatacopy", "codecopy", "returndatacopy", "dloadbytes")


class Snap:
    """structured copy of a function: blocks of (opcode, operands, outputs, wm, wrd, alloca id)"""

    def __init__(self, fn, names=None):
        from vyper.venom.basicblock import IRLabel, IRLiteral, IRVariable
        from vyper.venom.effects import Effects
        blocks = list(fn.get_basic_blocks())
        if blocks and blocks[0] is not fn.entry:
            blocks.remove(fn.entry)
            blocks.insert(0, fn.entry)
        names = names if names is not None else {"var": {}, "lab": {}, "alloca": {}, "foreign": {}}
        self.names = names
        for i, bb in enumerate(blocks):
            names["lab"].setdefault(bb.label.value, len(names["lab"]))
        self.blocks = []
        self.text = str(fn)
        self.fname = str(fn.name)
        for bb in blocks:
            blk = []
            for ins in bb.instructions:
                ops = []
                for o in ins.operands:
                    if isinstance(o, IRLiteral):
                        ops.append(("lit", o.value % W))
                    elif isinstance(o, IRVariable):
                        ops.append(("var", self.v(o)))
                    elif isinstance(o, IRLabel):
                        if o.value in names["lab"]:
                            ops.append(("lab", names["lab"][o.value]))
                        else:
                            ops.append(("lab", 1_000_000 + names["foreign"].setdefault(o.value, len(names["foreign"]))))
                    else:
                        raise ValueError(f"operand {o!r}")
                outs = [self.v(o) for o in ins.get_outputs()]
                we = ins.get_write_effects()
                aid = 0
                if ins.opcode == "alloca":
                    # identity of an allocation = its output variable (stable across the pass)
                    aid = names["alloca"].setdefault(outs[0] if outs else id(ins), len(names["alloca"]) + 1)
                blk.append((ins.opcode, ops, outs, Effects.MEMORY in we, Effects.RETURNDATA in we, aid))
            self.blocks.append(blk)

    def v(self, var):
        k = var.value if hasattr(var, "value") else str(var)
        return self.names["var"].setdefault(k, len(self.names["var"]))

    # ---- Coq literals
    @staticmethod
    def c_op(o):
        k, v = o
        if k == "lit":
            return f"OLit {coqrun.hexlit(v)}"
        return f"OVar {v}%N" if k == "var" else f"OLab {v}%N"

    def c_func(self):
        bl = []
        for blk in self.blocks:
            ins = "; ".join(f'mkI "{op}" [{"; ".join(self.c_op(o) for o in ops)}] [{"; ".join(f"{x}%N" for x in outs)}] '
                            f'{"true" if wm else "false"} {"true" if wrd else "false"} {aid}' for op, ops, outs, wm, wrd, aid in blk)
            bl.append(f"[{ins}]")
        return "[" + ";\n ".join(bl) + "]"


def certificates(snap):
    """pointer certificates by the checker's own rules (cert_of_def), to a fixpoint; only single-definition variables"""
    defs = {}
    for blk in snap.blocks:
        for ins in blk:
            for x in ins[2]:
                defs.setdefault(x, []).append(ins)
    C = {}

    def cert_op(o):
        if o[0] == "lit":
            return (None, o[1] % W)
        if o[0] == "var":
            return C.get(o[1])
        return None

    changed = True
    rounds = 0
    while changed and rounds < 50:
        changed = False
        rounds += 1
        for x, ds in defs.items():
            if len(ds) != 1 or len(ds[0][2]) != 1:
                continue
            op, ops, outs, wm, wrd, aid = ds[0]
            c = None
            if op == "alloca":
                c = (aid, 0)
            elif op == "assign" and len(ops) == 1:
                c = cert_op(ops[0])
            elif op in ("add", "sub") and len(ops) == 2:
                cb, ca = cert_op(ops[0]), cert_op(ops[1])
                if op == "add":
                    if ca and cb and ca[0] is None and cb[0] is None and ca[1] is not None and cb[1] is not None:
                        c = (None, (ca[1] + cb[1]) % W)
                    elif ca and cb and ca[0] is not None and cb[0] is None and ca[1] is not None and cb[1] is not None:
                        c = (ca[0], ca[1] + cb[1])
                    elif ca and cb and ca[0] is None and cb[0] is not None and ca[1] is not None and cb[1] is not None:
                        c = (cb[0], cb[1] + ca[1])
                    elif ca and cb and ca[0] is not None and cb[0] is not None:
                        c = None
                    elif ca and ca[0] is not None:
                        c = (ca[0], None)
                    elif cb and cb[0] is not None:
                        c = (cb[0], None)
                else:
                    if ca and cb and ca[0] is None and cb[0] is None and ca[1] is not None and cb[1] is not None:
                        c = (None, (ca[1] - cb[1]) % W)
                    elif ca and cb and ca[0] is not None and cb[0] is None and ca[1] is not None and cb[1] is not None:
                        c = (ca[0], ca[1] - cb[1])
            if c is not None and C.get(x) != c:
                C[x] = c
                changed = True
    return C


def c_certs(C):
    def oz(z):
        return "None" if z is None else f"(Some {coqrun.hexlit(z)})"
    return "[" + "; ".join(f"({x}%N, ({oz(r)}, {oz(k)}))" for x, (r, k) in sorted(C.items())) + "]"


class Observer:
    def __init__(self):
        self.records = []     # dict(pass, fn, before: Snap, after: Snap, changed)
        self.n_invocations = {}
        self._saved = {}

    def __enter__(self):
        import vyper.venom  # noqa: F401
        from vyper.venom.passes import internal_return_copy_forwarding as A, memory_copy_elision as M, readonly_invoke_arg_copy_forwarding as R
        classes = {"MemoryCopyElisionPass": M.MemoryCopyElisionPass, "InternalReturnCopyForwardingPass": A.InternalReturnCopyForwardingPass,
                   "ReadonlyInvokeArgCopyForwardingPass": R.ReadonlyInvokeArgCopyForwardingPass}
        for name, cls in classes.items():
            orig = cls.run_pass
            self._saved[cls] = orig
            cls.run_pass = self._wrap(orig, name)
        return self

    def __exit__(self, *a):
        for cls, orig in self._saved.items():
            cls.run_pass = orig

    def _wrap(self, orig, name):
        obs = self

        def run_pass(self_, *a, **k):
            fn = self_.function
            before = Snap(fn)
            r = orig(self_, *a, **k)
            after = Snap(fn, names=before.names)
            obs.n_invocations[name] = obs.n_invocations.get(name, 0) + 1
            if after.blocks != before.blocks:
                obs.records.append({"pass": name, "fn": before.fname, "before": before, "after": after})
            return r
        return run_pass


def key_of(rec):
    return hashlib.sha1((rec["pass"] + rec["before"].text + "\n=>\n" + rec["after"].text).encode()).hexdigest()[:16]


COQ_IMPORTS = "From Verif Require Import C14C.CopySem C14C.CopyCheck.\nOpen Scope string_scope.\n"


def evaluate(recs, name="c14c"):
    """run check_func on every record; returns list of (accepted, certs_ok, n_changed)"""
    if not recs:
        return []
    exprs = []
    for r in recs:
        C = certificates(r["before"])
        exprs.append(f"(let C := {c_certs(C)} in let f := {r['before'].c_func()} in let g := {r['after'].c_func()} in "
                     f"[if check_func C f g then 1 else 0; if certs_ok f C then 1 else 0; if check_blocks C f g then 1 else 0])")
    import math
    shard = max(1, math.ceil(len(exprs) / 3))
    outs = coqrun.eval_zlists(COQ_IMPORTS, exprs, name, shard=shard, timeout=300)
    return [tuple(o) for o in outs]
