"""C14 (memory copy passes): per-invocation verified validation of MemoryCopyElisionPass (and observation of the invoke
copy-forwarding passes) while the corpus compiles.

`Observer` wraps `run_pass` of the copy passes in this process (nothing in /repo is touched): the function before and
after each invocation is exported as Coq literals of coq/C14C/CopySem.v, together with a pointer certificate
(variable -> allocation, offset) that the Gallina checker `CopyCheck.check_func` RE-CHECKS against the defining
instructions.  By `copyfwd_check_sound` an accepted invocation preserves the behaviour of every execution."""
import hashlib

from vlib import coqrun

W = 2**256
PASSES = ("MemoryCopyElisionPass", "InternalReturnCopyForwardingPass", "ReadonlyInvokeArgCopyForwardingPass")
PRECISE = ("nop", "assign", "alloca", "add", "sub", "mload", "mstore", "mcopy", "calldatacopy", "codecopy", "returndatacopy", "dloadbytes")


# ---- programs aimed at the copy passes (memory structs / arrays / bytestrings passed to and returned from internal functions,
# callee-mutated parameters, caller-mutated return buffers, aliasing arguments, code / returndata sources); compiled at all
# three optimisation levels in both tiers (4 s), in addition to the shared pass corpus
COPY_CORPUS = []


def _add(name, src):
    COPY_CORPUS.append({"name": name, "src": src, "helper": None, "key": None, "prio": 0})


_add("cp_struct_args", '''
struct S:
    a: uint256
    b: uint256[3]
    c: Bytes[40]

@internal
@view
def _sum(s: S) -> uint256:
    return s.a + s.b[0] + s.b[1] + s.b[2] + len(s.c)

@internal
def _mut(s: S) -> uint256:
    s.a = s.a + 1
    s.b[1] = 7
    return s.a + s.b[1]

@external
def f(x: uint256, y: Bytes[40]) -> (uint256, uint256, uint256):
    s: S = S(a=x, b=[x, 2, 3], c=y)
    r1: uint256 = self._sum(s)
    r2: uint256 = self._mut(s)
    r3: uint256 = self._sum(s)
    return r1, r2, r3

@external
def g(x: uint256, y: Bytes[40]) -> (uint256, uint256):
    s: S = S(a=x, b=[1, x, 3], c=y)
    t: S = s
    t.b[0] = 50
    return self._sum(s), self._sum(t)
''')

_add("cp_clobber", '''
struct S:
    a: uint256
    b: uint256[3]
    c: uint256

@external
def f(x: uint256, i: uint256) -> (uint256[5], uint256[5]):
    a: uint256[5] = empty(uint256[5])
    a[0] = x
    a[4] = x + 4
    b: uint256[5] = a
    a[1] = 777
    c: uint256[5] = b
    b[2] = a[i]
    return c, a

@external
def g(x: uint256, i: uint256) -> (uint256[3], S, uint256):
    s: S = empty(S)
    s.a = x
    s.b[2] = x + 3
    t: S = s
    u: uint256[3] = t.b
    s.b[1] = 9
    v: uint256[3] = t.b
    w: S = t
    return v, w, u[i]

@external
def h(a: Bytes[64], i: uint256) -> (Bytes[64], Bytes[64], uint256):
    b: Bytes[64] = a
    c: Bytes[64] = b
    d: Bytes[64] = slice(c, i, 3)
    c = d
    e: Bytes[64] = b
    return c, e, len(d)
''')

_add("cp_returns", '''
@internal
def _mk(x: uint256) -> uint256[4]:
    return [x, x + 1, x + 2, x + 3]

@internal
def _id(a: uint256[4]) -> uint256[4]:
    return a

@internal
def _bump(a: uint256[4]) -> uint256[4]:
    a[0] += 1
    return a

@external
def f(x: uint256) -> (uint256[4], uint256[4]):
    a: uint256[4] = self._mk(x)
    b: uint256[4] = a
    a[2] = 99
    c: uint256[4] = self._mk(x + 10)
    c[0] = a[2]
    return b, c

@external
def g(x: uint256) -> (uint256[4], uint256[4], uint256[4]):
    a: uint256[4] = self._mk(x)
    b: uint256[4] = self._id(a)
    c: uint256[4] = self._bump(a)
    b[3] = 5
    return a, b, c

@external
def h(x: uint256) -> uint256:
    a: uint256[4] = self._bump(self._bump(self._mk(x)))
    return a[0] + a[1]
''')

_add("cp_bytes", '''
@internal
@view
def _len2(a: Bytes[96], b: Bytes[96]) -> uint256:
    return len(a) * 1000 + len(b)

@internal
def _tail(a: Bytes[96]) -> Bytes[96]:
    b: Bytes[96] = a
    return slice(b, 1, len(b) - 1)

@external
def f(a: Bytes[96]) -> (Bytes[96], Bytes[96], uint256):
    b: Bytes[96] = a
    c: Bytes[96] = b
    d: Bytes[96] = self._tail(c)
    return c, d, self._len2(b, d)

@external
def g(a: Bytes[64], k: uint256) -> (Bytes[64], bytes32):
    b: Bytes[64] = a
    c: Bytes[64] = b
    if k > 3:
        b = slice(concat(a, a), k, 64)
    return c, keccak256(b)

@external
def h(a: String[50]) -> (String[50], String[100]):
    b: String[50] = a
    c: String[100] = concat(b, a)
    return b, c
''')

_add("cp_dyn_loops", '''
@internal
@view
def _total(xs: DynArray[uint256, 6]) -> uint256:
    t: uint256 = 0
    for x: uint256 in xs:
        t += x
    return t

@internal
def _push(xs: DynArray[uint256, 6], v: uint256) -> DynArray[uint256, 6]:
    if len(xs) < 6:
        xs.append(v)
    return xs

@internal
@view
def _outer(xs: DynArray[uint256, 6]) -> uint256:
    return self._total(xs) + len(xs)

@external
def f(xs: DynArray[uint256, 6], n: uint256) -> (uint256, DynArray[uint256, 6], DynArray[uint256, 6]):
    ys: DynArray[uint256, 6] = xs
    acc: uint256 = 0
    for i: uint256 in range(n, bound=4):
        zs: DynArray[uint256, 6] = ys
        ys = self._push(zs, i)
        acc += self._outer(zs)
    return acc, xs, ys
''')

_add("cp_alias", '''
struct P:
    x: uint256
    y: uint256

@internal
def _two(a: P, b: P) -> uint256:
    a.x = 100
    return a.x + b.x

@internal
def _chain_b(p: P) -> uint256:
    p.y = p.y * 2
    return p.y

@internal
def _chain_a(p: P) -> uint256:
    r: uint256 = self._chain_b(p)
    return r + p.y

@external
def f(v: uint256) -> (uint256, uint256, uint256):
    p: P = P(x=v, y=v + 1)
    r: uint256 = self._two(p, p)
    return r, p.x, p.y

@external
def g(v: uint256) -> (uint256, uint256):
    p: P = P(x=v, y=v + 1)
    r: uint256 = self._chain_a(p)
    return r, p.y
''')

_add("cp_ternary", '''
@internal
@view
def _first(a: uint256[3]) -> uint256:
    return a[0] * 7 + a[2]

@internal
def _mk(v: uint256) -> uint256[3]:
    return [v, v, v + 2]

@external
def f(c: bool, v: uint256) -> (uint256, uint256):
    a: uint256[3] = [1, 2, 3]
    b: uint256[3] = [v, 5, 6]
    r: uint256 = self._first(a if c else b)
    d: uint256[3] = self._mk(v) if c else b
    d[1] = r
    return r, self._first(d)
''')

_add("cp_storage", '''
struct T:
    n: uint256
    arr: uint256[3]
    tag: Bytes[33]

st: T
hist: DynArray[uint256, 5]

@internal
@view
def _peek(t: T) -> uint256:
    return t.n + t.arr[2] + len(t.tag)

@internal
def _save(t: T) -> uint256:
    self.st = t
    return self._peek(t)

@external
def f(n: uint256, tag: Bytes[33]) -> (uint256, uint256, uint256):
    t: T = T(n=n, arr=[n, n, 7], tag=tag)
    a: uint256 = self._save(t)
    u: T = self.st
    u.arr[2] = 1
    b: uint256 = self._peek(u)
    self.hist.append(a)
    h: DynArray[uint256, 5] = self.hist
    return a, b, len(h)

@external
@view
def get() -> (T, DynArray[uint256, 5]):
    return self.st, self.hist
''')

_add("cp_code_rd", '''
TABLE: constant(uint256[4]) = [11, 22, 33, 44]
NAME: constant(Bytes[36]) = b"abcdefghijklmnopqrstuvwxyz0123456789"

@internal
@view
def _pick(t: uint256[4], i: uint256) -> uint256:
    return t[i]

@internal
@view
def _h(b: Bytes[36]) -> bytes32:
    return keccak256(b)

@external
@view
def f(i: uint256) -> (uint256, bytes32, Bytes[36]):
    t: uint256[4] = TABLE
    n: Bytes[36] = NAME
    m: Bytes[36] = n
    return self._pick(t, i), self._h(m), n

@external
def g(target: address, d: Bytes[36]) -> (Bytes[64], Bytes[64]):
    r: Bytes[64] = raw_call(target, d, max_outsize=64, revert_on_failure=False)[1]
    q: Bytes[64] = r
    return q, r

@external
def id(x: Bytes[36]) -> Bytes[36]:
    return x
''')


class Snap:
    """structured copy of a function: blocks of (opcode, operands, outputs, wm, wrd, alloca id)"""

    def __init__(self, fn, names=None):
        from vyper.venom.basicblock import IRLabel, IRLiteral, IRVariable
        from vyper.venom.effects import Effects
        blocks = list(fn.get_basic_blocks())
        if blocks and blocks[0] is not fn.entry:
            blocks.remove(fn.entry)
            blocks.insert(0, fn.entry)
        names = names if names is not None else {"var": {}, "lab": {}, "alloca": {}, "foreign": {}}
        self.names = names
        for i, bb in enumerate(blocks):
            names["lab"].setdefault(bb.label.value, len(names["lab"]))
        self.blocks = []
        self.text = str(fn)
        self.fname = str(fn.name)
        for bb in blocks:
            blk = []
            for ins in bb.instructions:
                ops = []
                for o in ins.operands:
                    if isinstance(o, IRLiteral):
                        ops.append(("lit", o.value % W))
                    elif isinstance(o, IRVariable):
                        ops.append(("var", self.v(o)))
                    elif isinstance(o, IRLabel):
                        if o.value in names["lab"]:
                            ops.append(("lab", names["lab"][o.value]))
                        else:
                            ops.append(("lab", 1_000_000 + names["foreign"].setdefault(o.value, len(names["foreign"]))))
                    else:
                        raise ValueError(f"operand {o!r}")
                outs = [self.v(o) for o in ins.get_outputs()]
                we = ins.get_write_effects()
                aid = 0
                if ins.opcode == "alloca":
                    # identity of an allocation = its output variable (stable across the pass)
                    aid = names["alloca"].setdefault(outs[0] if outs else id(ins), len(names["alloca"]) + 1)
                blk.append((ins.opcode, ops, outs, Effects.MEMORY in we, Effects.RETURNDATA in we, aid))
            self.blocks.append(blk)
        self.ann = {}      # (block, index) -> [None | operand] per operand of an invoke (see annotate)

    def v(self, var):
        k = var.value if hasattr(var, "value") else str(var)
        return self.names["var"].setdefault(k, len(self.names["var"]))

    # ---- Coq literals
    @staticmethod
    def c_op(o):
        k, v = o
        if k == "lit":
            return f"OLit {coqrun.hexlit(v)}"
        return f"OVar {v}%N" if k == "var" else f"OLab {v}%N"

    def c_ann(self, key):
        a = self.ann.get(key)
        if not a:
            return "[]"
        return "[" + "; ".join("None" if o is None else f"Some ({self.c_op(o)})" for o in a) + "]"

    def c_func(self):
        bl = []
        for bi, blk in enumerate(self.blocks):
            ins = "; ".join(f'mkI "{op}" [{"; ".join(self.c_op(o) for o in ops)}] [{"; ".join(f"{x}%N" for x in outs)}] '
                            f'{"true" if wm else "false"} {"true" if wrd else "false"} {aid} {self.c_ann((bi, j))}'
                            for j, (op, ops, outs, wm, wrd, aid) in enumerate(blk))
            bl.append(f"[{ins}]")
        return "[" + ";\n ".join(bl) + "]"

    # ---- structural helpers (single-definition assign chains)
    def defs(self):
        d = {}
        for bi, blk in enumerate(self.blocks):
            for j, ins in enumerate(blk):
                for x in ins[2]:
                    d.setdefault(x, []).append((bi, j, ins))
        return d

    def root(self, o, defs):
        """assign-root of an operand through single-definition assigns"""
        seen = set()
        while o[0] == "var" and o[1] not in seen:
            seen.add(o[1])
            ds = defs.get(o[1], [])
            if len(ds) != 1 or ds[0][2][0] != "assign" or len(ds[0][2][1]) != 1:
                break
            o = ds[0][2][1][0]
        return o


BOT = "bot"


def certificates(snap):
    """pointer certificates by the checker's own rules (cert_of_def / phi_cert): optimistic dataflow over single-definition
    variables (bottom -> (region, offset) -> (region, None) -> no certificate); the checker re-checks the result"""
    defs = {}
    for blk in snap.blocks:
        for ins in blk:
            for x in ins[2]:
                defs.setdefault(x, []).append(ins)
    single = {x: ds[0] for x, ds in defs.items() if len(ds) == 1 and len(ds[0][2]) == 1}
    C = {x: BOT for x in single}     # BOT = not yet known (optimistic); None = no certificate

    def cert_op(o):
        if o[0] == "lit":
            return (None, o[1] % W)
        if o[0] == "var":
            return C.get(o[1])       # missing (multi-def / undefined) -> None
        return None

    def rule(ins):
        op, ops, outs, wm, wrd, aid = ins
        if op == "alloca":
            return (aid, 0)
        if op == "assign" and len(ops) == 1:
            return cert_op(ops[0])
        if op == "phi":
            acc = BOT
            for k in range(1, len(ops), 2):
                c = cert_op(ops[k])
                if c == BOT:
                    continue
                if c is None:
                    return None
                if acc == BOT:
                    acc = c
                elif acc[0] != c[0]:
                    return None
                elif acc[1] != c[1]:
                    acc = (acc[0], None)
            return acc
        if op in ("add", "sub") and len(ops) == 2:
            cb, ca = cert_op(ops[0]), cert_op(ops[1])
            if ca == BOT or cb == BOT:
                return BOT
            exact = lambda c: c is not None and c[1] is not None  # noqa
            if op == "add":
                if exact(ca) and exact(cb) and ca[0] is None and cb[0] is None:
                    return (None, (ca[1] + cb[1]) % W)
                if exact(ca) and exact(cb) and ca[0] is not None and cb[0] is None:
                    return (ca[0], ca[1] + cb[1])
                if exact(ca) and exact(cb) and ca[0] is None and cb[0] is not None:
                    return (cb[0], cb[1] + ca[1])
                if ca and cb and ca[0] is not None and cb[0] is not None:
                    return None
                if ca and ca[0] is not None:
                    return (ca[0], None)
                if cb and cb[0] is not None:
                    return (cb[0], None)
                if ca and cb and ca[0] is None and cb[0] is None:
                    return (None, None)
                return None
            if exact(ca) and exact(cb) and ca[0] is None and cb[0] is None:
                return (None, (ca[1] - cb[1]) % W)
            if exact(ca) and exact(cb) and ca[0] is not None and cb[0] is None:
                return (ca[0], ca[1] - cb[1])
            if ca and cb and ca[0] is not None and cb[0] is None:
                return (ca[0], None)
            if ca and cb and ca[0] is None and cb[0] is None:
                return (None, None)
            return None
        if op in ("nop", "mstore", "mcopy", "calldatacopy", "codecopy", "returndatacopy", "dloadbytes"):
            return None
        return (None, None)

    def leq(a, b):  # lattice order: BOT < exact < (r, None) < None
        return a == b or a == BOT or b is None or (a is not None and b is not None and a[0] == b[0] and b[1] is None)

    for _ in range(60):
        changed = False
        for x, ins in single.items():
            c = rule(ins)
            old = C[x]
            if c != old and leq(old, c):
                C[x] = c
                changed = True
            elif c != old and not leq(c, old):
                # incomparable: go to the join
                C[x] = (old[0], None) if (old not in (BOT, None) and c not in (BOT, None) and old[0] == c[0]) else None
                changed = True
        if not changed:
            break
    return {x: c for x, c in C.items() if c not in (BOT, None)}


def c_certs(C):
    def oz(z):
        return "None" if z is None else f"(Some {coqrun.hexlit(z)})"
    return "[" + "; ".join(f"({x}%N, ({oz(r)}, {oz(k)}))" for x, (r, k) in sorted(C.items())) + "]"


class Observer:
    def __init__(self):
        self.records = []     # dict(pass, fn, before: Snap, after: Snap, changed)
        self.n_invocations = {}
        self.context = ("?", "?")
        self._saved = {}

    def __enter__(self):
        import vyper.venom  # noqa: F401
        from vyper.venom.passes import internal_return_copy_forwarding as A, memory_copy_elision as M, readonly_invoke_arg_copy_forwarding as R
        classes = {"MemoryCopyElisionPass": M.MemoryCopyElisionPass, "InternalReturnCopyForwardingPass": A.InternalReturnCopyForwardingPass,
                   "ReadonlyInvokeArgCopyForwardingPass": R.ReadonlyInvokeArgCopyForwardingPass}
        for name, cls in classes.items():
            orig = cls.run_pass
            self._saved[cls] = orig
            cls.run_pass = self._wrap(orig, name)
        return self

    def __exit__(self, *a):
        for cls, orig in self._saved.items():
            cls.run_pass = orig

    def _wrap(self, orig, name):
        obs = self

        def run_pass(self_, *a, **k):
            fn = self_.function
            before = Snap(fn)
            r = orig(self_, *a, **k)
            after = Snap(fn, names=before.names)
            obs.n_invocations[name] = obs.n_invocations.get(name, 0) + 1
            if after.blocks != before.blocks:
                rec = {"pass": name, "fn": before.fname, "before": before, "after": after, "context": obs.context}
                if name != "MemoryCopyElisionPass":
                    try:
                        rec["roles"], rec["recheck"] = invoke_roles(self_, fn, before)
                        rec["callees"] = getattr(self_, "_c14c_callees", {})
                        annotate(before, after, rec["roles"], fill=(name == "InternalReturnCopyForwardingPass"))
                    except Exception as e:  # noqa
                        rec["export_error"] = f"{type(e).__name__}: {e}"
                obs.records.append(rec)
            return r
        return run_pass


PURE_READERS = ("mload", "sha3", "sha3_64", "iszero", "eq", "lt", "gt", "slt", "sgt", "call", "staticcall", "delegatecall", "create", "create2",
                "log", "return", "revert", "mcopy", "mstore", "calldatacopy", "codecopy", "returndatacopy", "dloadbytes", "extcodecopy")


def readonly_recheck(callee, idx, claimed):
    """independent syntactic re-check of one read-only fact of ReadonlyMemoryArgsGlobalAnalysis on the callee body: no
    instruction writes memory through a pointer derived from parameter idx (derived = closure under assign / add / sub / phi over
    EVERY definition of a variable, so multiply-defined pre-SSA variables are covered), the pointer does not escape into another
    value, and it is passed on only to read-only parameters.  -> None if ok, else the reason"""
    from vyper.venom.call_layout import FunctionCallLayout, InvokeLayout
    from vyper.venom.memory_location import memory_write_ops
    params = FunctionCallLayout(callee).user_params
    if idx >= len(params):
        return f"no user parameter {idx}"
    derived = {params[idx].output}
    insts = [ins for bb in callee.get_basic_blocks() for ins in bb.instructions]
    changed = True
    while changed:
        changed = False
        for ins in insts:
            if ins.opcode in ("assign", "add", "sub", "phi") and any(o in derived for o in ins.operands):
                for o in ins.get_outputs():
                    if o not in derived:
                        derived.add(o)
                        changed = True
    for ins in insts:
        for pos, o in enumerate(ins.operands):
            if o not in derived or ins.opcode in ("assign", "add", "sub", "phi"):
                continue
            if ins.opcode == "invoke":
                lay = InvokeLayout(callee.ctx, ins)
                k = lay.user_arg_index(pos)
                c2 = lay.callee
                if k is None or c2 is None or pos == lay.return_buffer_operand_pos or k not in claimed.get(c2, ()):
                    return f"passed on to a parameter that is not read-only: {ins}"
                continue
            w = memory_write_ops(ins).ofst
            if w is not None and w == o:
                return f"written through: {ins}"
            if ins.opcode not in PURE_READERS:
                return f"escapes into {ins}"
            if ins.opcode == "mstore" and pos == 0:
                return f"stored as a value: {ins}"
    return None


RID = 990000


def callee_snap(callee, k, claimed):
    """the callee body for RoCheck.ro_check: the `param` of user parameter k becomes `alloca` of the fresh identity RID + k (the
    caller's buffer seen as an allocation); invoke operands are annotated Some (OLit 0) at read-only positions, Some (OLab 0) at
    return-buffer positions"""
    from vyper.venom.call_layout import FunctionCallLayout, InvokeLayout
    sn = Snap(callee)
    pv = sn.v(FunctionCallLayout(callee).user_params[k].output)
    blocks = list(callee.get_basic_blocks())
    if blocks and blocks[0] is not callee.entry:
        blocks.remove(callee.entry)
        blocks.insert(0, callee.entry)
    for bi, bb in enumerate(blocks):
        for j, ins in enumerate(bb.instructions):
            op, ops, outs, wm, wrd, aid = sn.blocks[bi][j]
            if op == "param" and outs == [pv]:
                sn.blocks[bi][j] = ("alloca", [("lit", 0)], outs, False, False, RID + k)
                sn.names["alloca"][pv] = RID + k
            if op == "invoke":
                lay = InvokeLayout(callee.ctx, ins)
                c2, rpos = lay.callee, lay.return_buffer_operand_pos
                ann = []
                for pos in range(len(ins.operands)):
                    kk = lay.user_arg_index(pos)
                    if pos == rpos and rpos is not None:
                        ann.append(("lab", 0))
                    elif pos != 0 and kk is not None and c2 is not None and kk in claimed.get(c2, ()):
                        ann.append(("lit", 0))
                    else:
                        ann.append(None)
                sn.ann[(bi, j)] = ann
    return sn, RID + k


def invoke_roles(pass_obj, fn, before):
    """per invoke of fn (positions are stable across the pass): callee name and, per operand, 'ro' / 'rw' / 'ret' / 'other';
    the read-only facts come from the pass's own ReadonlyMemoryArgsGlobalAnalysis and are re-checked on the callee bodies"""
    from vyper.venom.call_layout import InvokeLayout
    roa = pass_obj.readonly_memory_args
    claimed = dict(roa.readonly_idxs_by_fn)
    blocks = list(fn.get_basic_blocks())
    if blocks and blocks[0] is not fn.entry:
        blocks.remove(fn.entry)
        blocks.insert(0, fn.entry)
    roles, recheck = {}, {}
    pass_obj._c14c_callees = {}
    for bi, bb in enumerate(blocks):
        for j, ins in enumerate(bb.instructions):
            if ins.opcode != "invoke":
                continue
            lay = InvokeLayout(fn.ctx, ins)
            callee = lay.callee
            rpos = lay.return_buffer_operand_pos
            rl = []
            for pos in range(len(ins.operands)):
                k = lay.user_arg_index(pos)
                if pos == 0 or k is None or callee is None:
                    rl.append("other")
                elif pos == rpos:
                    rl.append("ret")
                elif k in claimed.get(callee, ()):
                    rl.append("ro")
                    key = (str(callee.name), k)
                    if key not in recheck:
                        recheck[key] = readonly_recheck(callee, k, claimed)
                        try:
                            pass_obj._c14c_callees[key] = callee_snap(callee, k, claimed)
                        except Exception as e:  # noqa
                            pass_obj._c14c_callees[key] = f"{type(e).__name__}: {e}"
                else:
                    rl.append("rw")
            roles[(bi, j)] = (str(callee.name) if callee is not None else None, rl,
                              [lay.user_arg_index(pos) for pos in range(len(ins.operands))])
    return roles, recheck


def annotate(before, after, roles, fill=False):
    """i_ann of every invoke (the same in both snapshots): Some size for an operand at a read-only position whose value is
    staged by exactly one copy in the BEFORE function (size = that copy's size operand), else None"""
    defs = before.defs()
    copies = {}
    for blk in before.blocks:
        for ins in blk:
            if ins[0] == "mcopy" and len(ins[1]) == 3:
                r = before.root(ins[1][2], defs)
                copies.setdefault(r, []).append(ins[1][0])
    for key, (callee, rl, _) in roles.items():
        bi, j = key
        ops = before.blocks[bi][j][1]
        ann = []
        for o, role in zip(ops, rl):
            r = before.root(o, defs)
            cs = copies.get(r, [])
            ann.append(("lab", 0) if (fill and role == "ret") else (cs[0] if role == "ro" and len(cs) == 1 else None))
        before.ann[key] = ann
        after.ann[key] = ann


def split_readonly(rec):
    """f -> f1 (operands redirected, staging copies kept: checked by check_func, rule R4) -> f' (dead staging copies removed:
    dead_copy_check).  Returns the intermediate Snap-like record."""
    import copy
    mid = copy.copy(rec["after"])
    mid.blocks = [list(b) for b in rec["after"].blocks]
    removed = []
    for bi, (bb, ba) in enumerate(zip(rec["before"].blocks, rec["after"].blocks)):
        for j, (x, y) in enumerate(zip(bb, ba)):
            if x != y and x[0] == "mcopy" and y[0] == "nop":
                mid.blocks[bi][j] = x
                removed.append((bi, j, x))
    return mid, removed


def uses_of_closure(snap, root_var):
    """instructions using a variable of the assign-closure of root_var other than the assigns that build the closure"""
    clo = {root_var}
    ch = True
    while ch:
        ch = False
        for blk in snap.blocks:
            for ins in blk:
                if ins[0] == "assign" and any(o == ("var", v) for o in ins[1] for v in clo):
                    for x in ins[2]:
                        if x not in clo:
                            clo.add(x)
                            ch = True
    out = []
    for bi, blk in enumerate(snap.blocks):
        for j, ins in enumerate(blk):
            if ins[0] != "assign" and any(o[0] == "var" and o[1] in clo for o in ins[1]):
                out.append((bi, j, ins))
    return clo, out


def dead_copy_check(mid, after, removed):
    """f1 -> f': a removed copy must write an allocation nothing reads afterwards: its destination is (an alias of) a singly
    defined alloca whose assign-closure is, in f', used by no instruction (all uses were redirected).  -> None or reason"""
    defs = after.defs()
    for bi, j, x in removed:
        r = mid.root(x[1][2], defs)
        if r[0] != "var" or len(defs.get(r[1], [])) != 1 or defs[r[1]][0][2][0] != "alloca":
            return f"destination of the removed copy at {bi}:{j} is not a singly defined alloca"
        clo, uses = uses_of_closure(after, r[1])
        if any(len(defs.get(v, [])) != 1 for v in clo):
            return "alias of the staging buffer defined more than once"
        if uses:
            return f"staging buffer still used at {uses[0][0]}:{uses[0][1]} ({uses[0][2][0]})"
    return None


def internal_return_check(rec):
    """InternalReturnCopyForwardingPass (unverified, syntactic; region renaming is outside copyfwd_check_sound): every change is
    (a) mcopy dst, ret, n -> nop where dst / ret are singly defined allocas of size n, ret's closure is used in f only by this
    copy (as source) and by ONE invoke, as its return buffer, earlier in the same block; (b) an operand of dst's closure
    replaced by ret's root, in the same block after that copy; and in f' dst's closure is used by nothing.  -> None or reason"""
    b, a = rec["before"], rec["after"]
    ch = changes(rec)
    if ch is None:
        return "block structure changed"
    defs = b.defs()
    ren = {}      # block -> list of (index of copy, closure(dst), effective return buffer root, dst root)
    alias = {}    # dst root of a forwarded copy -> (effective return buffer root, block, index)
    for bi, j, x, y in ch:
        if x[0] == "mcopy" and y[0] == "nop":
            n, src, dst = x[1]
            rd, rs = b.root(dst, defs), b.root(src, defs)
            for r in (rd, rs):
                if r[0] != "var" or len(defs.get(r[1], [])) != 1 or defs[r[1]][0][2][0] != "alloca":
                    return f"copy at {bi}:{j}: operand root is not a singly defined alloca"
                if n[0] != "lit" or defs[r[1]][0][2][1] != [("lit", n[1])]:
                    return f"copy at {bi}:{j}: size differs from the alloca size"
            if rd == rs:
                return "copy onto itself"
            clo_s, uses_s = uses_of_closure(b, rs[1])
            if rs[1] in alias:
                # a copy of a buffer that was itself forwarded: sound only if that buffer has no other use in f
                eff, cbi, cj = alias[rs[1]]
                if cbi != bi or cj >= j or any((ubi, uj) not in ((cbi, cj), (bi, j)) for ubi, uj, _ in uses_s):
                    return f"copy at {bi}:{j} of a forwarded buffer that has other uses"
            else:
                inv = [(ubi, uj, ins) for ubi, uj, ins in uses_s if ins[0] == "invoke"]
                other = [(ubi, uj, ins) for ubi, uj, ins in uses_s if ins[0] != "invoke" and (ubi, uj) != (bi, j)]
                if other:
                    return f"return buffer also used at {other[0][0]}:{other[0][1]} ({other[0][2][0]})"
                if len(inv) != 1 or inv[0][0] != bi or inv[0][1] >= j:
                    return "return buffer not filled by exactly one earlier invoke of the same block"
                role = rec.get("roles", {}).get((inv[0][0], inv[0][1]))
                pos = [k for k, o in enumerate(inv[0][2][1]) if o[0] == "var" and o[1] in clo_s]
                if role is None or any(role[1][k] != "ret" for k in pos):
                    return "return buffer passed to the invoke at a position that is not its return buffer"
                eff = rs[1]
            clo_d, _ = uses_of_closure(b, rd[1])
            alias[rd[1]] = (eff, bi, j)
            ren.setdefault(bi, []).append((j, clo_d, eff, rd[1]))
    for bi, j, x, y in ch:
        if x[0] == "mcopy" and y[0] == "nop":
            continue
        if x[0] != y[0] or x[2:] != y[2:] or len(x[1]) != len(y[1]):
            return f"unexpected rewrite {x[0]} -> {y[0]} at {bi}:{j}"
        for o, o2 in zip(x[1], y[1]):
            if o == o2:
                continue
            ok = any(cj < j and o[0] == "var" and o[1] in clo and o2 == ("var", rs) for cj, clo, rs, _ in ren.get(bi, []))
            if not ok:
                return f"operand at {bi}:{j} replaced without a forwarded return buffer in scope"
    for lst in ren.values():
        for _, _, _, rd in lst:
            _, uses = uses_of_closure(a, rd)
            if uses:
                return f"destination buffer still used at {uses[0][0]}:{uses[0][1]} ({uses[0][2][0]})"
    return None


def ir_steps(rec):
    """decomposition of an InternalReturn invocation into steps each of which has a proved checker: chains of forwarded copies
    (X <- R; D <- X, both removed) become  f -> fa (D <- R: check_func R1) -> fb (X <- R removed: dead_check) -> f' (ir_check)"""
    import copy
    b, a = rec["before"], rec["after"]
    defs = b.defs()
    cps = []
    for bi, j, x, y in (changes(rec) or []):
        if x[0] == "mcopy" and y[0] == "nop" and len(x[1]) == 3 and x[1][0][0] == "lit":
            rd, rs = b.root(x[1][2], defs), b.root(x[1][1], defs)
            cps.append({"pos": (bi, j), "x": x, "y": y, "d": b.names["alloca"].get(rd[1], -1) if rd[0] == "var" else -1,
                        "r": b.names["alloca"].get(rs[1], -2) if rs[0] == "var" else -2, "n": x[1][0][1], "src": x[1][1]})
    by_d = {c["d"]: c for c in cps}
    inter = {c["r"] for c in cps if c["r"] in by_d and by_d[c["r"]]["pos"][0] == c["pos"][0] and by_d[c["r"]]["pos"][1] < c["pos"][1]}

    def eff(c, depth=0):
        if c["r"] in inter and depth < 8:
            return eff(by_d[c["r"]], depth + 1)
        return c["r"], c["src"]
    steps = []
    base = b
    if inter:
        fa = copy.copy(b)
        fa.blocks = [list(blk) for blk in b.blocks]
        for c in cps:
            if c["r"] in inter:
                bi, j = c["pos"]
                op, ops, outs, wm, wrd, aid = c["x"]
                fa.blocks[bi][j] = (op, [ops[0], eff(c)[1], ops[2]], outs, wm, wrd, aid)
        fb = copy.copy(fa)
        fb.blocks = [list(blk) for blk in fa.blocks]
        for c in cps:
            if c["d"] in inter:
                bi, j = c["pos"]
                fb.blocks[bi][j] = c["y"]
        steps += [("cf", b, fa), ("dead", fa, fb, sorted(inter))]
        base = fb
    Pp = [(c["d"], eff(c)[0], c["n"]) for c in cps if c["d"] not in inter]
    rets = {p[1] for p in Pp}
    # the return-buffer annotation only on the invokes that fill a return buffer of P
    for sn in {id(x): x for x in (b, a, base)}.values():
        for key, ann in list(sn.ann.items()):
            ops = sn.blocks[key[0]][key[1]][1]
            new = []
            for o, an in zip(ops, ann):
                if an == ("lab", 0):
                    rt = b.root(o, defs)
                    an = an if (rt[0] == "var" and b.names["alloca"].get(rt[1]) in rets) else None
                new.append(an)
            sn.ann[key] = new
    steps.append(("ir", base, a, Pp, renamed_vars({"before": base, "after": a})))
    return steps


def renamed_vars(rec):
    """variables that hold a pointer into a destination in f and into the return buffer in f': outputs of assign / add
    with a substituted operand, closed under assign / add"""
    RN = set()
    ch = {(bi, j) for bi, j, x, y in (changes(rec) or []) if x[0] == y[0] and x[1] != y[1]}
    grow = True
    while grow:
        grow = False
        for bi, blk in enumerate(rec["before"].blocks):
            for j, ins in enumerate(blk):
                if ins[0] in ("assign", "add") and len(ins[2]) == 1 and ins[2][0] not in RN:
                    if (bi, j) in ch or any(o[0] == "var" and o[1] in RN for o in ins[1]):
                        RN.add(ins[2][0])
                        grow = True
    return sorted(RN)

def key_of(rec):
    return hashlib.sha1((rec["pass"] + rec["before"].text + "\n=>\n" + rec["after"].text).encode()).hexdigest()[:16]


COQ_IMPORTS = "From Verif Require Import C14C.CopySem C14C.CopyCheck C14C.DeadCheck C14C.IRCheck C14C.RoCheck.\nOpen Scope string_scope.\n"
MODEL_FILES = ["C14C/CopySem.v", "C14C/CopyCheck.v", "C14C/DeadCheck.v", "C14C/IRCheck.v", "C14C/RoCheck.v"]
PROOF_FILES = ["C14C/CopySound1.v", "C14C/CopySound2.v", "C14C/CopySound3.v", "C14C/CopySound4.v", "C14C/CopySound.v", "C14C/PropsCopy.v", "C14C/DeadSound.v", "C14C/PropsDead.v", "C14C/IRSound.v", "C14C/PropsIR.v", "C14C/RoSound.v", "C14C/PropsRo.v"]


def evaluate(recs, name="c14c", rounds=8):
    """run check_func on every record; returns list of (accepted, certs_ok, blocks_ok)"""
    if not recs:
        return []
    exprs = []
    for r in recs:
        C = certificates(r.get("ir_before") or r["before"])
        dead = "1"
        if r.get("dead_step") is not None:   # the second step g -> h: removal of copies into the allocations D
            h, D = r["dead_step"]
            hh = "g" if r.get("dead_only") else f"({h.c_func()})"
            dead = f"(let h := {hh} in if dead_check C [{'; '.join(str(d) for d in D)}] g h then 1 else 0)"
        if r.get("steps") is not None:
            snaps, binds, checks = {}, [], []

            def nm(sn):
                if id(sn) not in snaps:
                    snaps[id(sn)] = f"f{len(snaps)}"
                    binds.append(f"let {snaps[id(sn)]} := {sn.c_func()} in ")
                return snaps[id(sn)]
            for st in r["steps"]:
                if st[0] == "cf":
                    a_, b_ = nm(st[1]), nm(st[2])
                    checks.append(f"(if check_func C (infer_entry C {a_} {max(rounds, len(st[1].blocks) + 1)}) {a_} {b_} then 1 else 0)")
                elif st[0] == "ro":
                    checks.append(f"(if ro_check C [{st[2]}] {nm(st[1])} then 1 else 0)")
                elif st[0] == "dead":
                    checks.append(f"(if dead_check C [{'; '.join(str(d) for d in st[3])}] {nm(st[1])} {nm(st[2])} then 1 else 0)")
                else:
                    Pp, RN = st[3], st[4]
                    checks.append(f"(if ir_check C [{'; '.join(f'({d}, {rr}, {n})' for d, rr, n in Pp)}] [{'; '.join(f'{x}%N' for x in RN)}] "
                                  f"{nm(st[1])} {nm(st[2])} then 1 else 0)")
            exprs.append(f"(let C := {c_certs(C)} in " + "".join(binds) + "[" + "; ".join(checks) + "])")
            continue
        if r.get("dead_only"):
            Pp, RN = r["ir_args"]
            ir = (f"(if ir_check C [{'; '.join(f'({d}, {rr}, {n})' for d, rr, n in Pp)}] [{'; '.join(f'{x}%N' for x in RN)}] "
                  f"{r['ir_before'].c_func()} g then 1 else 0)")
            exprs.append(f"(let C := {c_certs(C)} in let g := {r['after'].c_func()} in [1; 1; 1; {dead}; {ir}])")
            continue
        exprs.append(f"(let C := {c_certs(C)} in let f := {r['before'].c_func()} in let g := {r['after'].c_func()} in "
                     f"let E := infer_entry C f {max(rounds, len(r['before'].blocks) + 1)} in "
                     f"[if check_func C E f g then 1 else 0; if certs_ok f C then 1 else 0; if check_blocks C E E f g then 1 else 0; {dead}; 1])")
    # three coqc processes side by side (largest expressions first, dealt round-robin)
    from concurrent.futures import ThreadPoolExecutor
    order = sorted(range(len(exprs)), key=lambda i: -len(exprs[i]))
    groups = [order[k::3] for k in range(3)]
    groups = [g for g in groups if g]
    res = [None] * len(exprs)

    def work(k):
        g = groups[k]
        return g, coqrun.eval_zlists(COQ_IMPORTS, [exprs[i] for i in g], f"{name}_{k}", shard=max(1, len(g)), timeout=300)
    with ThreadPoolExecutor(max_workers=3) as ex:
        for g, outs in ex.map(work, range(len(groups))):
            for i, o in zip(g, outs):
                res[i] = tuple(o)
    return res


def changes(rec):
    """[(block, index, before instruction, after instruction)] or None when the block structure changed"""
    b, a = rec["before"].blocks, rec["after"].blocks
    if len(b) != len(a) or any(len(x) != len(y) for x, y in zip(b, a)):
        return None
    return [(i, j, x, y) for i, (bx, by) in enumerate(zip(b, a)) for j, (x, y) in enumerate(zip(bx, by)) if x != y]


COPY_OPS = ("mcopy", "calldatacopy", "codecopy", "returndatacopy", "dloadbytes")


def domain(rec):
    """None if the invocation is in the domain of check_func (every change is mcopy -> nop / mcopy -> copy), else the reason"""
    ch = changes(rec)
    if ch is None:
        return "block structure changed"
    for _, _, x, y in ch:
        if x[0] == "mcopy" and (y[0] == "nop" or y[0] in COPY_OPS):
            continue
        if x[0] in ("mstore", "mload") or y[0] in ("mstore", "mload"):
            return "load-store pair elision (mload/mstore rewritten)"
        return f"rewrite {x[0]} -> {y[0]}"
    return None


def fmt_inst(ins, names):
    inv = {v: k for k, v in names["var"].items()}
    op, ops, outs, *_ = ins
    o = ", ".join(str(v) if k == "lit" else (inv.get(v, f"%{v}") if k == "var" else f"@{v}") for k, v in reversed(ops))
    return (", ".join(inv.get(x, str(x)) for x in outs) + " = " if outs else "") + f"{op} {o}"


def compile_corpus(progs, levels, obs):
    import warnings
    from vlib.configs import Config, compile_src
    nfail = 0
    with warnings.catch_warnings():
        warnings.simplefilter("ignore")
        for c in progs:
            for lvl in levels:
                obs.context = (c["name"], lvl)
                try:
                    compile_src(c["src"], Config(True, lvl, "cancun"), formats=("bytecode",))
                except Exception:  # noqa
                    nfail += 1
    return nfail


def _build(ctx):
    ctx.coq_build_cached(MODEL_FILES, timeout=300)
    return ctx.coq_build_cached(PROOF_FILES, deps=MODEL_FILES, timeout=600)


def prebuild(ctx):
    _build(ctx)


def part_copy_passes(ctx):
    import time
    from vlib import c14_pass_corpus as PC
    from vlib.coqrun import COQ
    t0 = time.time()
    b = _build(ctx)
    quick = ctx.tier == "quick"
    rnd = ctx.rng("c14c")
    progs = PC.select(ctx.tier, rnd)
    levels = ["gas"] if quick else ["gas", "codesize", "O3"]
    with Observer() as obs:
        nfail = compile_corpus(progs, levels, obs)
        nfail += compile_corpus(COPY_CORPUS, ["gas", "codesize", "O3"], obs)
    progs = progs + COPY_CORPUS
    t1 = time.time()
    seen, recs = set(), []
    for r in obs.records:
        k = key_of(r)
        if k not in seen:
            seen.add(k)
            recs.append(r)
    stats = {"invocations": dict(obs.n_invocations), "changed": {}, "distinct_changed": {}, "verdicts": {}, "compile_failures": nfail,
             "programs": len(progs), "levels": levels, "unsupported_reasons": {}}
    for r in obs.records:
        stats["changed"][r["pass"]] = stats["changed"].get(r["pass"], 0) + 1
    for r in recs:
        stats["distinct_changed"][r["pass"]] = stats["distinct_changed"].get(r["pass"], 0) + 1
    if quick:
        # every invocation on the programs written for these passes, a seeded sample of the others (<= 60 s on an idle machine)
        own_ = {c["name"] for c in COPY_CORPUS}
        head = [r for r in recs if r["context"][0] in own_]
        rest = [r for r in recs if r["context"][0] not in own_]
        recs = head + rnd.sample(rest, min(len(rest), 5))
        stats["evaluated_in_quick"] = len(recs)
    todo, verdict, ro_items = [], {}, {}
    RO, IR = "ReadonlyInvokeArgCopyForwardingPass", "InternalReturnCopyForwardingPass"
    for i, r in enumerate(recs):
        why = None
        if r.get("export_error"):
            why = "export failed: " + r["export_error"]
        elif r["pass"] == "MemoryCopyElisionPass":
            why = domain(r)
            r["pair"] = r
        elif r["pass"] == RO:
            # f -> f1 (redirected operands, copies kept; check_func, rule R4) -> f' (dead staging copies removed)
            mid, removed = split_readonly(r)
            defs_ = r["before"].defs()
            D = sorted({r["before"].names["alloca"].get(r["before"].root(x[1][2], defs_)[1], -1) for _, _, x in removed if r["before"].root(x[1][2], defs_)[0] == "var"})
            r["pair"] = {"before": r["before"], "after": mid, "dead_step": (r["after"], D)}
            r["dead"] = dead_copy_check(mid, r["after"], removed)     # the same conditions in Python: gives the reason
            # the read-only facts this invocation relies on: (callee, parameter) of every redirected operand
            used = set()
            for bi, j, x, y in (changes(r) or []):
                if x[0] == "invoke" and (bi, j) in r.get("roles", {}):
                    callee, _, ks = r["roles"][(bi, j)]
                    used |= {(callee, ks[pos]) for pos, (o, o2) in enumerate(zip(x[1], y[1])) if o != o2}
            r["recheck_bad"] = {k: v for k, v in r.get("recheck", {}).items() if v and k in used}
            r["recheck_used"] = len(used)
            for k in sorted(used, key=str):
                cs = r.get("callees", {}).get(k)
                if isinstance(cs, tuple):
                    ro_items.setdefault(hashlib.sha1((cs[0].text + str(cs[1])).encode()).hexdigest(), {"snap": cs, "recs": []})["recs"].append((r, k))
                else:
                    r["recheck_bad"][k] = r["recheck_bad"].get(k) or f"callee body not exported: {cs}"
            if changes(r) is None:
                why = "block structure changed"
        elif r["pass"] == IR:
            r["ir"] = internal_return_check(r)     # Python pre-check: gives the reason; the verdict needs the proved checkers too
            r["pair"] = {"before": r["before"], "after": r["after"], "steps": ir_steps(r)}
            todo.append(i)
            continue
        if why is None:
            todo.append(i)
        else:
            verdict[i] = "unsupported"
            stats["unsupported_reasons"][why] = stats["unsupported_reasons"].get(why, 0) + 1
    if todo and (COQ / "C14C" / "CopyCheck.vo").exists():
        try:
            # the read-only facts relied upon, on the callee bodies: RoCheck.ro_check (ro_body_sound)
            items = list(ro_items.values())
            ro_out = evaluate([{"before": it["snap"][0], "after": it["snap"][0], "steps": [("ro", it["snap"][0], it["snap"][1])]} for it in items], name="c14c_ro")
            stats["ro_check"] = {"bodies": len(items), "accepted": sum(1 for o in ro_out if o and o[0] == 1)}
            for it, o in zip(items, ro_out):
                if not o or o[0] != 1:
                    for r_, k_ in it["recs"]:
                        r_["recheck_bad"][k_] = (r_["recheck_bad"].get(k_) or "") + " [ro_check (Gallina) rejects the callee body]"
            outs = evaluate([recs[i]["pair"] for i in todo])
            for i, o in zip(todo, outs):
                r = recs[i]
                ok = r["pass"] != IR and o[0] == 1 and o[3] == 1 and not r.get("dead") and not r.get("recheck_bad")
                if r["pass"] == IR:
                    ok = all(v == 1 for v in o) and r["ir"] is None
                    r["why"] = {"internal_return_check": r["ir"], "steps": [st[0] for st in r["pair"]["steps"]], "results": list(o)}
                verdict[i] = "accepted" if ok else "rejected"
                if r["pass"] == IR and not ok and r["ir"] is None:
                    # internal_return_check (Python) accepted: the instance is outside the domain of the proved checker
                    why = "outside ir_check (chain of forwarded buffers, or a derived pointer used outside the block / before its definition)"
                    verdict[i] = "unsupported"
                    stats["unsupported_reasons"][why] = stats["unsupported_reasons"].get(why, 0) + 1
                if r["pass"] == RO and o[0] != 1 and o[3] == 1 and not r.get("dead") and not r.get("recheck_bad"):
                    # domain limit of the certificates: the source of a staging copy is a phi of pointers into different
                    # allocations (or a multiply defined variable): no region is known for it
                    C = certificates(r["before"])
                    defs = r["before"].defs()
                    unc = [x for _, _, x, y in changes(r) if x[0] == "mcopy" and y[0] == "nop"
                           and r["before"].root(x[1][1], defs)[0] == "var" and r["before"].root(x[1][1], defs)[1] not in C]
                    if unc:
                        why = "source of the staging copy has no pointer certificate (phi of different allocations)"
                        verdict[i] = "unsupported"
                        stats["unsupported_reasons"][why] = stats["unsupported_reasons"].get(why, 0) + 1
                if r["pass"] != IR:
                    r["why"] = {"check_func": o[0], "certs_ok": o[1], "blocks_ok": o[2], "dead_check": o[3], "dead_copy_check": r.get("dead"),
                                "readonly_recheck_failures": {f"{k[0]}#{k[1]}": v for k, v in r.get("recheck_bad", {}).items()}}
        except RuntimeError as e:
            ctx.violation("correspondence-broken", "check_func could not be evaluated on the exported invocations", {"error": str(e)[-1500:]})
    stats["validated_by"] = {"MemoryCopyElisionPass": "check_func (copyfwd_check_sound)", RO: "check_func rule R4 (copyfwd_check_sound under ro_uniform) + "
                             "dead_check (dead_copy_sound under oracle_local) + ro_check on the callee bodies (ro_body_sound: the callee never writes "
                             "the argument; readonly_recheck in Python gives the reason)", IR: "internal_return_check (Python) as a pre-filter, then ir_check (internal_return_sound under oracle_ren, bounded "
                             "semantics); chains of forwarded copies via check_func R1 + dead_check + ir_check"}
    stats["readonly_facts_rechecked"] = sum(r.get("recheck_used", 0) for r in recs)
    t2 = time.time()
    entries = {c["name"]: c for c in progs}
    own = {c["name"] for c in COPY_CORPUS}
    for i, r in enumerate(recs):
        v = verdict.get(i, "not-evaluated")
        d = stats["verdicts"].setdefault(r["pass"], {})
        d[v] = d.get(v, 0) + 1
    # rejected invocations: search (programs written for these passes first), report failing inputs first
    rej = sorted([r for i, r in enumerate(recs) if verdict.get(i) == "rejected"], key=lambda r: (r["context"][0] not in own, r["context"][0]))
    searched, found, unfound = {}, [], []
    for r in rej:
        prog, lvl = r["context"]
        k = (prog, lvl, r["pass"])
        if k not in searched and len(searched) < (6 if quick else 12) and len(found) < 3:
            try:
                from vlib.c14m_part import search
                searched[k] = search(entries[prog], lvl, r["pass"], ctx.seed, ctx.tier)
            except Exception as e:  # noqa
                searched[k] = None
                ctx.log(f"  c14c search failed for {prog}/{lvl}: {type(e).__name__}: {e}")
        (found if searched.get(k) is not None else unfound).append(r)
    stats["rejected_searched"] = len(searched)
    reported = 0
    for r in (found[:3] if found else unfound[:3]):
        prog, lvl = r["context"]
        s = searched.get((prog, lvl, r["pass"]))
        ch = changes(r) or []
        detail = {"pass": r["pass"], "program": prog, "config": f"venom-{lvl}-cancun", "function": r["fn"], "theorem": "copyfwd_check_sound",
                  "checker": r.get("why"), "changes": [{"block": bi, "index": j, "before": fmt_inst(x, r["before"].names), "after": fmt_inst(y, r["before"].names)}
                                                        for bi, j, x, y in ch[:12]],
                  "function_before": r["before"].text[:6000]}
        reported += 1
        if s is not None:
            ctx.violation("failing-input", f"{r['pass']} makes a rewrite that the validator rejects and the compiled contract {prog} ({lvl}) behaves "
                          "differently from the reference" + (" (localised: equal to the reference with the pass skipped)" if s["localised"] else ""),
                          dict(detail, source=entries[prog]["src"], call=s["call"], difference=s["diff"], localised_to_pass=s["localised"],
                               expected="same status / return data / logs / storage as legacy -O none"), key=f"C14C:{r['pass']}:{prog}")
        else:
            ctx.violation("theorem-broken", f"copyfwd_check_sound does not apply: {r['pass']} on {r['fn']} of {prog} ({lvl}) removes or redirects a "
                          "copy that the validator cannot justify (no valid copy fact / operand not read-only / buffer still live); "
                          "no-failing-input-found", detail, key=f"C14C:reject:{r['pass']}:{prog}")
    if not b["ok"] and not reported:
        ctx.violation("theorem-broken", f"{b.get('failed_lemma')} in {b['file']}", {"theorem": b.get("failed_lemma"), "file": b["file"],
                                                                                     "coq_output": b["out"][-1500:]})
    stats["seconds"] = {"build+compile": round(t1 - t0, 1), "check_func": round(t2 - t1, 1), "total": round(time.time() - t0, 1)}
    ctx.corr["copy_passes"] = stats
    ctx.log(f"  c14c: verdicts {stats['verdicts']} unsupported {stats['unsupported_reasons']} ro_check {stats.get('ro_check')} seconds {stats['seconds']}")
    acc = [r for i, r in enumerate(recs) if verdict.get(i) == "accepted"]
    if acc:
        ch = changes(acc[0])
        ctx.samples.append({"accepted": acc[0]["pass"], "program": acc[0]["context"][0], "function": acc[0]["fn"],
                            "changes": [{"before": fmt_inst(x, acc[0]["before"].names), "after": fmt_inst(y, acc[0]["before"].names)} for _, _, x, y in ch[:3]]})
    return len(recs)
